"""Per-property configuration of bin/check."""

COMMON_TB = [
    "Lean 4.33.0 kernel (theorems checked by `lake build`; thorough tier re-checks the .olean files with leanchecker)",
    "/verif/extract (go/ast translator that regenerates NLE/Gen/*.lean from /repo's working tree on every run)",
    "/verif/harness correspondence check (runs the real leader package and the model's executable definitions on the same inputs)",
]

SCEN_TB = COMMON_TB + [
    "modelled, not verified: the goroutine-level behaviour of leader/*.go as the labelled transition system NLE/Model/Own.lean (guards = what the code does "
    "between blocking points); tied to the code by trace acceptance: every trace of the real package (run under testing/synctest against the reference store) "
    "must be accepted by the model, and the property monitors (NLE/Model/Monitors.lean) are evaluated on the same traces",
    "modelled, not verified: the reference store as the meaning of JetStream KV (compared with the store model on every trace; with the real adapter in C14); "
    "testing/synctest virtual time; A-uuid (uuid.New() never repeats a value generated or written before); A-json (encoding/json is not re-implemented: "
    "the two decoders' readings of a record are computed by the real package)",
]

def scen(*gens, q=120, t=1500):
    return [("corpus", 0, 0)] + [("scen:" + g, q, t) for g in gens]

PROPS = {
    "C01": {
        "theorems": ["NLE.Theorems.C01"],
        "models": ["Own"],
        "modes": scen("takeover", "takeoverstop", "tamper", "faults", "healthrace", "acklosttakeover", "stoppoints", "restart", "vacancy"),
        "level": "proof",
        "claim": "Theorems over every execution of the ownership model (any number of instances/groups, any interleaving of issue/application/answer of store operations, faults, lost acknowledgements, outside writers, expiry, stops): every successful create/update by an instance is a creation on a vacant key, a same-owner same-token refresh against exactly the replaced revision, or a takeover by a takeover-enabled instance of strictly higher priority; always on its own group's key. Proved by an inductive invariant (own-write pairs, revision uniqueness of the ghost history). The deletion clause is false of the code (known finding F10): proved counterexample execution + replay. Model tied to the code by trace acceptance and monitors on every run.",
        "design_ref": "§6 C01",
        "rule": "scenarios from the generators takeover / takeoverstop / tamper / faults / healthrace / acklosttakeover / stoppoints / vacancy plus the regression corpus; every trace is checked for acceptance by the model and by the C01 monitor; distinct non-trivial = (scenario, trigger) pairs in which a create / refresh / takeover / delete was actually applied",
        "trusted_base": SCEN_TB,
        "assumptions": ["A-uuid", "the reference store's semantics for Create/Update/Delete/expiry (C14)", "one goroutine runs until it blocks (segment granularity)"],
    },
    "C05": {
        "theorems": ["NLE.Theorems.C05"],
        "models": ["Own"],
        "modes": scen("takeover", "acklosttakeover", "faults", "tamper", "vacancy"),
        "level": "proof",
        "claim": "Theorems over every execution of the ownership model: the token of every acquiring write (create, takeover) occurs in no earlier version of any record (freshness invariant over the ghost history, with A-uuid as a guard of the model); every refresh republishes the token and identity of the version it replaces; a claiming instance's token is the token of a record it wrote itself at the revision its heartbeat presents.",
        "design_ref": "§6 C05",
        "rule": "scenarios with many terms per instance (re-election after demotion, preemption, lost acknowledgements, outside writers); distinct non-trivial = (scenario, trigger) pairs with a term start or an acquiring write",
        "trusted_base": SCEN_TB,
        "assumptions": ["A-uuid (built into the model as a guard)"],
    },
    "C10": {
        "theorems": ["NLE.Theorems.C10"],
        "models": ["Own"],
        "modes": scen("takeover", "takeoverstop", "tamper", "stoppoints"),
        "level": "proof",
        "claim": "Safety proved for every execution of the ownership model and every assignment of priorities and flags: a record written by somebody else is replaced only by an instance with takeover enabled and a priority strictly greater than the stored one; with takeover disabled never. Promptness proved in the timed model NLE/Model/Prompt.lean of the watcher mechanism (incumbent's refresh cadence H-L..H+L, every refresh notified within W, the second notification of a known owner starts a takeover attempt of at most 3L, the attempt succeeds unless a refresh lands inside it): with W + 4L < H an attempt started by a notification is never spoilt (derived invariant) and the follower leads within 2(H+L) + W + 3L of becoming eligible, which is below 3H for latencies and delays up to H/10 (takeover_within_bound, within_three_intervals; tight example). Partial: the Prompt model's assumptions about the watcher are validated end-to-end by the monitor C10/takeover-not-prompt on every fault-free takeover scenario, not tied to the code by an acceptor; 'leadership then stays with the highest-priority instance' is validated (C07 monitor in takeover scenarios).",
        "design_ref": "§6 C10",
        "rule": "2-5 instances with priorities 0..3 and mixed takeover flags, random start orders, slow readers, stops between the Get and the Update of a takeover; distinct non-trivial = (scenario, trigger) pairs with an applied takeover",
        "trusted_base": SCEN_TB,
        "assumptions": ["Prompt model: refresh cadence of the incumbent and notification delay bound (promised by the generator)", "W + 4L < H for the promptness bound"],
    },
    "C03": {
        "theorems": ["NLE.Theorems.C03", "NLE.Theorems.C15"],
        "models": ["HB"],
        "modes": scen("faults", "slowhb", "tamper", "takeover", "vacancy", "conn"),
        "level": "proof",
        "claim": "Theorems about the heartbeat loop's decision logic and schedule (constants, time-out rule and error classification regenerated from the source): a refused refresh (wrong last sequence / key not found) is permanent and demotes at the completion of that attempt, at most H+2T after the change; transient failures and time-outs demote at exactly the third in a row, whose completion is at most 3·max(T,H)+T after the start of the last successful refresh, hence within the documented 3H+3T whenever T <= 3H. For H < 333 ms the documented bound is false of code and model (known finding F25: proved counterexample schedule + replay). The schedule assumptions (attempt k+1 is issued at the next tick or immediately after an overrunning attempt; time-out T) and every decision are checked against every trace by the acceptor HB.step.",
        "design_ref": "§6 C03",
        "rule": "fault from attempt k on (immediate error, hang until time-out, acknowledgement lost, partition, crash), record replaced/deleted/expired underneath, (H,TTL) incl. H < 333 ms with slow refreshes; distinct non-trivial = (scenario, trigger) pairs with a refused refresh, a failed attempt or a third failure",
        "trusted_base": [t.replace("NLE/Model/Own.lean", "NLE/Model/HB.lean") for t in SCEN_TB],
        "assumptions": ["no health checker or healthy checks (a health check delays the refresh by up to 100 ms)", "T <= 3H for the documented bound of clause (b)"],
    },
    "C12": {
        "theorems": ["NLE.Theorems.C12"],
        "models": ["HB", "Life"],
        "modes": scen("health", "healthrace"),
        "level": "proof",
        "claim": "Theorem: for every threshold m >= 1 (0 means the regenerated default 3) and every sequence of health results of a term, the loop demotes at tick n iff n is the first tick at which the last m results are all unhealthy (never after fewer; a healthy result restarts the count), proved via the loop's counter = number of trailing unhealthy results. Each term starts with count 0 and every check gets a context that expires within the regenerated 100 ms: both checked on every trace by the acceptor HB.step (a demotion the model decides must show as a cleared flag at that instant, a check deadline above the limit is rejected).",
        "design_ref": "§6 C12",
        "rule": "scripted HealthChecker: random sequences of healthy / unhealthy / slow results with runs around the threshold, thresholds 0..5, several terms per instance (demotion, expiry, re-election), second instance competing; distinct non-trivial = (scenario, trigger) pairs with health results or a health demotion",
        "trusted_base": [t.replace("NLE/Model/Own.lean", "NLE/Model/HB.lean") for t in SCEN_TB],
        "assumptions": ["the checker returns within its deadline"],
    },
    "C04": {
        "theorems": ["NLE.Theorems.C04"],
        "models": ["Val", "Life"],
        "modes": scen("tamper", "takeover", "faults", "conn", "vacancy"),
        "level": "proof",
        "claim": "Table theorems over every reading of the record (all JSON shapes as seen by the map decoder), every store answer and every context state: the verdict is true iff the instance leads at the call, its token is non-empty, the context is not done, and the read returned a JSON object whose string token equals the caller's token and whose string id equals the caller's id; every other situation gives false; ValidateTokenOrDemote returns the same verdict and enters the demotion path exactly when it is false and the instance still leads. Tie: the acceptor ValAcc follows every API call in every trace (flag and token at the call, the read it issues, answer vs deadline) and requires the returned verdict to be the model's; the read's value is what the store held at its application inside the call interval (store correspondence); the demotion and its callback are checked by the Life model and the C04 monitors.",
        "design_ref": "§6 C04",
        "rule": "record contents from a table of JSON shapes (non-JSON, arrays, scalars, wrong types, missing/duplicate/case-variant keys, forged ids/tokens, 64 KiB values), outside writes/deletes and takeovers racing with ValidateToken / ValidateTokenOrDemote calls with and without deadlines; distinct non-trivial = (scenario, trigger) pairs with a validate call",
        "trusted_base": [t.replace("NLE/Model/Own.lean", "NLE/Model/ValAcc.lean and NLE/Model/Validate.lean") for t in SCEN_TB],
        "assumptions": ["A-json: the map decoder's reading of the bytes is computed by the real encoding/json", "a deadline that coincides with the answer may go either way (Go select)"],
    },
    "C11": {
        "theorems": ["NLE.Theorems.C11"],
        "models": ["Conn", "Life", "Val"],
        "modes": scen("conn", q=200, t=3000),
        "level": "proof",
        "claim": "Theorems about the connection model with regenerated constants: the grace period is the configured value or max(3H, 5 s); a disconnect received while leading arms the timer for exactly now+G and after any run of such notifications it is due G after the latest; a reconnect cancels it and starts the verification after 100 ms; when the timer fires the mechanism demotes iff the instance still leads (never before the deadline); the verification's verdict is positive iff the read shows the instance's id and token (via C04). Tie: the acceptor Conn.step requires every demotion the model decides to show as a cleared flag at that very instant and follows the verification read by read; the C11 monitors check 'no demotion outside the grace expiry' in notification-only scenarios. Deadlock/crash freedom: harness watchdog + lock-order facts (C20), not proved.",
        "design_ref": "§6 C11",
        "rule": "sequences of up to 5 disconnect/reconnect/closed notifications with gaps on a lattice around G, G/2, 100 ms, 2 s (never exactly on a timer), optionally an outside write, a partition or a stop during the outage; all valid grace periods incl. default; distinct non-trivial = (scenario, trigger) pairs with a disconnect/reconnect while leading or a grace demotion",
        "trusted_base": [t.replace("NLE/Model/Own.lean", "NLE/Model/Conn.lean") for t in SCEN_TB],
        "assumptions": ["notifications are delivered by invoking the handlers the monitor registered on an unconnected *nats.Conn", "a disconnect received while not leading does not re-arm a pending timer (as the code does; noted F24)"],
    },
    "C08": {
        "theorems": ["NLE.Theorems.C08"],
        "models": ["Life"],
        "modes": scen("basic", "faults", "health", "conn", "stoppoints", "restart", "lease", "stoptimeout", "takeover", "tamper") + [("stress", 3000, 20000)],
        "level": "proof",
        "claim": "Theorems over every execution of the lifecycle model (NLE/Model/Life.lean): inductive invariant 'promotions started or owed = demotions started or owed + [flag raised]' with at most one demotion owed; a promotion callback starts only when the counts are level and with the token of its term, a demotion callback only when promotions lead by one (strict alternation starting with a promotion); at every quiescent point outside a stop call the instance reports leadership exactly when promotions outnumber demotions by one. Dispatch order is proved; start order of the asynchronous promotion callback relative to a same-instant demotion is an assumption of the model that holds under the harness's deterministic scheduling (partial).",
        "design_ref": "§6 C08",
        "rule": "all demotion causes (heartbeat failure, validation failure, health, connection loss, observed preemption, Stop, StopWithContext incl. time-outs), several firing together; distinct non-trivial = (scenario, trigger) pairs with a demotion not caused by a stop or a term start",
        "trusted_base": [t.replace("NLE/Model/Own.lean", "NLE/Model/Life.lean") for t in SCEN_TB],
        "assumptions": ["the promotion callback goroutine starts before a later demotion callback of the same term (holds under GOMAXPROCS=1 in the harness)"],
    },
    "C09": {
        "theorems": ["NLE.Theorems.C09"],
        "models": ["Life", "Own"],
        "modes": scen("stoppoints", "restart", "stoptimeout", "basic", "conn", "takeoverstop", "faults", "lease"),
        "level": "proof",
        "claim": "Proved over the lifecycle model: once a stop call has begun and until the next Start no event raises the flag, begins a promotion or dispatches a promotion callback, and after the call's critical section the instance is STOPPED and not leader. Validated on every trace (monitors, harness watchdog), not proved: no store operation after the stop returned, return within 5 s / the time-out, no panic or deadlock, no goroutine left once in-flight operations return, record gone with DeleteKey when the instance owned it at the call (partial). Stop points are enumerated by triggers at issue / application / answer of each store operation of the stopping instance.",
        "design_ref": "§6 C09",
        "rule": "stop calls (Stop, StopWithContext with all option combinations, repeated stops, stop-then-start) fired at exact phases (issue, application, answer, +/- delays) of the n-th store operation of the stopping instance, plus time-outs with blocked callbacks; distinct non-trivial = (scenario, trigger) pairs",
        "trusted_base": [t.replace("NLE/Model/Own.lean", "NLE/Model/Life.lean and NLE/Model/Own.lean") for t in SCEN_TB],
        "assumptions": ["timing and clean-up clauses validated, not proved"],
    },
    "C18": {
        "theorems": ["NLE.Theorems.C18"],
        "models": ["Life", "Own"],
        "modes": scen("basic", "takeover", "tamper", "vacancy", "faults", "stoppoints"),
        "level": "proof",
        "claim": "Proved over the lifecycle model: every status snapshot the model accepts is self-consistent (IsLeader iff State=LEADER, documented states, gauge = flag), shows STOPPED/not leader after a stop until the next Start, and transitions form a chain from CANDIDATE. A leader's token being its own record's token is proved in the ownership model (C05). Validated by monitors on every trace: leader's LeaderID/revision, follower's LeaderID convergence within one periodic check (partial).",
        "design_ref": "§6 C18",
        "rule": "Status() sampled by the harness at every quiescent point (after every step and periodically) of every scenario; distinct non-trivial = (scenario, trigger) pairs",
        "trusted_base": [t.replace("NLE/Model/Own.lean", "NLE/Model/Life.lean and NLE/Model/Own.lean") for t in SCEN_TB],
        "assumptions": ["synctest.Wait gives quiescent points"],
    },
    "C19": {
        "theorems": ["NLE.Theorems.C19"],
        "models": ["Life"],
        "modes": scen("health", "faults", "stoppoints", "stoptimeout", "conn", "takeover"),
        "level": "proof",
        "claim": "Proved over the lifecycle model: a promotion context is cancelled only after its term ended or its callback returned; a context whose term is not over belongs to the term in progress; clearing the flag (any demotion cause, or a stop) ends the term of every context; at every quiescent point the contexts of ended terms are cancelled. 'Promptly' = by the next quiescent point on the implementation.",
        "design_ref": "§6 C19",
        "rule": "promotion callbacks that block on their context / return at once / ignore it, under every cause of term end; distinct non-trivial = (scenario, trigger) pairs with a term start",
        "trusted_base": [t.replace("NLE/Model/Own.lean", "NLE/Model/Life.lean") for t in SCEN_TB],
        "assumptions": ["context cancellation observed at quiescent points"],
    },
    "C20": {
        "theorems": ["NLE.Theorems.C20"],
        "models": [],
        "modes": [("race", 6000, 30000)],
        "level": "proof",
        "claim": "Lock discipline proved on a table of every syntactic access to the shared state of kvElection / disconnectHandler / natsConnectionMonitor, regenerated from the source on every run (must-hold lockset analysis per function, entry locksets propagated over the call graph to a fixpoint, goroutine and callback bodies starting with nothing held): every write of a mutable field holds its struct's mutex exclusively and every read holds it at least shared (no exception on the current tree). The discipline implies ordering: for every execution of a reader/writer mutex two accesses by different goroutines that both hold it, one exclusively, are separated by a release of the first and an acquisition by the second (LockSem.conflicting_accesses_ordered, by induction over the trace). Fields of sync/atomic types and fields immutable after construction need no lock. Partial: memory outside these three structs (logger, metrics, store objects, callbacks supplied by the user) is outside the table; lock order across the two mutexes is not a theorem. Search: a concurrent driver of the whole public API (lifecycle incl. concurrent stops, stop calls that give up at once and restarts, readers, validators, callback registration, connection notifications, outside writer, transient and slow store operations) under the Go race detector; every report whose two accesses are made by library code is a violation with the report as replay.",
        "design_ref": "§6 C20",
        "rule": "race mode: 6 (quick) / 12 (thorough) processes x 3 elections each, real time, H in {20,40,100} ms, for 6 s / 3 x 30 s; distinct = API calls made; non-trivial = rounds in which terms were won and lost",
        "trusted_base": COMMON_TB + ["the lockset analysis of /verif/extract/locks.go (syntactic; struct types resolved by field declarations; a deferred closure is assumed to hold nothing)", "the Go race detector (search only)"],
        "assumptions": ["the mutexes are only ever used through Lock/Unlock/RLock/RUnlock on the struct's field mu", "sync.Mutex / sync.RWMutex provide the release-acquire edges of the Go memory model"],
    },
    "C17": {
        "theorems": ["NLE.Theorems.C17", "NLE.Theorems.C17Round"],
        "modes": [("bo", 3000, 40000), ("retry", 1500, 20000), ("brk", 1500, 20000)],
        "level": "proof",
        "claim": "Theorems: CalculateBackoff (exact rational model) lies within ±Jitter of min(Max, Init×Mult^n) and is never negative for every attempt number and draw (well-formed configs); RetryWithBackoff model: at most MaxAttempts invocations, none at/after cancellation, none after success/permanent error/breaker refusal, waits = drawn backoffs; CircuitBreaker: opens at exactly the threshold, never invokes while open within the cooldown, closes on success; election round: jitter in [10 ms,100 ms], at most four attempts, separated by the default backoff (constants regenerated from the source). Go float64 evaluation is compared with the proved envelope (slack 2 ns + 1e-9 relative), the loop and the breaker are compared exactly under virtual time.",
        "design_ref": "§6 C17",
        "rule": "backoff: configurations from a lattice of initial/max/multiplier/jitter values × attempt numbers up to 4000 (16 draws of the real function each); "
                "retry: random outcome scripts, MaxAttempts 0..5, cancellation instants, optional breaker, run under testing/synctest; breaker: random call/outcome timelines around the cooldown; "
                "distinct = distinct request lines; non-trivial = well-formed config (backoff), more than one invocation (retry), at least one refusal (breaker)",
        "trusted_base": COMMON_TB + ["modelled, not verified: IEEE-754 arithmetic and math.Pow (compared within a stated slack, never proved); math/rand/v2 as an arbitrary value in [0,1); testing/synctest virtual time as the meaning of time"],
        "assumptions": ["BackoffConfig well-formed (non-negative durations and multiplier, 0 <= Jitter <= 1); MaxAttempts >= 0; failureThreshold >= 1"],
    },
    "C15": {
        "theorems": ["NLE.Theorems.C15"],
        "modes": [("cls", 4000, 60000), ("lower", 0, 0), ("nats", 4, 4)],
        "level": "proof",
        "claim": "Theorems over an inductive algebra of error values (arbitrary texts, arbitrary %w nesting, the library's error types, nats.go API errors) for the classifier step lists regenerated from leader/error.go on every run: exclusive, total, nil-neither, ctx/timeout transient at any depth, config/permission/bucket permanent, nats conflict errors permanent for every sequence number, nats transport errors transient. The interpreter and the Error()/errors.Is model are compared with the real Go functions on generated error values (text included) on every run.",
        "design_ref": "§6 C15",
        "rule": "error values generated from the library's sentinels/types, context errors, nats.go exported errors and API errors, "
                "random texts built from both pattern tables (case variants, U+212A/U+0130), nested up to depth 5; "
                "distinct = distinct error expressions; each is non-trivial (non-nil, classified by both the Go functions and the model)",
        "trusted_base": COMMON_TB + ["modelled, not verified: Error() text and errors.Is/As of the error algebra (compared with Go on every generated value, text included); strings.ToLower reduced to its ASCII-relevant part (table compared with unicode.ToLower on all code points)"],
        "assumptions": ["fmt.Errorf with a single %w; errors.Is/As as documented by the Go standard library"],
    },
    "C16": {
        "theorems": ["NLE.Theorems.C16"],
        "modes": [("cfg", 6000, 0)],
        "level": "proof",
        "claim": "Theorem: for every configuration with |HeartbeatInterval| <= 2^61 ns, the rule list regenerated from validateConfig on every run accepts exactly the documented configurations and names an offending field otherwise; constructor validates before contacting the store (AST fact). Interpreter compared with NewElection on the boundary lattice on every run.",
        "design_ref": "§6 C16",
        "rule": "configurations on the boundary lattice of every rule (each duration at, 1 ns below/above each threshold, 0, negative, up to a year; "
                "empty/non-empty strings; priorities/thresholds around 0); thorough tier enumerates the full lattice; distinct = distinct configurations, "
                "all non-trivial (each is run through NewElection and through the model)",
        "trusted_base": COMMON_TB + ["modelled, not verified: Go int64 arithmetic as wrap64; theorem restricted to |HeartbeatInterval| <= 2^61 ns (InRange)"],
        "assumptions": ["durations within InRange (|H| <= 2^61 ns, about 73 years)"],
    },
}
NOT_APPLICABLE = {}
