"""Per-property configuration of bin/check."""

COMMON_TB = [
    "Lean 4.33.0 kernel (theorems checked by `lake build`; thorough tier re-checks the .olean files with leanchecker)",
    "/verif/extract (go/ast translator that regenerates NLE/Gen/*.lean from /repo's working tree on every run)",
    "/verif/harness correspondence check (runs the real leader package and the model's executable definitions on the same inputs)",
]

PROPS = {
    "C17": {
        "theorems": ["NLE.Theorems.C17", "NLE.Theorems.C17Round"],
        "modes": [("bo", 3000, 40000), ("retry", 1500, 20000), ("brk", 1500, 20000)],
        "level": "proof",
        "claim": "Theorems: CalculateBackoff (exact rational model) lies within ±Jitter of min(Max, Init×Mult^n) and is never negative for every attempt number and draw (well-formed configs); RetryWithBackoff model: at most MaxAttempts invocations, none at/after cancellation, none after success/permanent error/breaker refusal, waits = drawn backoffs; CircuitBreaker: opens at exactly the threshold, never invokes while open within the cooldown, closes on success; election round: jitter in [10 ms,100 ms], at most four attempts, separated by the default backoff (constants regenerated from the source). Go float64 evaluation is compared with the proved envelope (slack 2 ns + 1e-9 relative), the loop and the breaker are compared exactly under virtual time.",
        "design_ref": "§6 C17",
        "rule": "backoff: configurations from a lattice of initial/max/multiplier/jitter values × attempt numbers up to 4000 (16 draws of the real function each); "
                "retry: random outcome scripts, MaxAttempts 0..5, cancellation instants, optional breaker, run under testing/synctest; breaker: random call/outcome timelines around the cooldown; "
                "distinct = distinct request lines; non-trivial = well-formed config (backoff), more than one invocation (retry), at least one refusal (breaker)",
        "trusted_base": COMMON_TB + ["modelled, not verified: IEEE-754 arithmetic and math.Pow (compared within a stated slack, never proved); math/rand/v2 as an arbitrary value in [0,1); testing/synctest virtual time as the meaning of time"],
        "assumptions": ["BackoffConfig well-formed (non-negative durations and multiplier, 0 <= Jitter <= 1); MaxAttempts >= 0; failureThreshold >= 1"],
    },
    "C15": {
        "theorems": ["NLE.Theorems.C15"],
        "modes": [("cls", 4000, 60000), ("lower", 0, 0)],
        "level": "proof",
        "claim": "Theorems over an inductive algebra of error values (arbitrary texts, arbitrary %w nesting, the library's error types, nats.go API errors) for the classifier step lists regenerated from leader/error.go on every run: exclusive, total, nil-neither, ctx/timeout transient at any depth, config/permission/bucket permanent, nats conflict errors permanent for every sequence number, nats transport errors transient. The interpreter and the Error()/errors.Is model are compared with the real Go functions on generated error values (text included) on every run.",
        "design_ref": "§6 C15",
        "rule": "error values generated from the library's sentinels/types, context errors, nats.go exported errors and API errors, "
                "random texts built from both pattern tables (case variants, U+212A/U+0130), nested up to depth 5; "
                "distinct = distinct error expressions; each is non-trivial (non-nil, classified by both the Go functions and the model)",
        "trusted_base": COMMON_TB + ["modelled, not verified: Error() text and errors.Is/As of the error algebra (compared with Go on every generated value, text included); strings.ToLower reduced to its ASCII-relevant part (table compared with unicode.ToLower on all code points)"],
        "assumptions": ["fmt.Errorf with a single %w; errors.Is/As as documented by the Go standard library"],
    },
    "C16": {
        "theorems": ["NLE.Theorems.C16"],
        "modes": [("cfg", 6000, 0)],
        "level": "proof",
        "claim": "Theorem: for every configuration with |HeartbeatInterval| <= 2^61 ns, the rule list regenerated from validateConfig on every run accepts exactly the documented configurations and names an offending field otherwise; constructor validates before contacting the store (AST fact). Interpreter compared with NewElection on the boundary lattice on every run.",
        "design_ref": "§6 C16",
        "rule": "configurations on the boundary lattice of every rule (each duration at, 1 ns below/above each threshold, 0, negative, up to a year; "
                "empty/non-empty strings; priorities/thresholds around 0); thorough tier enumerates the full lattice; distinct = distinct configurations, "
                "all non-trivial (each is run through NewElection and through the model)",
        "trusted_base": COMMON_TB + ["modelled, not verified: Go int64 arithmetic as wrap64; theorem restricted to |HeartbeatInterval| <= 2^61 ns (InRange)"],
        "assumptions": ["durations within InRange (|H| <= 2^61 ns, about 73 years)"],
    },
}
NOT_APPLICABLE = {}
