"""Per-property configuration of bin/check."""

COMMON_TB = [
    "Lean 4.33.0 kernel (theorems checked by `lake build`; thorough tier re-checks the .olean files with leanchecker)",
    "/verif/extract (go/ast translator that regenerates NLE/Gen/*.lean from /repo's working tree on every run)",
    "/verif/harness correspondence check (runs the real leader package and the model's executable definitions on the same inputs)",
]

PROPS = {
    "C15": {
        "theorems": ["NLE.Theorems.C15"],
        "modes": [("cls", 4000, 60000), ("lower", 0, 0)],
        "level": "proof",
        "rule": "error values generated from the library's sentinels/types, context errors, nats.go exported errors and API errors, "
                "random texts built from both pattern tables (case variants, U+212A/U+0130), nested up to depth 5; "
                "distinct = distinct error expressions; each is non-trivial (non-nil, classified by both the Go functions and the model)",
        "trusted_base": COMMON_TB + ["modelled, not verified: Error() text and errors.Is/As of the error algebra (compared with Go on every generated value, text included); strings.ToLower reduced to its ASCII-relevant part (table compared with unicode.ToLower on all code points)"],
        "assumptions": ["fmt.Errorf with a single %w; errors.Is/As as documented by the Go standard library"],
    },
    "C16": {
        "theorems": ["NLE.Theorems.C16"],
        "modes": [("cfg", 6000, 0)],
        "level": "proof",
        "rule": "configurations on the boundary lattice of every rule (each duration at, 1 ns below/above each threshold, 0, negative, up to a year; "
                "empty/non-empty strings; priorities/thresholds around 0); thorough tier enumerates the full lattice; distinct = distinct configurations, "
                "all non-trivial (each is run through NewElection and through the model)",
        "trusted_base": COMMON_TB + ["modelled, not verified: Go int64 arithmetic as wrap64; theorem restricted to |HeartbeatInterval| <= 2^61 ns (InRange)"],
        "assumptions": ["durations within InRange (|H| <= 2^61 ns, about 73 years)"],
    },
}
