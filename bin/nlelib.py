"""Shared plumbing for /verif/bin/check and /verif/bin/setup (python3, stdlib only)."""
import fcntl, hashlib, json, os, re, shutil, subprocess, sys, time

VERIF = os.path.dirname(os.path.dirname(os.path.abspath(__file__)))
REPO = os.environ.get("NLE_REPO", "/repo")
LEAN = os.path.join(VERIF, "lean")
GEN = os.path.join(LEAN, "NLE", "Gen")
BUILD = os.path.join(VERIF, ".build")
OUT = os.path.join(VERIF, ".build", "out")
REPLAYS = os.path.join(VERIF, "replays")
EXTRACT_BIN = os.path.join(BUILD, "nleextract")
HARNESS_BIN = os.path.join(BUILD, "nleharness.test")
DRIVER_BIN = os.path.join(LEAN, ".lake", "build", "bin", "nledriver")
ALLOWED_AXIOMS = {"propext", "Classical.choice", "Quot.sound"}
FORBIDDEN = re.compile(r"\b(sorry|admit|native_decide|bv_decide|implemented_by|unsafe)\b|^\s*axiom\s|maxHeartbeats\s+0\b")


def goenv(extra=None):
    env = dict(os.environ)
    env.update({"GOFLAGS": "-mod=mod", "GOPROXY": "off", "CGO_ENABLED": env.get("CGO_ENABLED", "1")})
    env.pop("GOSUMDB", None)  # GOSUMDB=off prevents the switch to the cached go1.25.4 toolchain
    if extra:
        env.update(extra)
    return env


class Lock:
    def __enter__(self):
        os.makedirs(BUILD, exist_ok=True)
        self.f = open(os.path.join(VERIF, ".lock"), "w")
        fcntl.flock(self.f, fcntl.LOCK_EX)
        return self

    def __exit__(self, *a):
        fcntl.flock(self.f, fcntl.LOCK_UN)
        self.f.close()


def run(cmd, cwd=None, env=None, timeout=None, input=None):
    p = subprocess.run(cmd, cwd=cwd, env=env, stdout=subprocess.PIPE, stderr=subprocess.STDOUT,
                       timeout=timeout, input=input, text=True)
    return p.returncode, p.stdout


def build_extractor():
    src = os.path.join(VERIF, "extract")
    newest = max(os.path.getmtime(os.path.join(src, f)) for f in os.listdir(src))
    if os.path.exists(EXTRACT_BIN) and os.path.getmtime(EXTRACT_BIN) >= newest:
        return 0, ""
    env = goenv({"GOTOOLCHAIN": "local"})
    return run(["go", "build", "-o", EXTRACT_BIN, "."], cwd=src, env=env)


def extract():
    """Regenerate NLE/Gen from the working tree.  Returns (ok, message)."""
    rc, out = build_extractor()
    if rc != 0:
        return False, "extractor build failed:\n" + out
    tmp = os.path.join(BUILD, "gen.tmp")
    shutil.rmtree(tmp, ignore_errors=True)
    os.makedirs(tmp)
    rc, out = run([EXTRACT_BIN, REPO, tmp])
    if rc != 0:
        return False, out.strip()
    os.makedirs(GEN, exist_ok=True)
    new = set(os.listdir(tmp))
    for f in os.listdir(GEN):
        if f not in new:
            os.remove(os.path.join(GEN, f))
    for f in new:
        a, b = os.path.join(tmp, f), os.path.join(GEN, f)
        if not os.path.exists(b) or open(a).read() != open(b).read():
            shutil.copyfile(a, b)
    shutil.rmtree(tmp, ignore_errors=True)
    return True, out.strip()


def theorem_names(module):
    """(name, line) of every theorem/lemma declared in a theorem module, with its namespace."""
    path = os.path.join(LEAN, *module.split(".")) + ".lean"
    ns, names = [], []
    for i, line in enumerate(open(path), 1):
        m = re.match(r"\s*namespace\s+(\S+)", line)
        if m:
            ns.append(m.group(1))
        m = re.match(r"\s*end\s+(\S+)", line)
        if m and ns and ns[-1] == m.group(1):
            ns.pop()
        m = re.match(r"\s*(?:private\s+|protected\s+)?(theorem|lemma)\s+([^\s:({\[]+)", line)
        if m:
            names.append((".".join(ns + [m.group(2)]), i))
    return path, names


def lake_build(targets, clean=False):
    if clean:
        run(["lake", "clean"], cwd=LEAN)
    return run(["lake", "build"] + targets, cwd=LEAN, timeout=3600)


def failing_theorems(modules, output):
    """Map `error: NLE/Theorems/X.lean:LINE` to the enclosing theorem names."""
    failed = []
    for module in modules:
        path, names = theorem_names(module)
        rel = os.path.relpath(path, LEAN)
        for m in re.finditer(re.escape(rel) + r":(\d+):\d+", output):
            ln = int(m.group(1))
            owner = None
            for name, l in names:
                if l <= ln:
                    owner = name
            failed.append(owner or f"{rel}:{ln}")
    seen, res = set(), []
    for f in failed:
        if f not in seen:
            seen.add(f)
            res.append(f)
    return res


def audit_axioms(modules):
    """#print axioms for every theorem of the modules.  Returns (ok, {thm: [axioms]}, raw)."""
    lines = []
    allnames = []
    for module in modules:
        lines.append(f"import {module}")
    for module in modules:
        _, names = theorem_names(module)
        for name, _ in names:
            allnames.append(name)
            lines.append(f"#print axioms {name}")
    src = os.path.join(BUILD, "Audit_%d.lean" % os.getpid())
    open(src, "w").write("\n".join(lines) + "\n")
    rc, out = run(["lake", "env", "lean", src], cwd=LEAN, timeout=1800)
    os.remove(src)
    res = {}
    for m in re.finditer(r"'([^']+)' depends on axioms: \[([^\]]*)\]", out):
        res[m.group(1)] = [a.strip() for a in m.group(2).replace("\n", " ").split(",") if a.strip()]
    for m in re.finditer(r"'([^']+)' does not depend on any axioms", out):
        res[m.group(1)] = []
    ok = rc == 0 and all(n in res for n in allnames) and all(set(v) <= ALLOWED_AXIOMS for v in res.values())
    return ok, res, out


def forbidden_tokens():
    hits = []
    for root, _, files in os.walk(os.path.join(LEAN, "NLE")):
        for f in files:
            if not f.endswith(".lean"):
                continue
            p = os.path.join(root, f)
            incomment = 0
            for i, line in enumerate(open(p), 1):
                code = line
                # strip block comments (coarse) and line comments
                out, j = "", 0
                while j < len(code):
                    if code.startswith("/-", j):
                        incomment += 1; j += 2; continue
                    if code.startswith("-/", j) and incomment:
                        incomment -= 1; j += 2; continue
                    if not incomment:
                        if code.startswith("--", j):
                            break
                        out += code[j]
                    j += 1
                if FORBIDDEN.search(out):
                    hits.append(f"{os.path.relpath(p, LEAN)}:{i}: {line.strip()}")
    for p in [os.path.join(LEAN, "Main.lean")]:
        for i, line in enumerate(open(p), 1):
            if FORBIDDEN.search(line.split("--")[0]):
                hits.append(f"Main.lean:{i}: {line.strip()}")
    return hits


def build_harness():
    src = os.path.join(VERIF, "harness")
    # -checklinkname=0: harness/randctl.go replaces the source of math/rand/v2's global generator (replayable jitter)
    return run(["go", "test", "-c", "-tags", "verif", "-ldflags=-checklinkname=0", "-o", HARNESS_BIN, "."], cwd=src, env=goenv(), timeout=1800)


RACE_BIN = os.path.join(os.path.dirname(HARNESS_BIN), "nleharness.race.test")


def build_harness_race():
    src = os.path.join(VERIF, "harness")
    return run(["go", "test", "-c", "-race", "-tags", "verif", "-ldflags=-checklinkname=0", "-o", RACE_BIN, "."], cwd=src, env=goenv(), timeout=1800)


def run_race(seed, ms, tier, outdir, procs):
    """Run the concurrent API driver under the race detector in `procs` processes (seeds seed*100+k) and return
    (reports-json-list, races) where races are the normalised reports of bin/racereport."""
    import subprocess as sp
    os.makedirs(outdir, exist_ok=True)
    ps = []
    for k in range(procs):
        d = os.path.join(outdir, f"race{k}")
        os.makedirs(d, exist_ok=True)
        env = goenv({"NLE_MODE": "race", "NLE_SEED": str(seed * 100 + k), "NLE_N": str(ms), "NLE_TIER": tier, "NLE_OUT": d,
                     "GORACE": f"log_path={d}/r halt_on_error=0 history_size=5"})
        ps.append((d, sp.Popen([RACE_BIN, "-test.run", "^TestNLE$", "-test.timeout", "0"], cwd=os.path.join(VERIF, "harness"), env=env,
                               stdout=sp.PIPE, stderr=sp.STDOUT, text=True)))
    reports, races, outs = [], [], []
    for d, pr in ps:
        try:
            out, _ = pr.communicate(timeout=ms / 1000 * 6 + 600)
        except sp.TimeoutExpired:
            pr.kill(); out = "race run timed out"
        outs.append(out)
        rp = os.path.join(d, "race.json")
        if os.path.exists(rp):
            reports.append(json.load(open(rp)))
        rc, txt = run([os.path.join(VERIF, "bin", "racereport"), d], timeout=300)
        for line in txt.splitlines():
            line = line.strip()
            if line.startswith("{"):
                races.append(json.loads(line))
    return reports, races, outs


def run_harness(modes, seed, n, tier, outdir, extra_env=None, timeout=3600, race=False):
    os.makedirs(outdir, exist_ok=True)
    env = goenv({"NLE_MODE": ",".join(modes), "NLE_SEED": str(seed), "NLE_N": str(n), "NLE_TIER": tier,
                 "NLE_OUT": outdir, "NLE_DRIVER": DRIVER_BIN, "NLE_REPO": REPO,
                 "NLE_CORPUS": os.environ.get("NLE_CORPUS", os.path.join(VERIF, "corpus"))})
    if extra_env:
        env.update(extra_env)
    try:
        rc, out = run([HARNESS_BIN, "-test.run", "^TestNLE$", "-test.timeout", "0"], cwd=os.path.join(VERIF, "harness"),
                      env=env, timeout=timeout)
    except subprocess.TimeoutExpired as e:
        return 124, "harness timed out\n" + (e.stdout or "")
    return rc, out


def load_known():
    """known_findings.txt -> list of {property,id,match,what,status}."""
    p = os.path.join(VERIF, "known_findings.txt")
    res = []
    if os.path.exists(p):
        for line in open(p):
            line = line.strip()
            m = re.match(r"known:\s+property=(\S+)\s+id=(\S+)\s+match=/(.*?)/\s+(.*)$", line)
            if m:
                res.append({"property": m.group(1), "id": m.group(2), "match": m.group(3), "what": m.group(4), "status": "open"})
                continue
            m = re.match(r"fixed:\s+property=(\S+)\s+(\S+)\s+(.*)$", line)
            if m:
                res.append({"property": m.group(1), "id": m.group(2), "match": None, "what": m.group(3), "status": "fixed"})
    return res


def sha(s):
    return hashlib.sha1(s.encode()).hexdigest()[:12]
