package harness

import (
	"encoding/json"
	"os"
	"sort"
)

// Report is what one harness mode writes for the orchestrator (bin/check).
type Report struct {
	Mode        string         `json:"mode"`
	Seed        int64          `json:"seed"`
	Cases       int            `json:"cases"`              // inputs / scenarios run
	Nontrivial  int            `json:"distinct_nontrivial"` // distinct cases in which the property's trigger occurred
	Compared    int            `json:"lines_compared"`
	Diffs       []Finding      `json:"correspondence_diffs"` // model and implementation disagree
	Violations  []Finding      `json:"violations"`           // the implementation breaks a clause of the property
	Dist        map[string]int `json:"distribution"`
	Samples     []string       `json:"samples"`
	Notes       []string       `json:"notes,omitempty"`
	distinctSet map[string]bool
	perClause   map[string]int
}

type Finding struct {
	Property string `json:"property"`
	Clause   string `json:"clause"`
	Input    string `json:"input"`
	Impl     string `json:"impl"`
	Model    string `json:"model,omitempty"`
	Detail   string `json:"detail,omitempty"`
}

func newReport(mode string, seed int64) *Report {
	return &Report{Mode: mode, Seed: seed, Dist: map[string]int{}, distinctSet: map[string]bool{}, perClause: map[string]int{}, Diffs: []Finding{}, Violations: []Finding{}, Samples: []string{}}
}

func (r *Report) hit(k string)  { r.Dist[k]++ }
func (r *Report) nontrivial(key string) {
	if !r.distinctSet[key] {
		r.distinctSet[key] = true
		r.Nontrivial++
	}
}
func (r *Report) sample(s string) {
	if len(r.Samples) < 8 {
		r.Samples = append(r.Samples, s)
	}
}
func (r *Report) diff(f Finding) {
	if len(r.Diffs) < 50 {
		r.Diffs = append(r.Diffs, f)
	}
}
func (r *Report) violation(f Finding) {
	// keep a few per (property, clause) so that a noisy clause does not hide the others
	k := "v|" + f.Property + "|" + f.Clause
	if r.Dist == nil {
		r.Dist = map[string]int{}
	}
	r.perClause[k]++
	if r.perClause[k] <= 4 && len(r.Violations) < 200 {
		r.Violations = append(r.Violations, f)
	}
}

func (r *Report) write(path string) error {
	sort.Strings(r.Samples)
	b, err := json.MarshalIndent(r, "", " ")
	if err != nil {
		return err
	}
	return os.WriteFile(path, b, 0o644)
}
