package harness

import (
	"context"
	"encoding/hex"
	"errors"
	"fmt"
	"math/rand"
	"strings"
	"time"
	"unicode"

	"github.com/ali-assar/NATS-Leader-Election/leader"
	"github.com/nats-io/nats.go"
)

func hx(s string) string {
	if s == "" {
		return "-"
	}
	return hex.EncodeToString([]byte(s))
}

// targets the model's `Err.is` knows by name
var isTargets = []struct {
	name string
	err  error
}{
	{"context.Canceled", context.Canceled},
	{"context.DeadlineExceeded", context.DeadlineExceeded},
	{"ErrNotLeader", leader.ErrNotLeader},
	{"ErrAlreadyStarted", leader.ErrAlreadyStarted},
	{"ErrAlreadyStopped", leader.ErrAlreadyStopped},
	{"ErrElectionFailed", leader.ErrElectionFailed},
	{"ErrHeartbeatFailed", leader.ErrHeartbeatFailed},
	{"ErrTokenValidationFailed", leader.ErrTokenValidationFailed},
	{"ErrInvalidConfig", leader.ErrInvalidConfig},
	{"ErrBucketNotFound", leader.ErrBucketNotFound},
	{"ErrPermissionDenied", leader.ErrPermissionDenied},
	{"ErrConnectionLost", leader.ErrConnectionLost},
	{"ErrTokenInvalid", leader.ErrTokenInvalid},
	{"ErrTokenMismatch", leader.ErrTokenMismatch},
	{"nats.ErrKeyExists", nats.ErrKeyExists},
	{"nats.ErrTimeout", nats.ErrTimeout},
	{"nats.ErrNoResponders", nats.ErrNoResponders},
	{"nats.ErrConnectionClosed", nats.ErrConnectionClosed},
	{"nats.ErrKeyNotFound", nats.ErrKeyNotFound},
}

type errExpr struct {
	err  error
	expr string
	tags []string
}

func leafExpr(e error) string {
	var ids []string
	for _, t := range isTargets {
		if errors.Is(e, t.err) {
			ids = append(ids, t.name)
		}
	}
	s := "-"
	if len(ids) > 0 {
		s = strings.Join(ids, ",")
	}
	return fmt.Sprintf("leaf %s %s", hx(e.Error()), s)
}

var clsWords = []string{
	"revision mismatch", "wrong last sequence", "key not found", "permission denied", "bucket not found",
	"access denied", "invalid", "authentication", "timeout", "deadline exceeded", "connection lost",
	"connection refused", "temporary", "unavailable", "network", "i/o timeout", "connection reset",
	"key exists", "boom", "op", "heartbeat update", "", "x", "nats: ", "ΩΩ", "日本",
}

func mutateCase(rng *rand.Rand, s string) string {
	switch rng.Intn(6) {
	case 0:
		return strings.ToUpper(s)
	case 1:
		return strings.Title(s)
	case 2: // Kelvin sign / dotted capital I, which lower-case into ASCII letters
		s = strings.Replace(s, "k", "K", 1)
		return strings.Replace(s, "i", "İ", 1)
	case 3: // break the pattern
		if len(s) > 2 {
			return s[:len(s)/2] + "_" + s[len(s)/2:]
		}
	}
	return s
}

func randText(rng *rand.Rand) string {
	n := rng.Intn(3)
	var parts []string
	for i := 0; i <= n; i++ {
		parts = append(parts, mutateCase(rng, clsWords[rng.Intn(len(clsWords))]))
	}
	return strings.Join(parts, []string{" ", ": ", ""}[rng.Intn(3)])
}

func genErr(rng *rand.Rand, depth int) errExpr {
	if depth <= 0 || rng.Intn(3) == 0 {
		switch rng.Intn(9) {
		case 0:
			t := isTargets[rng.Intn(len(isTargets))]
			return errExpr{t.err, leafExpr(t.err), []string{"leaf:" + t.name}}
		case 1:
			return errExpr{context.Canceled, leafExpr(context.Canceled), []string{"leaf:canceled"}}
		case 2:
			return errExpr{context.DeadlineExceeded, leafExpr(context.DeadlineExceeded), []string{"leaf:deadline"}}
		case 3:
			code := []int{10071, 10071, 10058, 10037, 0}[rng.Intn(5)]
			desc := fmt.Sprintf("wrong last sequence: %d", rng.Intn(1000))
			if rng.Intn(3) == 0 {
				desc = randText(rng)
			}
			e := &nats.APIError{Code: 400, ErrorCode: nats.ErrorCode(code), Description: desc}
			return errExpr{e, fmt.Sprintf("api %d %s", code, hx(desc)), []string{"leaf:api"}}
		case 4:
			d := time.Duration(rng.Int63n(int64(10 * time.Second)))
			op := randText(rng)
			e := leader.NewTimeoutError(op, d, nil)
			return errExpr{e, fmt.Sprintf("to0 %s %s", hx(op), hx(d.String())), []string{"timeout0"}}
		default:
			e := errors.New(randText(rng))
			return errExpr{e, leafExpr(e), []string{"leaf:text"}}
		}
	}
	in := genErr(rng, depth-1)
	tags := append([]string{}, in.tags...)
	if rng.Intn(7) == 0 {
		// two wrapped errors in one value: fmt.Errorf with two %w verbs, or errors.Join - `Unwrap() []error`, which
		// errors.Is / errors.As search branch by branch (and errors.Unwrap does not see at all)
		other := genErr(rng, depth-1)
		a, b := in, other
		if rng.Intn(2) == 0 {
			a, b = other, in
		}
		tags = append(append([]string{}, a.tags...), b.tags...)
		if rng.Intn(3) == 0 {
			e := errors.Join(a.err, b.err)
			return errExpr{e, fmt.Sprintf("wrap2 - %s - %s %s", hx("\n"), a.expr, b.expr), append(tags, "wrap2")}
		}
		pre, mid, post := randText(rng)+": ", ": ", ""
		if strings.Contains(pre, "%") {
			pre = "w: "
		}
		e := fmt.Errorf(pre+"%w"+mid+"%w"+post, a.err, b.err)
		return errExpr{e, fmt.Sprintf("wrap2 %s %s - %s %s", hx(pre), hx(mid), a.expr, b.expr), append(tags, "wrap2")}
	}
	switch rng.Intn(6) {
	case 0, 1:
		pre, post := randText(rng)+": ", ""
		if rng.Intn(3) == 0 {
			post = ": " + randText(rng)
		}
		if strings.Contains(pre, "%") || strings.Contains(post, "%") {
			pre, post = "w: ", ""
		}
		e := fmt.Errorf(pre+"%w"+post, in.err)
		return errExpr{e, fmt.Sprintf("wrap %s %s %s", hx(pre), hx(post), in.expr), append(tags, "wrap")}
	case 2:
		d := time.Duration(rng.Int63n(int64(10 * time.Second)))
		op := randText(rng)
		e := leader.NewTimeoutError(op, d, in.err)
		return errExpr{e, fmt.Sprintf("to1 %s %s %s", hx(op), hx(d.String()), in.expr), append(tags, "timeout1")}
	case 3:
		code, inst, reason := randText(rng), []string{"", "inst-1"}[rng.Intn(2)], randText(rng)
		e := leader.NewElectionError(code, inst, reason, in.err)
		return errExpr{e, fmt.Sprintf("el1 %s %s %s %s", hx(code), hx(inst), hx(reason), in.expr), append(tags, "election1")}
	case 4:
		reason, l, k := randText(rng), []string{"", "tok-a"}[rng.Intn(2)], []string{"", "tok-b"}[rng.Intn(2)]
		e := &leader.TokenValidationError{LocalToken: l, KvToken: k, LeaderID: "me", Reason: reason, Err: in.err}
		return errExpr{e, fmt.Sprintf("tv1 %s %s %s %s", hx(reason), hx(l), hx(k), in.expr), append(tags, "tokval1")}
	default:
		field, reason := "TTL", randText(rng)
		var val interface{}
		vs := "nil"
		switch rng.Intn(3) {
		case 0:
			val = time.Second
			vs = hx("1s")
		case 1:
			val = ""
			vs = "-"
		}
		e := &leader.ValidationError{Field: field, Value: val, Reason: reason, Err: in.err}
		return errExpr{e, fmt.Sprintf("va1 %s %s %s %s", hx(field), vs, hx(reason), in.expr), append(tags, "validation1")}
	}
}

func chainHasCtxOrTimeout(e error) bool {
	var te *leader.TimeoutError
	return errors.Is(e, context.Canceled) || errors.Is(e, context.DeadlineExceeded) || errors.As(e, &te)
}

func clsFixed() []errExpr {
	var out []errExpr
	add := func(e error, expr string, tag string) { out = append(out, errExpr{e, expr, []string{tag}}) }
	for n := 0; n < 5; n++ {
		api := &nats.APIError{Code: 400, ErrorCode: 10071, Description: fmt.Sprintf("wrong last sequence: %d", n*7)}
		add(api, fmt.Sprintf("api 10071 %s", hx(api.Description)), "nats-update-conflict")
		ke := fmt.Errorf("%w: %s", api, "key exists")
		add(ke, fmt.Sprintf("wrap - %s api 10071 %s", hx(": key exists"), hx(api.Description)), "nats-create-exists")
	}
	for _, e := range []error{nats.ErrTimeout, nats.ErrNoResponders, nats.ErrConnectionClosed} {
		add(e, leafExpr(e), "nats-transient")
	}
	add(nats.ErrKeyNotFound, leafExpr(nats.ErrKeyNotFound), "nats-keynotfound")
	add(nats.ErrKeyExists, leafExpr(nats.ErrKeyExists), "nats-keyexists-sentinel")
	add(fmt.Errorf("create: %w", nats.ErrKeyExists), fmt.Sprintf("wrap %s - %s", hx("create: "), leafExpr(nats.ErrKeyExists)), "nats-keyexists-sentinel")
	// the client's permission errors (connection-level authorization, subject permissions, expired / revoked credentials)
	for _, e := range []error{nats.ErrAuthorization, nats.ErrPermissionViolation, nats.ErrAuthExpired, nats.ErrAuthRevoked} {
		add(e, leafExpr(e), "nats-permission")
		add(fmt.Errorf("kv: %w", e), fmt.Sprintf("wrap %s - %s", hx("kv: "), leafExpr(e)), "nats-permission")
	}
	add(nats.ErrBucketNotFound, leafExpr(nats.ErrBucketNotFound), "nats-bucket-not-found")
	w := fmt.Errorf("ctx: %w", leader.NewTimeoutError("op", time.Second, errors.New("key not found")))
	add(w, fmt.Sprintf("wrap %s - to1 %s %s leaf %s -", hx("ctx: "), hx("op"), hx("1s"), hx("key not found")), "wrapped-timeout-with-permanent-text")
	ve := leader.NewValidationError("Bucket", "", "bucket name is required")
	add(ve, fmt.Sprintf("va0 %s - %s", hx("Bucket"), hx("bucket name is required")), "validation0")
	ve2 := leader.NewValidationError("TTL", nil, "")
	add(ve2, fmt.Sprintf("va0 %s nil -", hx("TTL")), "validation0")
	add(fmt.Errorf("new election: %w", ve), fmt.Sprintf("wrap %s - va0 %s - %s", hx("new election: "), hx("Bucket"), hx("bucket name is required")), "validation0")
	el := leader.NewElectionError("ACQ", "", "", nil)
	add(el, fmt.Sprintf("el0 %s - -", hx("ACQ")), "election0")
	tv := &leader.TokenValidationError{Reason: "no token"}
	add(tv, fmt.Sprintf("tv0 %s - -", hx("no token")), "tokval0")
	hb := leader.NewTimeoutError("heartbeat update", time.Second, nil)
	add(hb, fmt.Sprintf("to0 %s %s", hx("heartbeat update"), hx("1s")), "heartbeat-timeout")
	return out
}

func runCls(rep *Report, rng *rand.Rand, n int) error {
	cases := clsFixed()
	for i := 0; i < n; i++ {
		cases = append(cases, genErr(rng, 1+rng.Intn(4)))
	}
	reqs := []string{"cls nil"}
	for _, c := range cases {
		reqs = append(reqs, "cls "+c.expr)
	}
	ans, err := runDriver(reqs)
	if err != nil {
		return err
	}
	b2s := func(b bool) string {
		if b {
			return "1"
		}
		return "0"
	}
	// nil
	implNil := b2s(leader.IsPermanentError(nil)) + " " + b2s(leader.IsTransientError(nil)) + " -"
	rep.Cases++
	rep.Compared++
	if implNil != ans[0] {
		rep.diff(Finding{Property: "C15", Clause: "nil", Input: "nil", Impl: implNil, Model: ans[0]})
	}
	if implNil != "0 0 -" {
		rep.violation(Finding{Property: "C15", Clause: "nil-is-neither", Input: "nil", Impl: implNil})
	}
	for i, c := range cases {
		rep.Cases++
		rep.Compared++
		p, t := leader.IsPermanentError(c.err), leader.IsTransientError(c.err)
		impl := b2s(p) + " " + b2s(t) + " " + hx(c.err.Error())
		for _, tg := range c.tags {
			rep.hit(tg)
		}
		rep.hit("verdict:" + b2s(p) + b2s(t))
		rep.nontrivial(c.expr)
		if i%200 == 0 {
			rep.sample(c.expr + " => " + impl)
		}
		if impl != ans[i+1] {
			rep.diff(Finding{Property: "C15", Clause: "classify", Input: c.expr, Impl: impl, Model: ans[i+1], Detail: c.err.Error()})
		}
		in := fmt.Sprintf("%s  (Error()=%q)", c.expr, c.err.Error())
		if p && t {
			rep.violation(Finding{Property: "C15", Clause: "exclusive", Input: in, Impl: impl})
		}
		if !p && !t {
			rep.violation(Finding{Property: "C15", Clause: "total", Input: in, Impl: impl})
		}
		cot := chainHasCtxOrTimeout(c.err)
		if cot {
			rep.hit("chain:ctx-or-timeout")
			if !t {
				rep.violation(Finding{Property: "C15", Clause: "ctx-timeout-transient-also-wrapped", Input: in, Impl: impl})
			}
		}
		if !cot && (errors.Is(c.err, leader.ErrInvalidConfig) || errors.Is(c.err, leader.ErrPermissionDenied) || errors.Is(c.err, leader.ErrBucketNotFound)) {
			rep.hit("chain:config-perm-bucket")
			if !p {
				rep.violation(Finding{Property: "C15", Clause: "config-permission-bucket-permanent-also-wrapped", Input: in, Impl: impl})
			}
		}
		for _, tg := range c.tags {
			switch tg {
			case "nats-update-conflict", "nats-create-exists":
				if !p {
					rep.violation(Finding{Property: "C15", Clause: "nats-conflict-permanent", Input: in, Impl: impl})
				}
			case "nats-keyexists-sentinel":
				if !p {
					rep.violation(Finding{Property: "C15", Clause: "nats-create-exists-permanent", Input: in, Impl: impl})
				}
			case "nats-permission", "nats-bucket-not-found":
				if !p {
					rep.violation(Finding{Property: "C15", Clause: "nats-permission-bucket-permanent", Input: in, Impl: impl})
				}
			case "validation0":
				// the library's own configuration errors (what NewElection returns for an invalid configuration)
				if !p {
					rep.violation(Finding{Property: "C15", Clause: "configuration-error-permanent", Input: in, Impl: impl})
				}
			case "nats-transient":
				if !t {
					rep.violation(Finding{Property: "C15", Clause: "nats-transient", Input: in, Impl: impl})
				}
			}
		}
	}
	return nil
}

// runLower compares the model's lower-casing table with Go's unicode.ToLower over all code points.
func runLower(rep *Report) error {
	ans, err := runDriver([]string{"lowertable"})
	if err != nil {
		return err
	}
	model := map[rune]rune{}
	for _, w := range strings.Fields(ans[0]) {
		var a, b int
		fmt.Sscanf(w, "%d:%d", &a, &b)
		model[rune(a)] = rune(b)
	}
	for r := rune(0); r <= unicode.MaxRune; r++ {
		if r >= 0xD800 && r <= 0xDFFF {
			continue
		}
		rep.Cases++
		l := unicode.ToLower(r)
		m, ok := model[r]
		if !ok {
			m = r
		}
		// what matters: the ASCII part of the mapping must agree exactly
		if (l < 128 || m < 128) && l != m {
			rep.diff(Finding{Property: "C15", Clause: "lower-table", Input: fmt.Sprintf("U+%04X", r), Impl: fmt.Sprintf("U+%04X", l), Model: fmt.Sprintf("U+%04X", m)})
		}
		if l != r && l < 128 {
			rep.nontrivial(fmt.Sprintf("U+%04X", r))
		}
	}
	// strings.ToLower agrees with rune-wise unicode.ToLower on a few mixed strings
	for _, s := range []string{"KEY NOT FOUND", "Key not found", "İNVALID", "Wrong Last Sequence: 5"} {
		want := strings.Map(unicode.ToLower, s)
		if strings.ToLower(s) != want {
			rep.diff(Finding{Property: "C15", Clause: "strings.ToLower", Input: s, Impl: strings.ToLower(s), Model: want})
		}
	}
	rep.Compared = rep.Cases
	rep.sample("U+212A -> k, U+0130 -> i, A-Z -> a-z")
	return nil
}
