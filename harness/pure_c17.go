package harness

import (
	"context"
	"errors"
	"fmt"
	"math"
	"math/big"
	"math/rand"
	"strings"
	"testing"
	"testing/synctest"
	"time"

	"github.com/ali-assar/NATS-Leader-Election/leader"
)

func ratOf(f float64) (string, string) {
	r := new(big.Rat).SetFloat64(f)
	return r.Num().String(), r.Denom().String()
}

func boReq(c leader.BackoffConfig, n int) string {
	mn, md := ratOf(c.BackoffMultiplier)
	jn, jd := ratOf(c.Jitter)
	return fmt.Sprintf("bo %d %d %s %s %s %s %d", int64(c.InitialBackoff), int64(c.MaxBackoff), mn, md, jn, jd, n)
}

// slack for float64 evaluation against the exact rational envelope: 2 ns + 1e-9 relative
func within(v, lo, hi int64) bool {
	s := int64(2) + int64(math.Abs(float64(hi))*1e-9)
	return v >= lo-s && v <= hi+s
}

func runBackoff(rep *Report, rng *rand.Rand, n int) error {
	inits := []time.Duration{0, 1, 50 * time.Millisecond, time.Second, time.Hour}
	maxs := []time.Duration{0, 1, 5 * time.Second, time.Hour, 1000 * time.Hour}
	mults := []float64{0, 0.5, 1, 1.5, 2, 2.5, 10, 1000}
	jits := []float64{0, 0.1, 0.25, 0.5, 1}
	ns := []int{0, 1, 2, 3, 4, 5, 10, 20, 62, 63, 64, 100, 1023, 1024, 1025, 1100, 2000, 4000}
	type bc struct {
		c leader.BackoffConfig
		n int
	}
	var cases []bc
	cases = append(cases, bc{leader.DefaultBackoffConfig(), 0}, bc{leader.DefaultBackoffConfig(), 3}, bc{leader.DefaultBackoffConfig(), 10})
	for i := 0; i < n; i++ {
		c := leader.BackoffConfig{InitialBackoff: inits[rng.Intn(len(inits))], MaxBackoff: maxs[rng.Intn(len(maxs))],
			BackoffMultiplier: mults[rng.Intn(len(mults))], Jitter: jits[rng.Intn(len(jits))]}
		if rng.Intn(4) == 0 {
			c.InitialBackoff = time.Duration(rng.Int63n(int64(time.Minute)))
			c.BackoffMultiplier = 1 + rng.Float64()*3
			c.Jitter = rng.Float64()
		}
		k := ns[rng.Intn(len(ns))]
		if c.BackoffMultiplier > 0 && c.BackoffMultiplier < 1 && k > 1100 {
			k = 1100 // exact rational powers of a 53-bit fraction get large; the float result is 0 long before
		}
		cases = append(cases, bc{c, k})
	}
	reqs := make([]string, len(cases))
	for i, c := range cases {
		reqs[i] = boReq(c.c, c.n)
	}
	ans, err := runDriver(reqs)
	if err != nil {
		return err
	}
	for i, c := range cases {
		var lo, hi int64
		var wf string
		if _, err := fmt.Sscanf(ans[i], "%d %d %s", &lo, &hi, &wf); err != nil {
			rep.diff(Finding{Property: "C17", Clause: "backoff-driver", Input: reqs[i], Model: ans[i]})
			continue
		}
		rep.Cases++
		if wf != "1" {
			rep.hit("not-WF")
			continue
		}
		rep.nontrivial(reqs[i])
		if hi > lo {
			rep.hit("jittered")
		}
		if c.n >= 1024 {
			rep.hit("huge-n")
		}
		var got []string
		for k := 0; k < 16; k++ {
			v := int64(leader.CalculateBackoff(c.c, c.n))
			rep.Compared++
			got = append(got, fmt.Sprint(v))
			if !within(v, lo, hi) || v < 0 {
				cl := "backoff-outside-jitter-envelope"
				if v < 0 {
					cl = "backoff-negative"
				}
				f := Finding{Property: "C17", Clause: cl, Input: reqs[i], Impl: fmt.Sprint(v), Model: ans[i]}
				rep.violation(f)
				rep.diff(f)
				break
			}
		}
		if i < 3 {
			rep.sample(reqs[i] + " => model [" + ans[i] + "] impl " + strings.Join(got[:3], ","))
		}
	}
	return nil
}

var errTransient = errors.New("boom (transient)")
var errPermanent = errors.New("permission denied")

func runRetry(t *testing.T, rep *Report, rng *rand.Rand, n int) error {
	type rc struct {
		max      int
		outcomes []string // per invocation of fn: ok | perm | trans
		tc       int64    // cancel after tc ns (-1 never)
		breaker  int      // threshold (0 = none)
		cooldown time.Duration
		cin      int  // the invocation with this index cancels the context itself before it returns (-1: none)
		zero     bool // zero backoff: the wait's timer is ready at once, together with Done after a cancellation
		durs     []time.Duration // how long each invocation takes (nil: no time at all)
	}
	var cases []rc
	for i := 0; i < n; i++ {
		c := rc{max: rng.Intn(6), tc: -1, cin: -1}
		ln := 1 + rng.Intn(7)
		for k := 0; k < ln; k++ {
			c.outcomes = append(c.outcomes, []string{"trans", "trans", "trans", "ok", "perm"}[rng.Intn(5)])
		}
		if c.max == 0 || rng.Intn(3) == 0 {
			// make sure an unbounded loop ends
			c.outcomes = append(c.outcomes, []string{"ok", "perm"}[rng.Intn(2)])
		}
		switch rng.Intn(4) {
		case 0:
			c.tc = rng.Int63n(int64(400 * time.Millisecond))
		case 1:
			c.tc = 0
		}
		if rng.Intn(4) == 0 {
			c.breaker = 1 + rng.Intn(3)
			c.cooldown = time.Duration(rng.Intn(300)) * time.Millisecond
		}
		if c.tc < 0 && rng.Intn(3) == 0 {
			c.cin = rng.Intn(ln)
		}
		c.zero = rng.Intn(3) == 0
		if c.tc < 0 && c.breaker == 0 && c.cin < 0 && rng.Intn(3) == 0 {
			// invocations that take their time - some longer than the largest backoff: how long the operation ran is no
			// business of the attempt count or of the wait that follows
			for k := 0; k < len(c.outcomes)+1; k++ {
				c.durs = append(c.durs, []time.Duration{0, 30 * time.Millisecond, 100 * time.Millisecond, 150 * time.Millisecond}[rng.Intn(4)])
			}
		}
		cases = append(cases, c)
	}
	cfgStd := leader.BackoffConfig{InitialBackoff: 10 * time.Millisecond, MaxBackoff: 80 * time.Millisecond, BackoffMultiplier: 2, Jitter: 0.2}
	cfgZero := leader.BackoffConfig{InitialBackoff: 0, MaxBackoff: 80 * time.Millisecond, BackoffMultiplier: 2, Jitter: 0}
	var reqs, impls, boReqs []string
	var boVals [][]int64
	for _, c := range cases {
		cfg := cfgStd
		if c.zero {
			cfg = cfgZero
		}
		var calls []int64
		var result string
		refused := 0
		synctest.Test(t, func(t *testing.T) {
			start := time.Now()
			ctx, cancel := context.WithCancel(context.Background())
			defer cancel()
			if c.tc == 0 {
				cancel()
			} else if c.tc > 0 {
				time.AfterFunc(time.Duration(c.tc), cancel)
			}
			idx := 0
			fn := func() error {
				calls = append(calls, int64(time.Since(start)))
				o := "trans"
				if idx < len(c.outcomes) {
					o = c.outcomes[idx]
				} else {
					o = "perm" // safety net: never loop for ever
				}
				if idx == c.cin {
					cancel()
				}
				if idx < len(c.durs) && c.durs[idx] > 0 {
					time.Sleep(c.durs[idx])
				}
				idx++
				switch o {
				case "ok":
					return nil
				case "perm":
					return errPermanent
				}
				return errTransient
			}
			rcfg := leader.RetryConfig{MaxAttempts: c.max, BackoffConfig: cfg}
			if c.breaker > 0 {
				rcfg.CircuitBreaker = leader.NewCircuitBreaker(c.breaker, c.cooldown)
			}
			err := leader.RetryWithBackoff(ctx, rcfg, fn)
			switch {
			case err == nil:
				result = "ok"
			case errors.Is(err, context.Canceled):
				result = "cancelled"
			case err.Error() == "circuit breaker is open":
				result = "open"
				refused = 1
			case strings.HasPrefix(err.Error(), "max attempts"):
				result = "max"
			case errors.Is(err, errPermanent):
				result = "permanent"
			default:
				result = "?" + err.Error()
			}
		})
		// script for the model: outcome of each iteration + the observed wait after it
		var script []string
		var waits []int64
		for k := range calls {
			o := "perm"
			if k < len(c.outcomes) {
				o = c.outcomes[k]
			}
			d := int64(0)
			if k+1 < len(calls) {
				d = calls[k+1] - calls[k]
				if k < len(c.durs) {
					d -= int64(c.durs[k]) // (the wait begins when the invocation has returned)
				}
				waits = append(waits, d)
			} else if o == "trans" {
				// last invocation was transient: the loop ended by max attempts, cancellation in the wait, or breaker refusal
				d = 1 << 40
				if result == "open" {
					// the wait elapsed, then the breaker refused: the wait length is unobservable; any value ≤ remaining time
					d = 0
				}
			}
			tie := "0"
			if c.tc >= 0 && result == "cancelled" && k+1 == len(calls) {
				tie = "1"
			}
			if k == c.cin && o == "trans" {
				o = "transc"
				if k+1 == len(calls) {
					d = 0
				}
			}
			script = append(script, fmt.Sprintf("%s:%d:%s", o, d, tie))
		}
		if refused == 1 {
			script = append(script, "open:0:0")
		}
		if result == "cancelled" && len(calls) == 0 {
			script = append(script, "ok:0:0") // never reached: cancelled before the first call
		}
		tc := "-"
		if c.tc >= 0 {
			tc = fmt.Sprint(c.tc)
		}
		req := fmt.Sprintf("retry %d %s 0 %s", c.max, tc, strings.Join(script, " "))
		if refused == 1 && c.tc >= 0 {
			// breaker refusal after a wait that the model cannot time exactly when a cancellation is pending: skip timing, keep counts
			req = fmt.Sprintf("retry %d - 0 %s", c.max, strings.Join(script, " "))
		}
		var cs []string
		var spent int64 // (time spent inside earlier invocations: the model's clock runs over the waits only)
		for k, x := range calls {
			cs = append(cs, fmt.Sprint(x-spent))
			if k < len(c.durs) {
				spent += int64(c.durs[k])
			}
		}
		reqs = append(reqs, req)
		impls = append(impls, strings.TrimSpace(result+" "+strings.Join(cs, " ")))
		// each observed wait must be a legal backoff for its attempt index
		for k, w := range waits {
			boReqs = append(boReqs, boReq(cfg, k))
			boVals = append(boVals, []int64{w})
		}
		// property monitors on the implementation alone
		in := fmt.Sprintf("max=%d outcomes=%v cancel=%d breaker=%d/%v", c.max, c.outcomes, c.tc, c.breaker, c.cooldown)
		if c.max > 0 && len(calls) > c.max {
			rep.violation(Finding{Property: "C17", Clause: "retry-more-than-MaxAttempts", Input: in, Impl: impls[len(impls)-1]})
		}
		for k := range calls {
			if k+1 < len(calls) && k < len(c.outcomes) && (c.outcomes[k] == "ok" || c.outcomes[k] == "perm") {
				rep.violation(Finding{Property: "C17", Clause: "retry-call-after-success-or-permanent", Input: in, Impl: impls[len(impls)-1]})
			}
			if c.tc >= 0 && calls[k] >= c.tc && !(calls[k] == c.tc && c.tc > 0) {
				rep.violation(Finding{Property: "C17", Clause: "retry-call-after-cancel", Input: in, Impl: impls[len(impls)-1]})
			}
			if c.cin >= 0 && k > c.cin {
				rep.violation(Finding{Property: "C17", Clause: "retry-call-after-cancel", Input: in + fmt.Sprintf(" cancelled-by-invocation=%d zero-backoff=%v", c.cin, c.zero), Impl: impls[len(impls)-1]})
			}
		}
		rep.hit("result:" + strings.TrimLeft(result, "?"))
		if len(calls) > 1 {
			rep.nontrivial(req)
		}
	}
	ans, err := runDriver(append(append([]string{}, reqs...), boReqs...))
	if err != nil {
		return err
	}
	for i := range reqs {
		rep.Cases++
		rep.Compared++
		if i < 3 {
			rep.sample(reqs[i] + " => impl [" + impls[i] + "] model [" + ans[i] + "]")
		}
		if ans[i] != impls[i] {
			rep.diff(Finding{Property: "C17", Clause: "retry-loop", Input: reqs[i], Impl: impls[i], Model: ans[i]})
		}
	}
	for j := range boReqs {
		var lo, hi int64
		var wf string
		fmt.Sscanf(ans[len(reqs)+j], "%d %d %s", &lo, &hi, &wf)
		rep.Compared++
		if !within(boVals[j][0], lo, hi) {
			f := Finding{Property: "C17", Clause: "retry-wait-is-not-the-computed-backoff", Input: boReqs[j], Impl: fmt.Sprint(boVals[j][0]), Model: ans[len(reqs)+j]}
			rep.violation(f)
			rep.diff(f)
		}
	}
	return nil
}

func runBreaker(t *testing.T, rep *Report, rng *rand.Rand, n int) error {
	var reqs, impls []string
	for i := 0; i < n; i++ {
		th := 1 + rng.Intn(5)
		cd := time.Duration(1+rng.Intn(200)) * time.Millisecond
		ln := 2 + rng.Intn(14)
		var evs []string
		var inv []string
		var monitorBad string
		synctest.Test(t, func(t *testing.T) {
			start := time.Now()
			cb := leader.NewCircuitBreaker(th, cd)
			consec := 0       // consecutive failures of invoked calls since last success
			open := false     // by the property's own reading
			var lastFail time.Duration
			for k := 0; k < ln; k++ {
				dt := time.Duration(rng.Intn(int(cd)*2/3+1)) + 1
				if rng.Intn(5) == 0 {
					dt = cd
				}
				time.Sleep(dt)
				now := time.Since(start)
				succ := rng.Intn(3) == 0
				called := false
				// one operation in four takes time (up to a cooldown): the cooldown runs from its failure, not from its start
				dur := time.Duration(0)
				if rng.Intn(4) == 0 {
					dur = time.Duration(rng.Intn(int(cd))) + 1
				}
				err := cb.Call(func() error {
					called = true
					if dur > 0 {
						time.Sleep(dur)
					}
					if succ {
						return nil
					}
					return errTransient
				})
				s := 0
				if succ {
					s = 1
				}
				if !called {
					dur = 0
				}
				evs = append(evs, fmt.Sprintf("%d:%d:%d", int64(now), s, int64(dur)))
				if called {
					inv = append(inv, "1")
				} else {
					inv = append(inv, "0")
					if err == nil || err.Error() != "circuit breaker is open" {
						monitorBad = "refused without the open error"
					}
				}
				// the property's clauses, tracked independently of the model
				if open && now-lastFail < cd && called {
					monitorBad = fmt.Sprintf("invoked while open within cooldown at event %d", k)
				}
				if !open && !called {
					monitorBad = fmt.Sprintf("refused while closed at event %d", k)
				}
				if called {
					if succ {
						consec, open = 0, false
					} else {
						consec++
						lastFail = now + dur
						if consec >= th {
							open = true
						}
					}
				}
			}
		})
		req := fmt.Sprintf("brk %d %d %s", th, int64(cd), strings.Join(evs, " "))
		reqs = append(reqs, req)
		impls = append(impls, strings.Join(inv, " "))
		if monitorBad != "" {
			rep.violation(Finding{Property: "C17", Clause: "breaker-contract", Input: req, Impl: strings.Join(inv, " "), Detail: monitorBad})
		}
		if strings.Contains(strings.Join(inv, ""), "0") {
			rep.nontrivial(req)
			rep.hit("refused-at-least-once")
		}
	}
	ans, err := runDriver(reqs)
	if err != nil {
		return err
	}
	for i := range reqs {
		rep.Cases++
		rep.Compared++
		var m []string
		for _, w := range strings.Fields(ans[i]) {
			m = append(m, w[:1])
		}
		if i < 3 {
			rep.sample(reqs[i] + " => impl [" + impls[i] + "] model [" + ans[i] + "]")
		}
		if strings.Join(m, " ") != impls[i] {
			rep.diff(Finding{Property: "C17", Clause: "breaker", Input: reqs[i], Impl: impls[i], Model: ans[i]})
		}
	}
	return nil
}
