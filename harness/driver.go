package harness

import (
	"bufio"
	"fmt"
	"io"
	"os"
	"os/exec"
	"strings"
)

// runDriver pipes the request lines to the Lean driver and returns one answer per line.
func runDriver(reqs []string) ([]string, error) { return runDriverN(reqs, len(reqs)) }

// runDriverN: `want` answer lines are expected (a trace block is answered by one line).
func runDriverN(reqs []string, want int) ([]string, error) {
	path := os.Getenv("NLE_DRIVER")
	if path == "" {
		path = "/verif/lean/.lake/build/bin/nledriver"
	}
	cmd := exec.Command(path)
	stdin, err := cmd.StdinPipe()
	if err != nil {
		return nil, err
	}
	stdout, err := cmd.StdoutPipe()
	if err != nil {
		return nil, err
	}
	cmd.Stderr = os.Stderr
	if err := cmd.Start(); err != nil {
		return nil, err
	}
	go func() {
		w := bufio.NewWriterSize(stdin, 1<<20)
		for _, r := range reqs {
			w.WriteString(r)
			w.WriteByte('\n')
		}
		w.Flush()
		stdin.Close()
	}()
	var out []string
	rd := bufio.NewReaderSize(stdout, 1<<20)
	for {
		line, err := rd.ReadString('\n')
		if line != "" {
			out = append(out, strings.TrimRight(line, "\r\n"))
		}
		if err == io.EOF {
			break
		}
		if err != nil {
			return nil, err
		}
	}
	if err := cmd.Wait(); err != nil {
		return out, fmt.Errorf("driver: %w", err)
	}
	if len(out) != want {
		return out, fmt.Errorf("driver answered %d lines, expected %d", len(out), want)
	}
	return out, nil
}
