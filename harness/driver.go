package harness

import (
	"bufio"
	"fmt"
	"io"
	"os"
	"os/exec"
	"strings"
)

// runDriver pipes the request lines to the Lean driver and returns one answer per line.
func runDriver(reqs []string) ([]string, error) {
	path := os.Getenv("NLE_DRIVER")
	if path == "" {
		path = "/verif/lean/.lake/build/bin/nledriver"
	}
	cmd := exec.Command(path)
	stdin, err := cmd.StdinPipe()
	if err != nil {
		return nil, err
	}
	stdout, err := cmd.StdoutPipe()
	if err != nil {
		return nil, err
	}
	cmd.Stderr = os.Stderr
	if err := cmd.Start(); err != nil {
		return nil, err
	}
	go func() {
		w := bufio.NewWriterSize(stdin, 1<<20)
		for _, r := range reqs {
			w.WriteString(r)
			w.WriteByte('\n')
		}
		w.Flush()
		stdin.Close()
	}()
	var out []string
	rd := bufio.NewReaderSize(stdout, 1<<20)
	for {
		line, err := rd.ReadString('\n')
		if line != "" {
			out = append(out, strings.TrimRight(line, "\r\n"))
		}
		if err == io.EOF {
			break
		}
		if err != nil {
			return nil, err
		}
	}
	if err := cmd.Wait(); err != nil {
		return out, fmt.Errorf("driver: %w", err)
	}
	if len(out) != len(reqs) {
		return out, fmt.Errorf("driver answered %d lines for %d requests", len(out), len(reqs))
	}
	return out, nil
}
