//go:build verif

package harness

import (
	"context"
	"errors"
	"fmt"
	"go.uber.org/zap"
	"math/rand"
	mrand "math/rand/v2"
	"os"
	"reflect"
	"runtime"
	"sync"
	"sync/atomic"
	"time"
	"unsafe"

	"github.com/ali-assar/NATS-Leader-Election/leader"
	"github.com/nats-io/nats.go"
)

// ---- a small concurrent in-memory KV (real time, for race-detector runs; C20) -------------------

type memEntry struct {
	key string
	val []byte
	rev uint64
}

func (e *memEntry) Key() string      { return e.key }
func (e *memEntry) Value() []byte    { return e.val }
func (e *memEntry) Revision() uint64 { return e.rev }

type memWatcher struct {
	ch   chan leader.Entry
	once sync.Once
	kv   *memKV
}

func (w *memWatcher) Updates() <-chan leader.Entry { return w.ch }
func (w *memWatcher) Stop() {
	w.once.Do(func() {
		w.kv.mu.Lock()
		delete(w.kv.watchers, w)
		w.kv.mu.Unlock()
		close(w.ch)
	})
}

type memKV struct {
	mu        sync.Mutex
	recs      map[string]*memEntry
	seq       uint64
	watchers  map[*memWatcher]bool
	rng       *rand.Rand
	fail      atomic.Int32            // per-mille probability of a transient error
	slowWatch bool                    // profile B: every other Watch call is slow, so that stop calls with short time-outs leave a watch loop behind
	mockWords bool                    // profile C: conflicts and misses in the words of the package's own mock store; a read now and then takes longer than the heartbeat's time-out
	onUpdate  func(prev, next []byte) // called (under the store's mutex) for every Update that is applied
}

func newMemKV(seed int64) *memKV {
	return &memKV{recs: map[string]*memEntry{}, watchers: map[*memWatcher]bool{}, rng: rand.New(rand.NewSource(seed))}
}

func (k *memKV) lat() {
	k.mu.Lock()
	d := time.Duration(k.rng.Intn(300)) * time.Microsecond
	if k.rng.Intn(40) == 0 {
		// now and then an operation is slow: stop calls with short time-outs then return while it is still in flight
		d = time.Duration(10+k.rng.Intn(40)) * time.Millisecond
	}
	k.mu.Unlock()
	time.Sleep(d)
}

func (k *memKV) maybeFail() error {
	k.mu.Lock()
	f := int32(k.rng.Intn(1000))
	k.mu.Unlock()
	if f < k.fail.Load() {
		return nats.ErrTimeout
	}
	return nil
}

func (k *memKV) notify(e leader.Entry) {
	for w := range k.watchers {
		select {
		case w.ch <- e:
		default:
		}
	}
}

func (k *memKV) Create(key string, value []byte, opts ...interface{}) (uint64, error) {
	k.lat()
	if err := k.maybeFail(); err != nil {
		return 0, err
	}
	k.mu.Lock()
	defer k.mu.Unlock()
	if _, ok := k.recs[key]; ok {
		return 0, fmt.Errorf("wrong last sequence: %w", nats.ErrKeyExists)
	}
	k.seq++
	e := &memEntry{key, append([]byte(nil), value...), k.seq}
	k.recs[key] = e
	k.notify(e)
	return k.seq, nil
}

func (k *memKV) Update(key string, value []byte, rev uint64, opts ...interface{}) (uint64, error) {
	k.lat()
	if err := k.maybeFail(); err != nil {
		return 0, err
	}
	k.mu.Lock()
	defer k.mu.Unlock()
	cur, ok := k.recs[key]
	if !ok || cur.rev != rev {
		if k.mockWords {
			if !ok {
				return 0, errors.New("key not found")
			}
			return 0, errors.New("revision mismatch")
		}
		return 0, &nats.APIError{ErrorCode: 10071, Description: "wrong last sequence"}
	}
	if k.onUpdate != nil {
		k.onUpdate(cur.val, value)
	}
	k.seq++
	e := &memEntry{key, append([]byte(nil), value...), k.seq}
	k.recs[key] = e
	k.notify(e)
	return k.seq, nil
}

func (k *memKV) Get(key string) (leader.Entry, error) {
	k.lat()
	if k.mockWords {
		k.mu.Lock()
		slow := k.rng.Intn(5) == 0
		k.mu.Unlock()
		if slow {
			time.Sleep(time.Duration(1050+rand.Intn(200)) * time.Millisecond)
		}
	}
	if err := k.maybeFail(); err != nil {
		return nil, err
	}
	k.mu.Lock()
	defer k.mu.Unlock()
	if e, ok := k.recs[key]; ok {
		return e, nil
	}
	return nil, nats.ErrKeyNotFound
}

func (k *memKV) Delete(key string) error {
	k.lat()
	k.mu.Lock()
	defer k.mu.Unlock()
	if _, ok := k.recs[key]; ok {
		delete(k.recs, key)
		k.seq++
		k.notify(nil)
	}
	return nil
}

func (k *memKV) Watch(key string, opts ...interface{}) (leader.Watcher, error) {
	k.lat()
	if k.slowWatch {
		k.mu.Lock()
		slow := k.rng.Intn(2) == 0
		k.mu.Unlock()
		if slow {
			time.Sleep(time.Duration(5+rand.Intn(30)) * time.Millisecond)
		}
	}
	if err := k.maybeFail(); err != nil {
		return nil, err
	}
	w := &memWatcher{ch: make(chan leader.Entry, 64), kv: k}
	k.mu.Lock()
	k.watchers[w] = true
	if e, ok := k.recs[key]; ok {
		w.ch <- e
	}
	k.mu.Unlock()
	return w, nil
}

type memJS struct{ kv *memKV }

func (j memJS) KeyValue(bucket string) (leader.KeyValue, error) { return j.kv, nil }

type memProvider struct {
	kv   *memKV
	conn *nats.Conn
}

func (p *memProvider) JetStream() (leader.JetStreamContext, error) { return memJS{p.kv}, nil }
func (p *memProvider) NATSConnection() *nats.Conn                  { return p.conn }

// discardLogger is a stateless Logger.
type discardLogger struct{}

func (discardLogger) Debug(string, ...zap.Field) {}
func (discardLogger) Info(string, ...zap.Field)  {}
func (discardLogger) Warn(string, ...zap.Field)  {}
func (discardLogger) Error(string, ...zap.Field) {}
func (discardLogger) Fatal(string, ...zap.Field) {}

// dawdleLogger is a sink that takes a moment (up to 200 µs of somebody else's processor time) over every record.
type dawdleLogger struct{}

func (dawdleLogger) wait() {
	d := time.Duration(mrand.IntN(200)) * time.Microsecond
	for t0 := time.Now(); time.Since(t0) < d; {
		runtime.Gosched()
	}
}
func (l dawdleLogger) Debug(string, ...zap.Field) { l.wait() }
func (l dawdleLogger) Info(string, ...zap.Field)  { l.wait() }
func (l dawdleLogger) Warn(string, ...zap.Field)  { l.wait() }
func (l dawdleLogger) Error(string, ...zap.Field) { l.wait() }
func (l dawdleLogger) Fatal(string, ...zap.Field) { l.wait() }

// disconnectCB returns the handler registered with SetDisconnectHandler (nats.go has no getter for it), reading it under
// the connection's own mutex as the client does.
func disconnectCB(conn *nats.Conn) nats.ConnHandler {
	if conn == nil {
		return nil
	}
	mu := (*sync.RWMutex)(unsafe.Pointer(reflect.ValueOf(conn).Elem().FieldByName("mu").UnsafeAddr()))
	mu.RLock()
	defer mu.RUnlock()
	return conn.Opts.DisconnectedCB
}

// runFlap: eight single-instance groups, each a leader most of the time; per group one goroutine delivers a disconnect
// notification, waits for the grace period give or take 300 µs, and delivers another one.  Returns the number of cycles.
func runFlap(rng *rand.Rand, dur time.Duration) int {
	h := 20 * time.Millisecond
	stop := make(chan struct{})
	var wg sync.WaitGroup
	var cycles atomic.Int64
	var els []leader.Election
	for g := 0; g < 8; g++ {
		kv := newMemKV(rng.Int63())
		conn := &nats.Conn{}
		group := fmt.Sprintf("flap%d", g)
		cfg := leader.ElectionConfig{Bucket: "b", Group: group, InstanceID: "i1", TTL: 3 * h, HeartbeatInterval: h,
			DisconnectGracePeriod: 2 * h}
		el, err := leader.NewElection(&memProvider{kv, conn}, cfg)
		if err != nil {
			continue
		}
		els = append(els, el)
		_ = el.Start(context.Background())
		r := rand.New(rand.NewSource(rng.Int63()))
		wg.Add(1)
		go func() {
			defer wg.Done()
			for {
				select {
				case <-stop:
					return
				default:
				}
				if !el.IsLeader() {
					// (the store of this mode has no expiry: clear the record of the term that ended)
					_ = kv.Delete(group)
					time.Sleep(5 * time.Millisecond)
					continue
				}
				cb := disconnectCB(conn)
				if cb == nil {
					time.Sleep(time.Millisecond)
					continue
				}
				cb(conn)
				time.Sleep(2*h + time.Duration(r.Intn(600)-300)*time.Microsecond)
				cb(conn)
				cycles.Add(1)
				time.Sleep(time.Duration(r.Intn(5)) * time.Millisecond)
				if rc := conn.ReconnectHandler(); rc != nil && r.Intn(2) == 0 {
					rc(conn)
				}
			}
		}()
	}
	time.Sleep(dur)
	close(stop)
	wg.Wait()
	for _, el := range els {
		_ = el.Stop()
	}
	time.Sleep(100 * time.Millisecond)
	return int(cycles.Load())
}

// runReconnectStop: a reconnect notification delivered to a leader while another goroutine stops the election - over and
// over, with a fresh election each time (a monitored election can be started once).  What the notification's handler
// starts (the verification goroutine, counted by the election's WaitGroup) must be ordered with the stop call's Wait.
func runReconnectStop(rng *rand.Rand, dur time.Duration) int {
	deadline := time.Now().Add(dur)
	var wg sync.WaitGroup
	var cycles atomic.Int64
	for wkr := 0; wkr < 48; wkr++ {
		seed := rng.Int63()
		wg.Add(1)
		go func(wkr int) {
			defer wg.Done()
			r := rand.New(rand.NewSource(seed))
			h := 20 * time.Millisecond
			for n := 0; time.Now().Before(deadline); n++ {
				kv := newMemKV(r.Int63())
				conn := &nats.Conn{}
				cfg := leader.ElectionConfig{Bucket: "b", Group: fmt.Sprintf("rs%d-%d", wkr, n), InstanceID: "i1", TTL: 3 * h, HeartbeatInterval: h,
					DisconnectGracePeriod: 2 * h, Logger: dawdleLogger{}}
				el, err := leader.NewElection(&memProvider{kv, conn}, cfg)
				if err != nil {
					return
				}
				_ = el.Start(context.Background())
				for t0 := time.Now(); !el.IsLeader() && time.Since(t0) < 50*time.Millisecond; {
					time.Sleep(100 * time.Microsecond)
				}
				var pair sync.WaitGroup
				pair.Add(2)
				go func() {
					defer pair.Done()
					if rc := conn.ReconnectHandler(); rc != nil {
						rc(conn)
					}
				}()
				d := time.Duration(r.Intn(250)) * time.Microsecond
				go func() {
					defer pair.Done()
					for t0 := time.Now(); time.Since(t0) < d; {
						runtime.Gosched()
					}
					_ = el.Stop()
				}()
				pair.Wait()
				_ = el.Stop()
				cycles.Add(1)
			}
		}(wkr)
	}
	wg.Wait()
	time.Sleep(150 * time.Millisecond) // (verifications that were started settle for 100 ms before they look at the flag)
	return int(cycles.Load())
}

// runRace drives the public API of several elections from concurrent goroutines in real time. The binary is built
// with -race; the race detector's reports (GORACE log_path) are collected and normalised by bin/check.
func runRace(rep *Report, rng *rand.Rand, n int, thorough bool) error {
	dur := time.Duration(n) * time.Millisecond
	if dur <= 0 {
		dur = 4 * time.Second
	}
	rounds := 1
	if thorough {
		rounds = 3
	}
	// a third of the time goes to flapping connections: leaders of independent groups whose connection drops again right
	// around the expiry of the grace period that the previous drop armed (timer callback vs. notification handler)
	flapCalls := runFlap(rng, dur/3)
	rep.Compared += flapCalls
	rep.hit(fmt.Sprintf("flap-cycles:%d", flapCalls))
	rsCalls := runReconnectStop(rng, dur/8)
	rep.Compared += rsCalls
	rep.hit(fmt.Sprintf("reconnect-stop-cycles:%d", rsCalls))
	dur -= dur/3 + dur/8
	for round := 0; round < rounds; round++ {
		kv := newMemKV(rng.Int63())
		kv.slowWatch = (rep.Seed+int64(round))%2 == 0
		kv.mockWords = (rep.Seed+int64(round))%2 == 1
		h := []time.Duration{20, 40, 100}[rng.Intn(3)] * time.Millisecond
		var els []leader.Election
		var conns []*nats.Conn
		for i := 1; i <= 3; i++ {
			// only the first election gets a connection (and with it a connection monitor): a monitored election can be
			// started once - natsConnectionMonitor.Start refuses a second time - so the restarts of this mode need the others
			var conn *nats.Conn
			if i == 1 {
				conn = &nats.Conn{}
			}
			cfg := leader.ElectionConfig{Bucket: "b", Group: "g", InstanceID: fmt.Sprintf("i%d", i), TTL: 3 * h, HeartbeatInterval: h,
				ValidationInterval: 2 * h, DisconnectGracePeriod: 2 * h, Priority: i % 2, AllowPriorityTakeover: i == 3}
			if i != 2 {
				cfg.Logger = discardLogger{} // (a configured logger: whatever the library prepares for it is shared by its goroutines)
			}
			if i == 2 {
				cfg.HealthChecker = raceHealth{}
			}
			el, err := leader.NewElection(&memProvider{kv, conn}, cfg)
			if err != nil {
				return err
			}
			els = append(els, el)
			conns = append(conns, conn)
		}
		stop := make(chan struct{})
		var wg sync.WaitGroup
		var calls, startOK, startBusy, startErr atomic.Int64
		spawn := func(seed int64, f func(r *rand.Rand)) {
			wg.Add(1)
			go func() {
				defer wg.Done()
				defer func() {
					if p := recover(); p != nil {
						fmt.Fprintf(os.Stderr, "NLE-RACE-PANIC %v\n", p)
					}
				}()
				r := rand.New(rand.NewSource(seed))
				for {
					select {
					case <-stop:
						return
					default:
					}
					f(r)
					calls.Add(1)
				}
			}()
		}
		tally := func(err error) {
			switch {
			case err == nil:
				startOK.Add(1)
			case err == leader.ErrAlreadyStarted:
				startBusy.Add(1)
			default:
				startErr.Add(1)
			}
		}
		for idx := range els {
			el, conn := els[idx], conns[idx]
			// lifecycle
			spawn(rng.Int63(), func(r *rand.Rand) {
				if r.Intn(4) == 0 {
					// a run that the application ends by cancelling the context it passed to Start; the next iteration starts
					// the same object again (connection handlers stay registered in between)
					ctx, cancel := context.WithCancel(context.Background())
					tally(el.Start(ctx))
					time.Sleep(time.Duration(r.Intn(int(4*h/time.Millisecond))) * time.Millisecond)
					cancel()
					time.Sleep(time.Duration(r.Intn(3)) * time.Millisecond)
					return
				}
				tally(el.Start(context.Background()))
				time.Sleep(time.Duration(r.Intn(int(6*h/time.Millisecond))) * time.Millisecond)
				switch r.Intn(3) {
				case 0:
					_ = el.Stop()
				case 1:
					if kv.slowWatch {
						// give up at once and start again: goroutines of the run that was stopped are still winding down
						_ = el.StopWithContext(context.Background(), leader.StopOptions{Timeout: time.Millisecond})
						return
					}
					fallthrough
				default:
					ctx, cancel := context.WithTimeout(context.Background(), time.Duration(1+r.Intn(200))*time.Millisecond)
					_ = el.StopWithContext(ctx, leader.StopOptions{DeleteKey: r.Intn(2) == 0, WaitForDemote: r.Intn(2) == 0,
						Timeout: []time.Duration{0, time.Millisecond, 50 * time.Millisecond}[r.Intn(3)]})
					cancel()
				}
				if r.Intn(4) == 0 {
					_ = el.Stop() // repeated stop
				}
				time.Sleep(time.Duration(r.Intn(3)) * time.Millisecond)
			})
			// a second caller of the stop methods, concurrent with the lifecycle goroutine
			spawn(rng.Int63(), func(r *rand.Rand) {
				time.Sleep(time.Duration(r.Intn(int(8*h/time.Millisecond))) * time.Millisecond)
				if r.Intn(2) == 0 {
					_ = el.Stop()
				} else {
					_ = el.StopWithContext(context.Background(), leader.StopOptions{DeleteKey: r.Intn(2) == 0, Timeout: 20 * time.Millisecond})
				}
			})
			// readers and validators
			spawn(rng.Int63(), func(r *rand.Rand) {
				_ = el.IsLeader()
				_ = el.LeaderID()
				_ = el.Token()
				_ = el.Status()
				if r.Intn(4) == 0 {
					ctx, cancel := context.WithTimeout(context.WithValue(context.Background(), "correlation_id", "race"), 5*time.Millisecond)
					_, _ = el.ValidateToken(ctx)
					cancel()
				}
				if r.Intn(16) == 0 {
					_ = el.ValidateTokenOrDemote(context.Background())
				}
				time.Sleep(time.Duration(r.Intn(500)) * time.Microsecond)
			})
			// callback registration while running
			spawn(rng.Int63(), func(r *rand.Rand) {
				d := time.Duration(r.Intn(3)) * time.Millisecond
				el.OnPromote(func(ctx context.Context, token string) {
					select {
					case <-ctx.Done():
					case <-time.After(d):
					}
				})
				el.OnDemote(func() {})
				time.Sleep(time.Duration(r.Intn(2000)) * time.Microsecond)
			})
			// connection notifications, delivered the way nats.go does: the registered handlers, from another goroutine
			spawn(rng.Int63(), func(r *rand.Rand) {
				switch r.Intn(3) {
				case 0:
					if cb := disconnectCB(conn); cb != nil {
						cb(conn)
					}
				case 1:
					if cb := conn.ReconnectHandler(); cb != nil {
						cb(conn)
					}
				default:
					if cb := conn.ClosedHandler(); cb != nil && r.Intn(8) == 0 {
						cb(conn)
					}
				}
				time.Sleep(time.Duration(r.Intn(int(2*h/time.Millisecond)+1)) * time.Millisecond)
			})
		}
		// an outside writer and transient store failures keep terms short
		spawn(rng.Int63(), func(r *rand.Rand) {
			switch r.Intn(4) {
			case 0:
				_ = kv.Delete("g")
			case 3:
				// the record is overwritten from outside: the leader's next refresh is refused as a conflict
				kv.mu.Lock()
				if _, ok := kv.recs["g"]; ok {
					kv.seq++
					e := &memEntry{"g", []byte(`{"id":"outsider","token":"zz","priority":0}`), kv.seq}
					kv.recs["g"] = e
					kv.notify(e)
				}
				kv.mu.Unlock()
			case 1:
				kv.fail.Store(int32(r.Intn(300)))
			default:
				kv.fail.Store(0)
			}
			time.Sleep(time.Duration(r.Intn(int(4*h/time.Millisecond))) * time.Millisecond)
		})
		time.Sleep(dur)
		close(stop)
		wg.Wait()
		for _, el := range els {
			_ = el.Stop()
		}
		time.Sleep(200 * time.Millisecond)
		rep.Cases++
		rep.hit(fmt.Sprintf("starts ok:%d refused:%d failed:%d", startOK.Load(), startBusy.Load(), startErr.Load()))
		rep.Compared += int(calls.Load())
		rep.nontrivial(fmt.Sprintf("round-%d", round))
		rep.hit(fmt.Sprintf("api-calls:%d", calls.Load()/1000*1000))
	}
	return nil
}

type raceHealth struct{}

// (now and then the check takes longer than a heartbeat interval and pays no attention to its context: the term may end,
// and the next begin, while the heartbeat goroutine of the old one is still in here)
func (raceHealth) Check(ctx context.Context) bool {
	n := time.Now().UnixNano()
	if n%5 == 0 {
		time.Sleep(time.Duration(20+n%100) * time.Millisecond)
	}
	return n%7 != 0
}
