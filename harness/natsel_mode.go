//go:build verif

package harness

// Mode "natsel": real elections over the library's own adapter and an embedded nats-server, with an outside party that
// interferes at chosen points of a candidate's store operations (C13: arbitrary record contents and outside
// interference never crash, hang or promote).  The scenario harness runs the election against the reference store; this
// mode is where the election and the adapter meet: what the adapter returns for a record that has just been deleted,
// purged or overwritten is what the acquisition and takeover paths have to live with.
//
// The interference is placed by an interposer between the adapter and the client's KeyValue: after (or before) the
// candidate's n-th operation of a kind it acts through the raw bucket, once or every time.  Real time, real server:
// the checks are the ones that do not depend on timing - the process survives (a panic on a library goroutine ends the
// process and is reported by the check as a crash), nobody leads on somebody else's record for longer than a refresh
// takes to notice, every stop call returns, nothing of the library is left running.

import (
	"context"
	"fmt"
	"math/rand"
	"runtime"
	"strings"
	"sync"
	"sync/atomic"
	"time"

	leader "github.com/ali-assar/NATS-Leader-Election/leader"
	"github.com/nats-io/nats.go"
)

type interference struct {
	point  string // create-refused, create-ok, get-before, get-after, update-before, update-after, watch-after
	action string // delete, purge, put-null, put-empty-object, put-garbage, put-foreign-high, put-foreign-low
	always bool
}

type interposedKV struct {
	nats.KeyValue
	raw   nats.KeyValue
	plan  interference
	fired atomic.Int32
}

func (k *interposedKV) act(point, key string) {
	if point != k.plan.point {
		return
	}
	n := k.fired.Add(1)
	if (!k.plan.always && n > 1) || n > 40 {
		return
	}
	switch k.plan.action {
	case "delete":
		_ = k.raw.Delete(key)
	case "purge":
		_ = k.raw.Purge(key)
	case "put-null":
		_, _ = k.raw.Put(key, []byte("null"))
	case "put-empty-object":
		_, _ = k.raw.Put(key, []byte("{}"))
	case "put-garbage":
		_, _ = k.raw.Put(key, []byte("\x00\xff not json"))
	case "put-foreign-high":
		_, _ = k.raw.Put(key, []byte(`{"id":"outsider","token":"zz","priority":9}`))
	case "put-foreign-low":
		_, _ = k.raw.Put(key, []byte(`{"id":"outsider","token":"zz","priority":0}`))
	}
}

func (k *interposedKV) Create(key string, value []byte) (uint64, error) {
	rev, err := k.KeyValue.Create(key, value)
	if err != nil {
		k.act("create-refused", key)
	} else {
		k.act("create-ok", key)
	}
	return rev, err
}

func (k *interposedKV) Get(key string) (nats.KeyValueEntry, error) {
	k.act("get-before", key)
	e, err := k.KeyValue.Get(key)
	k.act("get-after", key)
	return e, err
}

func (k *interposedKV) Update(key string, value []byte, last uint64) (uint64, error) {
	k.act("update-before", key)
	rev, err := k.KeyValue.Update(key, value, last)
	k.act("update-after", key)
	return rev, err
}

func (k *interposedKV) Watch(keys string, opts ...nats.WatchOpt) (nats.KeyWatcher, error) {
	w, err := k.KeyValue.Watch(keys, opts...)
	k.act("watch-after", keys)
	return w, err
}

type adapterProvider struct{ kv leader.KeyValue }
type adapterJS struct{ kv leader.KeyValue }

func (p adapterProvider) JetStream() (leader.JetStreamContext, error) { return adapterJS{p.kv}, nil }
func (j adapterJS) KeyValue(string) (leader.KeyValue, error)          { return j.kv, nil }

func runNATSElections(rep *Report, rng *rand.Rand, n int, thorough bool) error {
	ctx, cancel := context.WithCancel(context.Background())
	defer cancel()
	srv, err := leader.StartEmbeddedNATSServer(ctx)
	if err != nil {
		return fmt.Errorf("embedded nats-server: %w", err)
	}
	defer leader.StopEmbeddedNATSServer(srv)
	nc, err := nats.Connect(srv.ClientURL())
	if err != nil {
		return err
	}
	defer nc.Close()
	bucket := "verifel"
	if err := leader.CreateKVBucket(nc, bucket, 1200*time.Millisecond); err != nil {
		return err
	}
	nkv, err := leader.GetKVBucket(nc, bucket)
	if err != nil {
		return err
	}
	var plans []interference
	for _, p := range []string{"create-refused", "create-ok", "get-before", "get-after", "update-before", "update-after", "watch-after"} {
		for _, a := range []string{"delete", "purge", "put-null", "put-empty-object", "put-garbage", "put-foreign-high", "put-foreign-low"} {
			for _, always := range []bool{false, true} {
				plans = append(plans, interference{p, a, always})
			}
		}
	}
	rng.Shuffle(len(plans), func(i, j int) { plans[i], plans[j] = plans[j], plans[i] })
	if n > 0 && n < len(plans) {
		plans = plans[:n]
	}
	libGoroutines := func() int {
		buf := make([]byte, 4<<20)
		m := runtime.Stack(buf, true)
		c := 0
		for _, g := range strings.Split(string(buf[:m]), "\n\n") {
			if strings.Contains(g, "NATS-Leader-Election/leader.(*kvElection)") {
				c++
			}
		}
		return c
	}
	base := libGoroutines()
	var mu sync.Mutex
	var wg sync.WaitGroup
	sem := make(chan struct{}, 12)
	h := 100 * time.Millisecond
	for idx, pl := range plans {
		idx, pl := idx, pl
		wg.Add(1)
		sem <- struct{}{}
		go func() {
			defer wg.Done()
			defer func() { <-sem }()
			group := fmt.Sprintf("g%d-%d", rep.Seed, idx)
			desc := fmt.Sprintf("%s / %s / always=%v", pl.point, pl.action, pl.always)
			mk := func(id string, prio int, takeover bool, kv leader.KeyValue) (leader.Election, error) {
				return leader.NewElection(adapterProvider{kv}, leader.ElectionConfig{Bucket: bucket, Group: group, InstanceID: id,
					TTL: 3 * h, HeartbeatInterval: h, Priority: prio, AllowPriorityTakeover: takeover})
			}
			inc, e1 := mk(group+"-inc", 1, false, leader.NewNATSKeyValueAdapterForVerif(nkv))
			cand, e2 := mk(group+"-cand", 2, true, leader.NewNATSKeyValueAdapterForVerif(&interposedKV{KeyValue: nkv, raw: nkv, plan: pl}))
			if e1 != nil || e2 != nil {
				mu.Lock()
				rep.diff(Finding{Property: "*", Clause: "natsel-setup", Input: desc, Impl: fmt.Sprint(e1, e2)})
				mu.Unlock()
				return
			}
			var promos [2]atomic.Int32
			inc.OnPromote(func(context.Context, string) { promos[0].Add(1) })
			cand.OnPromote(func(context.Context, string) { promos[1].Add(1) })
			_ = inc.Start(context.Background())
			time.Sleep(150 * time.Millisecond)
			_ = cand.Start(context.Background())
			// nobody leads on a record that is not its own for longer than it takes a refresh or a notification to say so
			foreign := [2]int{}
			worst := ""
			for s := 0; s < 14; s++ {
				time.Sleep(50 * time.Millisecond)
				ent, gerr := nkv.Get(group)
				for k, el := range []leader.Election{inc, cand} {
					id := []string{group + "-inc", group + "-cand"}[k]
					if el.IsLeader() && gerr == nil && !strings.Contains(string(ent.Value()), `"id":"`+id+`"`) {
						foreign[k]++
						if foreign[k] >= 8 {
							worst = fmt.Sprintf("%s reports leadership for %d consecutive samples (50 ms apart) while the record reads %q", id, foreign[k], string(ent.Value()))
						}
					} else {
						foreign[k] = 0
					}
				}
			}
			stopErr := ""
			for k, el := range []leader.Election{cand, inc} {
				done := make(chan error, 1)
				go func() { done <- el.StopWithContext(context.Background(), leader.StopOptions{DeleteKey: true, Timeout: 2 * time.Second}) }()
				select {
				case <-done:
				case <-time.After(6 * time.Second):
					stopErr = fmt.Sprintf("StopWithContext of instance %d did not return within 6 s (time-out 2 s)", k)
				}
				if el.IsLeader() {
					stopErr = fmt.Sprintf("instance %d reports leadership after its stop call", k)
				}
			}
			mu.Lock()
			rep.Cases++
			rep.Compared++
			rep.hit("natsel:" + pl.point + "/" + pl.action)
			if promos[0].Load()+promos[1].Load() > 0 {
				rep.nontrivial(desc)
			}
			if worst != "" {
				rep.violation(Finding{Property: "C13", Clause: "leads-on-a-foreign-record-over-the-real-adapter", Input: desc, Detail: worst})
			}
			if stopErr != "" {
				rep.violation(Finding{Property: "C13", Clause: "hang-over-the-real-adapter", Input: desc, Detail: stopErr})
			}
			if len(rep.Samples) < 4 {
				rep.Samples = append(rep.Samples, fmt.Sprintf("%s => promotions inc=%d cand=%d", desc, promos[0].Load(), promos[1].Load()))
			}
			mu.Unlock()
		}()
	}
	wg.Wait()
	time.Sleep(400 * time.Millisecond)
	if left := libGoroutines() - base; left > 0 {
		rep.violation(Finding{Property: "C13", Clause: "goroutines-left-over-the-real-adapter", Input: fmt.Sprintf("%d interference plans", len(plans)),
			Detail: fmt.Sprintf("%d goroutines of stopped elections are still running", left)})
	}
	return nil
}
