package harness

import (
	"context"
	"encoding/json"
	"fmt"
	"go.uber.org/zap"
	"math/rand"
	"os"
	"reflect"
	"runtime"
	"sort"
	"strings"
	"sync"
	"sync/atomic"
	"testing"
	"testing/synctest"
	"time"
	"unsafe"

	"github.com/ali-assar/NATS-Leader-Election/leader"
	"github.com/nats-io/nats.go"
	"github.com/prometheus/client_golang/prometheus"
)

type InstSpec struct {
	ID          int           `json:"id"` // 1..N
	Group       string        `json:"group"`
	TTL         time.Duration `json:"ttl"`
	H           time.Duration `json:"h"`
	Val         time.Duration `json:"val"`
	Grace       time.Duration `json:"grace"`
	MaxFail     int           `json:"maxfail"`
	Prio        int           `json:"prio"`
	Takeover    bool          `json:"takeover"`
	Health      []int         `json:"health,omitempty"` // per heartbeat tick: 1 healthy, 0 unhealthy, 2 healthy after 50ms; nil = no checker; exhausted = healthy
	HasHealth   bool          `json:"hashealth,omitempty"`
	ConnMon     bool          `json:"connmon,omitempty"`
	Promote     string        `json:"promote,omitempty"` // "" return at once | "block" until the context is done | "none" no callbacks registered
	DemoteSleep time.Duration `json:"demotesleep,omitempty"`
	DemoteStops bool          `json:"demotestops,omitempty"` // the demotion callback calls Stop() itself (an application that shuts the component down when it loses leadership)
}

type Step struct {
	At         time.Duration `json:"at"`
	Kind       string        `json:"kind"`
	Inst       int           `json:"inst,omitempty"`
	Bytes      string        `json:"bytes,omitempty"` // extput
	Key        string        `json:"key,omitempty"`
	Del        bool          `json:"del,omitempty"`  // stopctx DeleteKey
	Wait       bool          `json:"wait,omitempty"` // stopctx WaitForDemote
	Timeout    time.Duration `json:"timeout,omitempty"`
	CtxTimeout time.Duration `json:"ctxtimeout,omitempty"`
	Cancelled  bool          `json:"cancelled,omitempty"` // validate / validate-or-demote: the caller's context (no deadline) is already cancelled
	N          int           `json:"n,omitempty"`
	Then       string        `json:"then,omitempty"` // API calls: the kind of a second call the same goroutine makes as soon as this one has returned ("start" after a stop)
}

// Trigger fires a step when the nth store operation of an instance reaches a phase
// ("call" = just issued, "apply" = just applied by the store), after Delay.
type Trigger struct {
	Inst  int           `json:"inst"`
	Nth   int           `json:"nth"`
	Phase string        `json:"phase"`
	Delay time.Duration `json:"delay"`
	Step  Step          `json:"step"`
}

type LatSpec struct {
	Min, Max  time.Duration
	FaultProb float64       // probability that an operation gets a fault
	Faults    []string      // kinds drawn from
	From, To  time.Duration // faults only inside this window (To == 0: always)
}

type Scenario struct {
	Name      string            `json:"name"`
	Seed      int64             `json:"seed"`
	StoreTTL  time.Duration     `json:"storettl"`
	Insts     []InstSpec        `json:"insts"`
	Steps     []Step            `json:"steps"`
	Lat       map[int]LatSpec   `json:"lat"`   // per instance (0 = default)
	Plans     map[string]OpPlan `json:"plans"` // "inst:nth" -> explicit plan
	Triggers  []Trigger         `json:"triggers,omitempty"`
	WatchMin  time.Duration     `json:"watchmin"`
	WatchMax  time.Duration     `json:"watchmax"`
	WatchDrop float64           `json:"watchdrop"`
	End       time.Duration     `json:"end"`
	Sample    time.Duration     `json:"sample"` // status sampling period (0 = only after steps)
	// what the generator promises (evaluated again by the monitors where possible)
	Responsive bool          `json:"responsive"`         // every operation answered within H/2, no faults
	NoOutside  bool          `json:"nooutside"`          // no ext writes
	NoPreempt  bool          `json:"nopreempt"`          // no instance has takeover enabled
	FaultFree  bool          `json:"faultfree"`          // all of the above + healthy + no connection events + no watch failures
	MockErrs   bool          `json:"mockerrs,omitempty"` // the store words its refusals like the package's mock
	BareSeq    bool          `json:"bareseq,omitempty"`  // a refused Create is the server's bare "wrong last sequence" error
	YieldLog   int           `json:"yieldlog,omitempty"` // k > 0: the configured Logger yields the processor on every k-th record (a log sink that takes a moment)
	SlowAll    time.Duration `json:"slowall,omitempty"`  // > 0: the sink takes up to this long over every record, whatever its level and whoever leads (when no mutex of the election is held); the trace is then checked for order, not for time
	SlowLog    time.Duration `json:"slowlog,omitempty"`  // > 0: the configured Logger takes up to this long over a warning or error record (a synchronous sink), when no mutex of the election is held
	MaxLat     time.Duration `json:"maxlat"`             // promised bound on the latency of every answered operation (0 = no promise)
	FaultsEnd  time.Duration `json:"faultsend"`          // no injected fault, partition or lost watch event after this instant (0 = there are none at all)
	ConnOnly   bool          `json:"connonly"`           // the only disturbances are connection notifications (store responsive, no outside writer, healthy)
}

func (sc *Scenario) JSON() string { b, _ := json.Marshal(sc); return string(b) }

func mix(a ...int64) int64 {
	h := int64(1469598103934665603)
	for _, x := range a {
		h ^= x
		h *= 1099511628211
		h ^= h >> 29
	}
	if h < 0 {
		h = -h
	}
	return h
}

// ---- per-instance runtime ------------------------------------------------------------------

type instRT struct {
	spec InstSpec
	el   leader.Election
	tr   *Trace
	conn *nats.Conn
	// connection notifications are delivered the way the NATS client delivers them: one dispatcher goroutine per
	// connection, one callback at a time, in the order the events occurred
	connQ  chan func()
	ctxSeq int32
	tick   int32
	mu     sync.Mutex
	// cancel function of the context handed to the latest Start ("the context is used for cancellation")
	startCancel context.CancelFunc
	// flag-phase triggers: called from inside the library's critical section (the metrics callback), with the
	// ordinal of this raise / lowering of the flag
	// the library's own Prometheus implementation, fed with every call the election makes next to the recording one
	prom     leader.Metrics
	onHook   func(phase string, nth int)
	raises   int32
	lowers   int32
	observes int32
	// stop calls of the scenario in progress on this instance
	stopsRunning int32
	apiSeq       *int32
}

// appCtx is the context an application passes to Start: it ends when the application says so, either as a cancellation or
// as a deadline that has passed (the two differ only in what Err reports).
type appCtx struct {
	context.Context
	done chan struct{}
	mu   sync.Mutex
	err  error
}

func newAppCtx() *appCtx                { return &appCtx{Context: context.Background(), done: make(chan struct{})} }
func (c *appCtx) Done() <-chan struct{} { return c.done }
func (c *appCtx) Err() error {
	c.mu.Lock()
	defer c.mu.Unlock()
	return c.err
}
func (c *appCtx) Deadline() (time.Time, bool) { return time.Time{}, false }
func (c *appCtx) end(err error) {
	c.mu.Lock()
	if c.err == nil {
		c.err = err
		close(c.done)
	}
	c.mu.Unlock()
}

// yieldLogger is a log sink that takes a moment: on every k-th record it yields the processor, which lets whatever else
// is runnable go first - a goroutine switch at a place where the library's code has none of its own.
type yieldLogger struct {
	every int64
	n     atomic.Int64
	// a sink that writes warnings and errors synchronously: the call takes a few milliseconds.  Under synctest a goroutine
	// that sleeps while it holds a mutex others are waiting for stalls virtual time, so the sink takes its time only when
	// every mutex of the election is free at that moment (the library logs inside its critical sections, too).
	slow  time.Duration
	all   time.Duration
	locks func() []sync.Locker
	// (only while the instance neither leads nor is being stopped: every bound on how fast a leader reacts, or a stop
	// call returns, is stated for code that takes no time; a sink that delays them by its own latency only shifts the bounds)
	leads func() bool
}

func (l *yieldLogger) rec(serious bool) {
	k := l.n.Add(1)
	if l.every > 0 && k%l.every == 0 {
		runtime.Gosched()
	}
	if l.all > 0 && l.locks != nil {
		if l.free() {
			d := time.Millisecond + time.Duration(uint64(mix(k, 37))%uint64(l.all))
			if uint64(mix(k, 41))%8 == 0 {
				d *= 5 // (now and then the sink stalls for good: long enough for a term to end and the next to begin)
			}
			time.Sleep(d)
		}
		return
	}
	if serious && l.slow > 0 && l.locks != nil && (l.leads == nil || !l.leads()) {
		var held []sync.Locker
		free := true
		for _, m := range l.locks() {
			if t, ok := m.(interface{ TryLock() bool }); ok && t.TryLock() {
				held = append(held, m)
			} else {
				free = false
				break
			}
		}
		for _, m := range held {
			m.Unlock()
		}
		if free {
			time.Sleep(time.Millisecond + time.Duration(uint64(mix(k, 31))%uint64(l.slow)))
		}
	}
}
// free reports whether every mutex of the election can be taken right now (and releases them again).
func (l *yieldLogger) free() bool {
	var held []sync.Locker
	ok := true
	for _, m := range l.locks() {
		if t, is := m.(interface{ TryLock() bool }); is && t.TryLock() {
			held = append(held, m)
		} else {
			ok = false
			break
		}
	}
	for _, m := range held {
		m.Unlock()
	}
	return ok
}

func (l *yieldLogger) Debug(string, ...zap.Field) { l.rec(false) }
func (l *yieldLogger) Info(string, ...zap.Field)  { l.rec(false) }
func (l *yieldLogger) Warn(string, ...zap.Field)  { l.rec(true) }
func (l *yieldLogger) Error(string, ...zap.Field) { l.rec(true) }
func (l *yieldLogger) Fatal(string, ...zap.Field) { l.rec(false) }

// libraryMutexes finds the mutexes of an election object (and of the library's own objects it points to) by reflection.
func libraryMutexes(root any) []sync.Locker {
	var out []sync.Locker
	seen := map[uintptr]bool{}
	var walk func(v reflect.Value, depth int)
	walk = func(v reflect.Value, depth int) {
		if depth > 4 {
			return
		}
		switch v.Kind() {
		case reflect.Pointer, reflect.Interface:
			if v.IsNil() {
				return
			}
			if v.Kind() == reflect.Pointer {
				if seen[v.Pointer()] {
					return
				}
				seen[v.Pointer()] = true
			}
			walk(v.Elem(), depth+1)
		case reflect.Struct:
			t := v.Type()
			if !v.CanAddr() {
				return
			}
			switch t {
			case reflect.TypeOf(sync.Mutex{}):
				out = append(out, (*sync.Mutex)(unsafe.Pointer(v.UnsafeAddr())))
				return
			case reflect.TypeOf(sync.RWMutex{}):
				out = append(out, (*sync.RWMutex)(unsafe.Pointer(v.UnsafeAddr())))
				return
			}
			if !strings.Contains(t.PkgPath(), "NATS-Leader-Election/leader") {
				return
			}
			for i := 0; i < v.NumField(); i++ {
				walk(v.Field(i), depth+1)
			}
		}
	}
	walk(reflect.ValueOf(root), 0)
	return out
}

type recMetrics struct{ rt *instRT }

func stateNum(s string) int {
	switch s {
	case "INIT":
		return 0
	case "CANDIDATE":
		return 1
	case "LEADER":
		return 2
	case "FOLLOWER":
		return 3
	case "DEMOTED":
		return 4
	case "STOPPED":
		return 5
	}
	return 9
}

// tee passes a call on to the library's Prometheus implementation; a panic there (a label set the collector does not accept)
// would kill the process in production: it is recorded instead.
func (m recMetrics) tee(method string, f func(leader.Metrics)) {
	if m.rt.prom == nil {
		return
	}
	defer func() {
		if r := recover(); r != nil {
			m.rt.tr.logf("mpanic %d %s", m.rt.spec.ID, method)
		}
	}()
	f(m.rt.prom)
}

func (m recMetrics) SetIsLeader(v float64, l prometheus.Labels) {
	m.tee("SetIsLeader", func(p leader.Metrics) { p.SetIsLeader(v, l) })
	e := m.rt.el
	b := 0
	if v != 0 {
		b = 1
	}
	il := 0
	if e != nil && e.IsLeader() {
		il = 1
	}
	tok, lid := 0, 0
	if e != nil {
		tok, lid = m.rt.tr.tok(e.Token()), m.rt.tr.id(e.LeaderID())
	}
	m.rt.tr.logf("flag %d %d %d %d %d", m.rt.spec.ID, b, il, tok, lid)
	if f := m.rt.onHook; f != nil {
		if b == 1 {
			f("flag", int(atomic.AddInt32(&m.rt.raises, 1)))
		} else if il == 0 {
			f("unflag", int(atomic.AddInt32(&m.rt.lowers, 1)))
		}
	}
}
func (m recMetrics) SetConnectionStatus(v float64, l prometheus.Labels) {
	m.tee("SetConnectionStatus", func(p leader.Metrics) { p.SetConnectionStatus(v, l) })
}
func (m recMetrics) IncTransitions(l prometheus.Labels) {
	m.tee("IncTransitions", func(p leader.Metrics) { p.IncTransitions(l) })
	m.rt.tr.logf("trans %d %d %d", m.rt.spec.ID, stateNum(l["from_state"]), stateNum(l["to_state"]))
}
func (m recMetrics) IncFailures(l prometheus.Labels) {
	m.tee("IncFailures", func(p leader.Metrics) { p.IncFailures(l) })
}
func (m recMetrics) IncAcquireAttempts(l prometheus.Labels) {
	m.tee("IncAcquireAttempts", func(p leader.Metrics) { p.IncAcquireAttempts(l) })
}
func (m recMetrics) IncTokenValidationFailures(l prometheus.Labels) {
	m.tee("IncTokenValidationFailures", func(p leader.Metrics) { p.IncTokenValidationFailures(l) })
}
func (m recMetrics) ObserveHeartbeatDuration(d time.Duration, l prometheus.Labels) {
	m.tee("ObserveHeartbeatDuration", func(p leader.Metrics) { p.ObserveHeartbeatDuration(d, l) })
}

// ObserveLeaderDuration is called when a term ends, inside the critical section and before the flag is lowered.
func (m recMetrics) ObserveLeaderDuration(d time.Duration, l prometheus.Labels) {
	m.tee("ObserveLeaderDuration", func(p leader.Metrics) { p.ObserveLeaderDuration(d, l) })
	m.rt.tr.logf("observe %d", m.rt.spec.ID)
	if f := m.rt.onHook; f != nil {
		f("observe", int(atomic.AddInt32(&m.rt.observes, 1)))
	}
}

type scriptedHealth struct{ rt *instRT }

func (h scriptedHealth) Check(ctx context.Context) bool {
	k := int(atomic.AddInt32(&h.rt.tick, 1)) - 1
	r := 1
	if k < len(h.rt.spec.Health) {
		r = h.rt.spec.Health[k]
	}
	dl, ok := ctx.Deadline()
	rem := int64(-1)
	if ok {
		rem = int64(time.Until(dl))
	}
	if r == 2 {
		time.Sleep(50 * time.Millisecond)
	}
	if r == 3 {
		time.Sleep(95 * time.Millisecond)
	}
	if r == 4 || r == 5 {
		// a checker that takes all the time it is given: it answers when its context expires (4: healthy, 5: unhealthy)
		<-ctx.Done()
	}
	res := 1
	if r == 0 || r == 5 {
		res = 0
	}
	h.rt.tr.logf("health %d %d %d %d", h.rt.spec.ID, k, res, rem)
	return res == 1
}

// ---- running one scenario ------------------------------------------------------------------

type ScenarioResult struct {
	Trace []string
	Hung  bool
	Panic string
	Gor   int
}

var watchdogSeconds = 60

func runScenario(t *testing.T, sc *Scenario) (res *ScenarioResult) {
	// (named result: the deferred recover below must still hand the result back when the bubble panics)
	res = &ScenarioResult{}
	seedLibraryRand(mix(sc.Seed, 4242))
	var tr *Trace
	doneWall := make(chan struct{})
	// wall-clock watchdog: a mutex deadlock makes the bubble hang rather than fail
	go func() {
		select {
		case <-doneWall:
		case <-time.After(time.Duration(watchdogSeconds) * time.Second):
			if p := os.Getenv("NLE_OUT"); p != "" {
				lines := []string{}
				if tr != nil {
					tr.mu.Lock()
					lines = append(lines, tr.Lines...)
					tr.mu.Unlock()
				}
				buf := make([]byte, 1<<20)
				n := runtime.Stack(buf, true)
				os.WriteFile(p+"/HANG.json", []byte(fmt.Sprintf("{\"scenario\":%s,\"trace_tail\":%q,\"stacks\":%q}", sc.JSON(),
					strings.Join(tail(lines, 60), "\n"), filterStacks(string(buf[:n])))), 0o644)
			}
			fmt.Fprintf(os.Stderr, "NLE-HANG scenario=%s\n", sc.Name)
			os.Exit(3)
		}
	}()
	defer func() {
		// a bubble whose goroutines never exit makes synctest.Test panic ("deadlock"); the leak itself has
		// already been recorded as `gor n`
		if r := recover(); r != nil {
			res.Panic = fmt.Sprint(r)
			if tr != nil && res.Trace == nil {
				tr.mu.Lock()
				res.Trace = append(append([]string{}, tr.Lines...), fmt.Sprintf("%d panic 0 bubble", tr.now()))
				tr.mu.Unlock()
			}
			select {
			case <-doneWall:
			default:
				close(doneWall)
			}
		}
	}()
	synctest.Test(t, func(t *testing.T) {
		tr = newTrace()
		store := newRefStore(tr, sc.StoreTTL)
		store.mockErrs = sc.MockErrs
		store.bareSeq = sc.BareSeq
		store.planFn = func(inst int, op string, nth int) OpPlan {
			if p, ok := sc.Plans[fmt.Sprintf("%d:%d", inst, nth)]; ok {
				return p
			}
			ls, ok := sc.Lat[inst]
			if !ok {
				ls = sc.Lat[0]
			}
			r := rand.New(rand.NewSource(mix(sc.Seed, int64(inst), int64(nth), 7)))
			var p OpPlan
			span := int64(ls.Max - ls.Min)
			tot := ls.Min
			if span > 0 {
				tot += time.Duration(r.Int63n(span))
			}
			// keep scripted delays on odd nanosecond residues so that ties arise only from the code's own timers
			tot = tot/2*2 + 1
			p.Pre = time.Duration(r.Int63n(int64(tot)+1)) / 2 * 2
			p.Post = tot - p.Pre
			now := time.Duration(tr.now())
			if ls.FaultProb > 0 && r.Float64() < ls.FaultProb && len(ls.Faults) > 0 && now >= ls.From && (ls.To == 0 || now < ls.To) {
				p.Fault = ls.Faults[r.Intn(len(ls.Faults))]
				p.Err = []string{"timeout", "noresponders", "closed"}[r.Intn(3)]
			}
			return p
		}
		store.wplanFn = func(inst int, nth int) (time.Duration, bool) {
			r := rand.New(rand.NewSource(mix(sc.Seed, int64(inst), int64(nth), 13)))
			d := sc.WatchMin
			if sc.WatchMax > sc.WatchMin {
				d += time.Duration(r.Int63n(int64(sc.WatchMax - sc.WatchMin)))
			}
			d = d/2*2 + 1
			return d, sc.WatchDrop > 0 && r.Float64() < sc.WatchDrop
		}
		var wg sync.WaitGroup
		rts := map[int]*instRT{}
		for _, is := range sc.Insts {
			tr.registerID(fmt.Sprintf("i%d", is.ID), is.ID)
		}
		// one registry per scenario, as one process would have: every election reports into the same collectors
		reg := prometheus.NewRegistry()
		prom := leader.NewPrometheusMetrics(reg)
		for _, is := range sc.Insts {
			rt := &instRT{spec: is, tr: tr, prom: prom}
			b2i := func(b bool) int {
				if b {
					return 1
				}
				return 0
			}
			tr.headerf("inst %d %s %d %d %d %d %d %d %d %d %d %d %d", is.ID, is.Group, is.Prio, b2i(is.Takeover), int64(is.H), int64(is.TTL),
				int64(is.Val), int64(is.Grace), is.MaxFail, b2i(is.HasHealth), b2i(is.ConnMon), int64(sc.StoreTTL), b2i(is.Promote != "none"))
			cfg := leader.ElectionConfig{Bucket: "b", Group: is.Group, InstanceID: fmt.Sprintf("i%d", is.ID), TTL: is.TTL, HeartbeatInterval: is.H,
				ValidationInterval: is.Val, DisconnectGracePeriod: is.Grace, MaxConsecutiveFailures: is.MaxFail, Priority: is.Prio,
				AllowPriorityTakeover: is.Takeover, Metrics: recMetrics{rt}}
			if is.HasHealth {
				cfg.HealthChecker = scriptedHealth{rt}
			}
			var ylog *yieldLogger
			if sc.YieldLog > 0 || sc.SlowLog > 0 || sc.SlowAll > 0 {
				ylog = &yieldLogger{every: int64(sc.YieldLog), slow: sc.SlowLog, all: sc.SlowAll}
				cfg.Logger = ylog
			}
			var prov leader.JetStreamProvider
			cl := store.client(is.ID)
			if is.ConnMon {
				rt.conn = &nats.Conn{}
				rt.connQ = make(chan func(), 256)
				wg.Add(1)
				go func(q chan func()) {
					defer wg.Done()
					for f := range q {
						f()
					}
				}(rt.connQ)
				prov = &refConnProvider{refProvider{cl, rt.conn}}
			} else {
				prov = &refProvider{c: cl}
			}
			el, err := leader.NewElection(prov, cfg)
			if err != nil {
				tr.logf("newerr %d", is.ID)
				continue
			}
			rt.el = el
			if ylog != nil && (ylog.slow > 0 || ylog.all > 0) {
				ms := libraryMutexes(el)
				if len(ms) > 0 {
					ylog.locks = func() []sync.Locker { return ms }
					ylog.leads = func() bool { return el.IsLeader() || atomic.LoadInt32(&rt.stopsRunning) > 0 }
				}
			}
			if is.Promote != "none" {
				registerCallbacks(rt)
			}
			rts[is.ID] = rt
		}
		b2i := func(b bool) int {
			if b {
				return 1
			}
			return 0
		}
		tr.headerf("hyp %d %d %d %d %d %d %d", b2i(sc.Responsive), b2i(sc.NoOutside), b2i(sc.NoPreempt), b2i(sc.FaultFree), b2i(sc.ConnOnly), int64(sc.MaxLat), int64(sc.FaultsEnd))
		if sc.SlowAll > 0 {
			tr.headerf("slowsink")
		}
		var apiSeq int32
		for _, rt := range rts {
			if rt != nil {
				rt.apiSeq = &apiSeq
			}
		}
		steps := append([]Step(nil), sc.Steps...)
		sort.SliceStable(steps, func(i, j int) bool { return steps[i].At < steps[j].At })
		sampleAll := func() {
			synctest.Wait()
			for _, is := range sc.Insts {
				if rt := rts[is.ID]; rt != nil {
					st := rt.el.Status()
					il := 0
					if st.IsLeader {
						il = 1
					}
					il2 := 0
					if rt.el.IsLeader() {
						il2 = 1
					}
					tr.logf("status %d %d %d %d %d %d %d", is.ID, stateNum(st.State), il, tr.id(st.LeaderID), tr.tok(st.Token), st.Revision, il2)
				}
			}
		}
		store.trigger = func(inst, nth int, phase string) {
			if tr.over.Load() {
				return // (the scenario has ended: the tear-down's own stop calls trigger nothing)
			}
			for _, tg := range sc.Triggers {
				if tg.Inst == inst && tg.Nth == nth && tg.Phase == phase {
					tg := tg
					wg.Add(1)
					go func() {
						defer wg.Done()
						if tg.Delay > 0 {
							time.Sleep(tg.Delay)
						}
						execStep(tr, store, rts, tg.Step, &apiSeq, &wg)
					}()
				}
			}
		}
		// triggers of phase "flag" / "unflag" / "observe" (metrics callbacks): the step's API call or notification is issued by
		// another goroutine while the library is still inside the critical section that raised (lowered, is about to lower) the flag; the hook yields until that goroutine is parked
		// on the election's mutex, so the call is the first thing to run when the critical section ends
		for _, is := range sc.Insts {
			rt := rts[is.ID]
			if rt == nil {
				continue
			}
			id := is.ID
			rt.onHook = func(phase string, nth int) {
				if tr.over.Load() {
					return
				}
				fired := false
				for _, tg := range sc.Triggers {
					if tg.Inst == id && tg.Nth == nth && tg.Phase == phase {
						execStep(tr, store, rts, tg.Step, &apiSeq, &wg)
						fired = true
					}
				}
				if fired {
					for k := 0; k < 4; k++ {
						runtime.Gosched()
					}
				}
			}
		}
		nextSample := sc.Sample
		for si, st := range steps {
			for sc.Sample > 0 && nextSample < st.At {
				time.Sleep(nextSample - time.Duration(tr.now()))
				sampleAll()
				nextSample += sc.Sample
			}
			if d := st.At - time.Duration(tr.now()); d > 0 {
				time.Sleep(d)
			}
			execStep(tr, store, rts, st, &apiSeq, &wg)
			if si+1 < len(steps) && steps[si+1].At == st.At && st.Kind != "start" {
				continue // (steps of the same instant are issued back to back: no quiescent point in between)
			}
			sampleAll()
		}
		for sc.Sample > 0 && nextSample < sc.End {
			time.Sleep(nextSample - time.Duration(tr.now()))
			sampleAll()
			nextSample += sc.Sample
		}
		if d := sc.End - time.Duration(tr.now()); d > 0 {
			time.Sleep(d)
		}
		sampleAll()
		scrape(tr, reg, sc)
		tr.logf("end")
		tr.over.Store(true)
		// tear down: stop everything so that the bubble can exit
		for _, is := range sc.Insts {
			if rt := rts[is.ID]; rt != nil {
				func() {
					defer func() { recover() }()
					rt.el.Stop()
				}()
			}
		}
		close(store.done)
		for _, rt := range rts {
			if rt != nil && rt.connQ != nil {
				close(rt.connQ)
			}
		}
		wg.Wait()
		// keep the root goroutine alive while in-flight operations return and background goroutines wind down
		// (virtual time stops once the root goroutine has exited)
		// (30 virtual seconds in all; the waits double - counting goroutines means dumping every stack)
		for k, w := 0, 100*time.Millisecond; k < 12; k++ {
			synctest.Wait()
			if libraryGoroutines() == 0 {
				break
			}
			time.Sleep(w)
			if w < 8*time.Second {
				w *= 2
			}
		}
		res.Gor = libraryGoroutines()
		tr.logf("gor %d", res.Gor)
		if res.Gor == 0 {
			// every instance has been stopped and every goroutine of the library has returned: a watcher that the library
			// was given and did not stop is a subscription left open on the server
			tr.logf("wleft %d", store.openWatchers())
		}
		res.Trace = tr.Lines
	})
	close(doneWall)
	return res
}

// scrape reads the real registry the way a Prometheus server would: the is-leader gauge of every instance and the sum of its
// transition counters.
func scrape(tr *Trace, reg *prometheus.Registry, sc *Scenario) {
	if reg == nil {
		return
	}
	fams, err := reg.Gather()
	if err != nil {
		tr.logf("mpanic 0 Gather")
		return
	}
	for _, is := range sc.Insts {
		gauge, trans := -1, 0
		for _, f := range fams {
			for _, mt := range f.GetMetric() {
				lab := map[string]string{}
				for _, lp := range mt.GetLabel() {
					lab[lp.GetName()] = lp.GetValue()
				}
				if lab["instance_id"] != fmt.Sprintf("i%d", is.ID) || lab["role"] != is.Group || lab["bucket"] != "b" {
					continue
				}
				switch f.GetName() {
				case "election_is_leader":
					gauge = int(mt.GetGauge().GetValue())
				case "election_transitions_total":
					trans += int(mt.GetCounter().GetValue())
				}
			}
		}
		tr.logf("promgauge %d %d", is.ID, gauge)
		tr.logf("promtrans %d %d", is.ID, trans)
	}
}

func tail(xs []string, n int) []string {
	if len(xs) > n {
		return xs[len(xs)-n:]
	}
	return xs
}

func filterStacks(s string) string {
	var keep []string
	for _, g := range strings.Split(s, "\n\n") {
		if strings.Contains(g, "NATS-Leader-Election/leader.") {
			keep = append(keep, g)
		}
	}
	return strings.Join(keep, "\n\n")
}

// libraryGoroutines counts goroutines that are executing library code.
func libraryGoroutines() int {
	buf := make([]byte, 1<<20)
	n := runtime.Stack(buf, true)
	c := 0
	for _, g := range strings.Split(string(buf[:n]), "\n\n") {
		if strings.Contains(g, "NATS-Leader-Election/leader.") {
			c++
		}
	}
	return c
}

func registerCallbacks(rt *instRT) {
	tr := rt.tr
	id := rt.spec.ID
	rt.el.OnPromote(func(ctx context.Context, token string) {
		cid := int(atomic.AddInt32(&rt.ctxSeq, 1))
		done := 0
		if ctx.Err() != nil {
			done = 1
		}
		tr.logf("promote %d %d %d %d", id, tr.tok(token), cid, done)
		if rt.spec.Promote == "slow" {
			// a callback that ignores its context for longer than Stop is willing to wait (5 s)
			go func() {
				<-ctx.Done()
				tr.logf("ctxdone %d %d", id, cid)
			}()
			time.Sleep(6 * time.Second)
			tr.logf("promote-ret %d %d", id, cid)
			return
		}
		if rt.spec.Promote == "sleep" {
			// a callback that ignores its context for a while
			go func() {
				<-ctx.Done()
				tr.logf("ctxdone %d %d", id, cid)
			}()
			time.Sleep(3 * time.Second)
			tr.logf("promote-ret %d %d", id, cid)
			return
		}
		if rt.spec.Promote == "block" {
			<-ctx.Done()
			tr.logf("ctxdone %d %d", id, cid)
			tr.logf("promote-ret %d %d", id, cid)
			return
		}
		go func() {
			<-ctx.Done()
			tr.logf("ctxdone %d %d", id, cid)
		}()
		tr.logf("promote-ret %d %d", id, cid)
	})
	rt.el.OnDemote(func() {
		tr.logf("demote %d", id)
		if rt.spec.DemoteSleep > 0 {
			time.Sleep(rt.spec.DemoteSleep)
		}
		if rt.spec.DemoteStops && rt.apiSeq != nil && !tr.over.Load() {
			// (from the goroutine the library runs the callback on)
			n := int(atomic.AddInt32(rt.apiSeq, 1))
			tr.logf("api %d %d stop", n, id)
			atomic.AddInt32(&rt.stopsRunning, 1)
			err := rt.el.Stop()
			atomic.AddInt32(&rt.stopsRunning, -1)
			r := "ok"
			if err != nil {
				r = "err"
				if err == leader.ErrAlreadyStopped {
					r = "already-stopped"
				}
			}
			tr.logf("apiret %d %d %s", n, id, r)
		}
	})
}

func execStep(tr *Trace, store *RefStore, rts map[int]*instRT, st Step, apiSeq *int32, wg *sync.WaitGroup) {
	rt := rts[st.Inst]
	api := func(desc string, f func() string) {
		n := int(atomic.AddInt32(apiSeq, 1))
		tr.logf("api %d %d %s", n, st.Inst, desc)
		wg.Add(1)
		go func() {
			defer wg.Done()
			defer func() {
				if r := recover(); r != nil {
					tr.logf("panic %d api", st.Inst)
				}
			}()
			r := f()
			tr.logf("apiret %d %d %s", n, st.Inst, r)
			if st.Then != "" && !tr.over.Load() {
				// the application goes on at once: the next call is made by the goroutine the first one returned to
				execStep(tr, store, rts, Step{At: st.At, Kind: st.Then, Inst: st.Inst}, apiSeq, wg)
			}
		}()
	}
	errs := func(err error) string {
		switch {
		case err == nil:
			return "ok"
		case err == leader.ErrAlreadyStarted:
			return "already-started"
		case err == leader.ErrAlreadyStopped:
			return "already-stopped"
		case err == leader.ErrNotLeader:
			return "not-leader"
		}
		return "err"
	}
	switch st.Kind {
	case "start":
		if rt == nil {
			return
		}
		api("start", func() string {
			// (how this run's context will end, if the scenario ends it: every third start gets a deadline flavour)
			// (a context of the standard library's own kind passes its cancellation on to the contexts derived from it before
			// cancel returns; a foreign implementation does so through a goroutine, a moment later)
			var ac context.Context
			var cancel func()
			if (int(st.At/time.Millisecond)+st.Inst)%3 == 0 {
				c := newAppCtx()
				ac, cancel = c, func() { c.end(context.DeadlineExceeded) }
			} else {
				ac, cancel = context.WithCancel(context.Background())
			}
			err := rt.el.Start(ac)
			if err == nil {
				rt.mu.Lock()
				rt.startCancel = cancel
				rt.mu.Unlock()
			} else {
				cancel()
			}
			return errs(err)
		})
	case "latewev":
		// a notification of an earlier version of the record, written by somebody else, reaches the instance's watcher now
		if rt == nil {
			return
		}
		store.lateEvent(st.Inst, rt.spec.Group)
	case "rereg":
		// the application registers its callbacks again (the same functions)
		if rt == nil || rt.spec.Promote == "none" {
			return
		}
		registerCallbacks(rt)
	case "cancelctx":
		// the application cancels the context it passed to Start
		if rt == nil {
			return
		}
		rt.mu.Lock()
		c := rt.startCancel
		rt.mu.Unlock()
		tr.logf("cancelctx %d", st.Inst)
		if c != nil {
			c()
		}
	case "snap":
		// one Status() call from a goroutine of its own, concurrent with whatever the library is doing
		if rt == nil {
			return
		}
		wg.Add(1)
		go func() {
			defer wg.Done()
			sn := rt.el.Status()
			il := 0
			if sn.IsLeader {
				il = 1
			}
			tr.logf("snap %d %d %d %d %d", st.Inst, stateNum(sn.State), il, tr.id(sn.LeaderID), tr.tok(sn.Token))
		}()
	case "cancelstart":
		// the application cancels the context it passed to Start and starts the election again in the same breath -
		// before the library's own reaction to the cancellation has had a chance to run
		if rt == nil {
			return
		}
		rt.mu.Lock()
		c := rt.startCancel
		rt.mu.Unlock()
		tr.logf("cancelctx %d", st.Inst)
		if c != nil {
			c()
		}
		n := int(atomic.AddInt32(apiSeq, 1))
		tr.logf("api %d %d start", n, st.Inst)
		ctx, cancel := context.WithCancel(context.Background())
		err := rt.el.Start(ctx)
		if err == nil {
			rt.mu.Lock()
			rt.startCancel = cancel
			rt.mu.Unlock()
		} else {
			cancel()
		}
		tr.logf("apiret %d %d %s", n, st.Inst, errs(err))
	case "stop":
		if rt == nil {
			return
		}
		api("stop", func() string {
			atomic.AddInt32(&rt.stopsRunning, 1)
			defer atomic.AddInt32(&rt.stopsRunning, -1)
			return errs(rt.el.Stop())
		})
	case "stopctx":
		if rt == nil {
			return
		}
		b2i := func(b bool) int {
			if b {
				return 1
			}
			return 0
		}
		api(fmt.Sprintf("stopctx %d %d %d %d", b2i(st.Del), b2i(st.Wait), int64(st.Timeout), int64(st.CtxTimeout)), func() string {
			ctx := context.Background()
			if st.CtxTimeout > 0 {
				var cancel context.CancelFunc
				ctx, cancel = context.WithTimeout(ctx, st.CtxTimeout)
				defer cancel()
			}
			atomic.AddInt32(&rt.stopsRunning, 1)
			defer atomic.AddInt32(&rt.stopsRunning, -1)
			return errs(rt.el.StopWithContext(ctx, leader.StopOptions{DeleteKey: st.Del, WaitForDemote: st.Wait, Timeout: st.Timeout}))
		})
	case "validate":
		if rt == nil {
			return
		}
		if st.Cancelled {
			// (in the trace a context time-out of 1 ns stands for "cancelled before the call")
			api("validate 1", func() string {
				ctx, cancel := context.WithCancel(context.Background())
				cancel()
				tok := tr.tok(rt.el.Token())
				ok, err := rt.el.ValidateToken(ctx)
				if ok {
					return fmt.Sprintf("val true %d", tok)
				}
				return fmt.Sprintf("val false %d %s", tok, errs(err))
			})
			return
		}
		api(fmt.Sprintf("validate %d", int64(st.CtxTimeout)), func() string {
			ctx := context.Background()
			if st.CtxTimeout > 0 {
				var cancel context.CancelFunc
				ctx, cancel = context.WithTimeout(ctx, st.CtxTimeout)
				defer cancel()
			}
			tok := tr.tok(rt.el.Token())
			ok, err := rt.el.ValidateToken(ctx)
			if ok {
				return fmt.Sprintf("val true %d", tok)
			}
			return fmt.Sprintf("val false %d %s", tok, errs(err))
		})
	case "validate-or-demote":
		if rt == nil {
			return
		}
		cto := int64(st.CtxTimeout)
		if st.Cancelled {
			cto = 1 // (in the trace a context time-out of 1 ns stands for "cancelled before the call")
		}
		api(fmt.Sprintf("validate-or-demote %d", cto), func() string {
			ctx := context.Background()
			if st.Cancelled {
				var cancel context.CancelFunc
				ctx, cancel = context.WithCancel(ctx)
				cancel()
			} else if st.CtxTimeout > 0 {
				var cancel context.CancelFunc
				ctx, cancel = context.WithTimeout(ctx, st.CtxTimeout)
				defer cancel()
			}
			tok := tr.tok(rt.el.Token())
			ok := rt.el.ValidateTokenOrDemote(ctx)
			il := 0
			if rt.el.IsLeader() {
				il = 1
			}
			if ok {
				return fmt.Sprintf("vod 1 %d %d", tok, il)
			}
			return fmt.Sprintf("vod 0 %d %d", tok, il)
		})
	case "crash":
		store.mu.Lock()
		store.dead[st.Inst] = true
		store.mu.Unlock()
		tr.logf("crash %d", st.Inst)
	case "partition":
		store.mu.Lock()
		store.cut[st.Inst] = st.N == 1
		store.mu.Unlock()
		tr.logf("partition %d %d", st.Inst, st.N)
	case "extput":
		// "$TOKn" stands for the fencing token instance n holds right now (an outside party that has learnt it)
		b := st.Bytes
		for id, r := range rts {
			if r == nil || r.el == nil {
				continue
			}
			// ("$UPTOKn", "$BRTOKn", "$URNTOKn", "$RAWTOKn": the same token written another way - upper case, in braces, as
			//  a URN, without hyphens: other strings, whatever a UUID parser makes of them)
			tok := r.el.Token()
			for name, v := range map[string]string{"$UPTOK": strings.ToUpper(tok), "$BRTOK": "{" + tok + "}", "$URNTOK": "urn:uuid:" + tok,
				"$RAWTOK": strings.ReplaceAll(tok, "-", "")} {
				if tok != "" {
					b = strings.ReplaceAll(b, fmt.Sprintf("%s%d", name, id), v)
				}
			}
			if strings.Contains(b, fmt.Sprintf("$TOK%d", id)) {
				b = strings.ReplaceAll(b, fmt.Sprintf("$TOK%d", id), tok)
			}
		}
		store.extPut(st.Key, []byte(b))
	case "extdelete":
		store.extDelete(st.Key)
	case "watchfail":
		store.mu.Lock()
		store.watchFail[st.Inst] = st.N
		store.mu.Unlock()
		tr.logf("watchfail %d %d", st.Inst, st.N)
	case "disconnect", "reconnect", "closed":
		if rt == nil || rt.conn == nil {
			return
		}
		defer func() { recover() }() // (a notification after the tear-down has closed the queue)
		rt.connQ <- func() {
			// (recorded when the dispatcher gets to it: a callback that takes its time holds up the ones behind it)
			tr.logf("conn %d %s", st.Inst, st.Kind)
			defer func() {
				if r := recover(); r != nil {
					tr.logf("panic %d conn", st.Inst)
				}
			}()
			switch st.Kind {
			case "disconnect":
				if cb := rt.conn.Opts.DisconnectedErrCB; cb != nil {
					cb(rt.conn, nil)
				} else if cb := rt.conn.Opts.DisconnectedCB; cb != nil {
					cb(rt.conn)
				}
			case "reconnect":
				if cb := rt.conn.Opts.ReconnectedCB; cb != nil {
					cb(rt.conn)
				}
			case "closed":
				if cb := rt.conn.Opts.ClosedCB; cb != nil {
					cb(rt.conn)
				}
			}
		}
	}
}
