//go:build verif

package harness

import (
	"errors"
	"context"
	"fmt"
	"math/rand"
	"runtime"
	"strings"
	"sync"
	"time"

	"github.com/ali-assar/NATS-Leader-Election/leader"
	"github.com/nats-io/nats.go"
)

type natsOp struct {
	Kind string // create update get delete sleep watch drain
	Val  string
	Rev  string // for update: latest | stale | bogus
}

func genNatsOps(rng *rand.Rand, withExpiry bool) []natsOp {
	n := 6 + rng.Intn(14)
	var ops []natsOp
	if rng.Intn(2) == 0 {
		ops = append(ops, natsOp{Kind: "watch"})
	}
	expiries := 0
	naps := 0
	if rng.Intn(3) > 0 {
		naps = 1 // (most sequences have none: a nap costs a quarter of a second)
	}
	for i := 0; i < n; i++ {
		if naps == 0 && i > 0 && rng.Intn(8) == 0 && (ops[len(ops)-1].Kind == "create" || ops[len(ops)-1].Kind == "update") {
			// longer than the TTL the caller passes as an option, shorter than the bucket's: the value is still live (the
			// adapter leaves expiry to the bucket), a Create is refused, an Update with the latest revision goes through
			ops = append(ops, natsOp{Kind: "nap"}, natsOp{Kind: []string{"create", "create", "get", "update"}[rng.Intn(4)], Val: fmt.Sprintf("n%d", i), Rev: "latest"})
			naps++
			continue
		}
		switch rng.Intn(12) {
		case 0, 1, 2:
			v := fmt.Sprintf("v%d-%d", i, rng.Intn(1000))
			ops = append(ops, natsOp{Kind: "create", Val: v})
			if rng.Intn(3) == 0 {
				// the very same bytes again (a retried Create): refused like any other while the key is live
				ops = append(ops, natsOp{Kind: "create", Val: v})
			}
		case 3, 4, 5, 6:
			if rng.Intn(6) == 0 && len(ops) > 0 && (ops[len(ops)-1].Kind == "create" || ops[len(ops)-1].Kind == "update") {
				// an Update (latest revision) or a Create that writes the bytes that are already there
				ops = append(ops, natsOp{Kind: []string{"create", "update"}[rng.Intn(2)], Val: ops[len(ops)-1].Val, Rev: "latest"})
				continue
			}
			ops = append(ops, natsOp{Kind: "update", Val: fmt.Sprintf("u%d-%d", i, rng.Intn(1000)), Rev: []string{"latest", "latest", "latest", "stale", "bogus"}[rng.Intn(5)]})
		case 7, 8:
			ops = append(ops, natsOp{Kind: "get"})
		case 9:
			ops = append(ops, natsOp{Kind: "delete"})
		case 10:
			if withExpiry && expiries < 1 {
				ops = append(ops, natsOp{Kind: "sleep"})
				expiries++
			} else {
				ops = append(ops, natsOp{Kind: "get"})
			}
		default:
			if rng.Intn(2) == 0 {
				ops = append(ops, natsOp{Kind: "watch"})
			} else {
				ops = append(ops, natsOp{Kind: "drain"})
			}
		}
	}
	ops = append(ops, natsOp{Kind: "drain"})
	return ops
}

type kvRunner struct {
	kv      leader.KeyValue
	key     string
	base    uint64 // revision offset: first successful write maps to 1
	hasBase bool
	last    uint64 // latest revision seen (absolute)
	prev    uint64 // a stale revision (absolute)
	w       leader.Watcher
	wch     <-chan leader.Entry
	stable  bool
	seen    []uint64
	opt     []interface{} // what the election passes along with every Create and Update: its configured TTL
}

// norm maps absolute revisions to their rank among the revisions seen for this key (the bucket's sequence is
// shared by all keys); revisions must be seen in increasing order, except re-reads of known ones.
func (r *kvRunner) norm(rev uint64) uint64 {
	for i, x := range r.seen {
		if x == rev {
			return uint64(i + 1)
		}
	}
	if len(r.seen) > 0 && rev < r.seen[len(r.seen)-1] {
		return 0 // out of order
	}
	r.seen = append(r.seen, rev)
	r.hasBase = true
	return uint64(len(r.seen))
}

// run executes one op and returns a canonical result string.
func (r *kvRunner) run(op natsOp, ttl time.Duration) string {
	switch op.Kind {
	case "nap":
		time.Sleep(ttl/6 + 50*time.Millisecond)
		return "nap"
	case "create":
		rev, err := r.kv.Create(r.key, []byte(op.Val), r.opt...)
		if err != nil {
			return "create err " + errKind(err)
		}
		r.prev, r.last = r.last, rev
		return fmt.Sprintf("create ok %d", r.norm(rev))
	case "update":
		exp := r.last
		switch op.Rev {
		case "stale":
			exp = r.prev
		case "bogus":
			exp = r.last + 1000
		}
		rev, err := r.kv.Update(r.key, []byte(op.Val), exp, r.opt...)
		if err != nil {
			return "update " + op.Rev + " err " + errKind(err)
		}
		r.prev, r.last = r.last, rev
		return fmt.Sprintf("update %s ok %d", op.Rev, r.norm(rev))
	case "get":
		e, err := r.kv.Get(r.key)
		if err != nil {
			return "get err " + errKind(err)
		}
		if e == nil {
			return "get nil"
		}
		return fmt.Sprintf("get ok %d %s", r.norm(e.Revision()), e.Value())
	case "delete":
		err := r.kv.Delete(r.key)
		if err != nil {
			return "delete err " + errKind(err)
		}
		// the delete marker's revision is not reported: later updates present the last known revision (now stale)
		return "delete ok"
	case "sleep":
		time.Sleep(ttl + ttl/3)
		return "sleep"
	case "watch":
		if r.w != nil {
			r.w.Stop()
		}
		w, err := r.kv.Watch(r.key)
		if err != nil {
			return "watch err " + errKind(err)
		}
		r.w = w
		r.wch = w.Updates()
		r.stable = true
		return "watch ok"
	case "drain":
		if r.w == nil {
			return "drain -"
		}
		var evs []string
		deadline := time.After(150 * time.Millisecond)
	loop:
		for {
			// the election's old watch loop called Updates() once per select: the channel must be the same every time
			ch := r.w.Updates()
			if ch != r.wch {
				r.stable = false
			}
			select {
			case e, ok := <-r.wch:
				if !ok {
					evs = append(evs, "closed")
					break loop
				}
				if e == nil {
					evs = append(evs, "nil")
				} else if len(e.Value()) == 0 {
					evs = append(evs, fmt.Sprintf("%d:<empty>", r.norm(e.Revision())))
				} else {
					evs = append(evs, fmt.Sprintf("%d:%s", r.norm(e.Revision()), e.Value()))
				}
			case <-deadline:
				break loop
			}
		}
		return "drain " + strings.Join(evs, ",")
	}
	return "?"
}

func goroutinesIn(sub string) int {
	buf := make([]byte, 1<<20)
	n := runtime.Stack(buf, true)
	c := 0
	for _, g := range strings.Split(string(buf[:n]), "\n\n") {
		if strings.Contains(g, sub) {
			c++
		}
	}
	return c
}

func runNATS(rep *Report, rng *rand.Rand, n int, thorough bool) error {
	ctx, cancel := context.WithCancel(context.Background())
	defer cancel()
	srv, err := leader.StartEmbeddedNATSServer(ctx)
	if err != nil {
		return fmt.Errorf("embedded nats-server: %w", err)
	}
	defer leader.StopEmbeddedNATSServer(srv)
	nc, err := nats.Connect(srv.ClientURL())
	if err != nil {
		return err
	}
	defer nc.Close()
	ttl := 1200 * time.Millisecond
	bucket := "verif"
	if err := leader.CreateKVBucket(nc, bucket, ttl); err != nil {
		return err
	}
	nkv, err := leader.GetKVBucket(nc, bucket)
	if err != nil {
		return err
	}
	adapter := leader.NewNATSKeyValueAdapterForVerif(nkv)

	// C15: the errors the real client returns for the two conflicts
	{
		k := "c15-conflict"
		rev, _ := adapter.Create(k, []byte("a"))
		_, e1 := adapter.Create(k, []byte("b"))
		_, e2 := adapter.Update(k, []byte("c"), rev+7)
		for _, c := range []struct {
			name string
			err  error
		}{{"create-on-existing-key", e1}, {"update-with-stale-revision", e2}} {
			rep.Cases++
			if c.err == nil {
				rep.diff(Finding{Property: "*", Clause: "nats-conflict-expected", Input: c.name, Impl: "nil error"})
				continue
			}
			rep.hit("c15:" + c.name)
			rep.sample(c.name + " => " + c.err.Error())
			if !leader.IsPermanentError(c.err) || leader.IsTransientError(c.err) {
				rep.violation(Finding{Property: "C15", Clause: "nats-conflict-permanent", Input: c.name + ": " + c.err.Error(),
					Impl: fmt.Sprintf("permanent=%v transient=%v", leader.IsPermanentError(c.err), leader.IsTransientError(c.err))})
			}
		}
		_, e3 := adapter.Get("c15-missing")
		if e3 == nil || errKind(e3) != "notfound" {
			rep.diff(Finding{Property: "*", Clause: "nats-get-missing", Input: "get of a missing key", Impl: fmt.Sprint(e3)})
		}
	}

	type seqT struct {
		ops []natsOp
		key string
	}
	var seqs []seqT
	expiring := 2
	if thorough {
		expiring = 12
	}
	for i := 0; i < n; i++ {
		seqs = append(seqs, seqT{genNatsOps(rng, i < expiring), fmt.Sprintf("k%d-%d", rep.Seed, i)})
	}
	var mu sync.Mutex
	var wg sync.WaitGroup
	sem := make(chan struct{}, 8)
	before := goroutinesIn("natsWatcherAdapter")
	for _, sq := range seqs {
		sq := sq
		wg.Add(1)
		sem <- struct{}{}
		go func() {
			defer wg.Done()
			defer func() { <-sem }()
			// the same operations on the real adapter and on the reference store (own instance, same TTL)
			tr := newTrace()
			ref := newRefStore(tr, ttl)
			// (the election's TTL option is shorter than the bucket's MaxAge here: the adapter ignores the option, expiry is
			//  the bucket's business)
			real := &kvRunner{kv: adapter, key: sq.key, opt: []interface{}{ttl / 6}}
			refr := &kvRunner{kv: ref.client(1), key: sq.key}
			var lines []string
			for _, op := range sq.ops {
				var a, b string
				if op.Kind == "nap" {
					a = real.run(op, ttl)
					b = "nap"
				} else if op.Kind == "sleep" {
					a = real.run(op, ttl)
					b = "sleep" // the reference store's record expires by its own timer during the same wall-clock sleep
				} else {
					a = real.run(op, ttl)
					b = refr.run(op, ttl)
				}
				lines = append(lines, fmt.Sprintf("%s %s %s => %s", op.Kind, op.Val, op.Rev, a))
				mu.Lock()
				rep.Compared++
				rep.hit("natsop:" + strings.Join(strings.Fields(a)[:min(2, len(strings.Fields(a)))], " "))
				if a != b {
					rep.diff(Finding{Property: "C14", Clause: "adapter-differs-from-reference-store", Input: strings.Join(lines, " | "), Impl: a, Model: b})
					rep.violation(Finding{Property: "C14", Clause: "adapter-differs-from-reference-store", Input: strings.Join(lines, " | "), Impl: a, Model: b})
				}
				mu.Unlock()
				if a != b {
					break
				}
			}
			if real.w != nil {
				mu.Lock()
				if !real.stable {
					rep.violation(Finding{Property: "C14", Clause: "updates-channel-not-stable", Input: strings.Join(lines, " | "), Impl: "Watcher.Updates() returned different channels on successive calls"})
				}
				mu.Unlock()
				real.w.Stop()
			}
			if refr.w != nil {
				refr.w.Stop()
			}
			close(ref.done)
			mu.Lock()
			rep.Cases++
			rep.nontrivial(sq.key)
			if len(rep.Samples) < 4 {
				rep.Samples = append(rep.Samples, strings.Join(lines, " | "))
			}
			mu.Unlock()
		}()
	}
	wg.Wait()
	time.Sleep(300 * time.Millisecond)
	after := goroutinesIn("natsWatcherAdapter")
	rep.Notes = append(rep.Notes, fmt.Sprintf("adapter forwarder goroutines before=%d after=%d", before, after))
	if after > before {
		rep.violation(Finding{Property: "C14", Clause: "adapter-goroutines-accumulate", Input: fmt.Sprintf("%d sequences", len(seqs)),
			Impl: fmt.Sprintf("%d natsWatcherAdapter goroutines left after every watcher was stopped", after-before)})
	}
	// C15 (faithfulness at the adapter): when the bucket's stream stops answering, what the adapter returns is what the client
	// returned - same words, same classification (a write that nobody answers is a transient failure: JetStream may be
	// restarting or moving the stream's leader)
	if js, jerr := nc.JetStream(); jerr == nil {
		if derr := js.DeleteStream("KV_" + bucket); derr == nil {
			k := "c15-gone"
			_, r1 := nkv.Create(k, []byte("a"))
			_, a1 := adapter.Create(k, []byte("a"))
			_, r2 := nkv.Update(k, []byte("b"), 1)
			_, a2 := adapter.Update(k, []byte("b"), 1)
			for _, c := range []struct {
				name     string
				raw, adp error
			}{{"create-without-a-stream", r1, a1}, {"update-without-a-stream", r2, a2}} {
				rep.Cases++
				rep.Compared++
				if c.raw == nil || c.adp == nil {
					rep.diff(Finding{Property: "*", Clause: "nats-no-stream-expected", Input: c.name, Impl: fmt.Sprint(c.raw, " / ", c.adp)})
					continue
				}
				rep.hit("c15:" + c.name)
				rep.sample(c.name + " => " + c.adp.Error())
				same := c.raw.Error() == c.adp.Error() && leader.IsPermanentError(c.raw) == leader.IsPermanentError(c.adp) &&
					leader.IsTransientError(c.raw) == leader.IsTransientError(c.adp)
				if !same {
					rep.violation(Finding{Property: "C15", Clause: "adapter-rewrites-the-clients-error", Input: c.name + ": client says " + c.raw.Error(),
						Impl: fmt.Sprintf("adapter says %q (permanent=%v transient=%v; the client's: permanent=%v transient=%v)", c.adp.Error(),
							leader.IsPermanentError(c.adp), leader.IsTransientError(c.adp), leader.IsPermanentError(c.raw), leader.IsTransientError(c.raw))})
				}
				if errors.Is(c.raw, nats.ErrNoStreamResponse) && (leader.IsPermanentError(c.adp) || !leader.IsTransientError(c.adp)) {
					rep.violation(Finding{Property: "C15", Clause: "no-responders-transient", Input: c.name + ": " + c.adp.Error(),
						Impl: fmt.Sprintf("permanent=%v transient=%v", leader.IsPermanentError(c.adp), leader.IsTransientError(c.adp))})
				}
			}
		}
	}
	return nil
}
