package harness

import (
	"fmt"
	"math/rand"
	"time"
)

const (
	ms = time.Millisecond
)

func baseInst(id int, h time.Duration) InstSpec {
	return InstSpec{ID: id, Group: "g", TTL: 3 * h, H: h}
}

// genBasic: 2-4 instances, fault-free, latencies below H/2, staggered starts, an optional graceful stop of the leader.
func genBasic(rng *rand.Rand, seed int64) *Scenario {
	h := []time.Duration{200 * ms, 500 * ms, 1000 * ms}[rng.Intn(3)]
	n := 2 + rng.Intn(3)
	sc := &Scenario{Name: "basic", Seed: seed, StoreTTL: 3 * h, Lat: map[int]LatSpec{0: {Min: 1 * ms, Max: h / 4}},
		WatchMin: 1 * ms, WatchMax: h / 2, End: 12 * h, Sample: h / 2,
		Responsive: true, NoOutside: true, NoPreempt: true, FaultFree: true}
	for i := 1; i <= n; i++ {
		sc.Insts = append(sc.Insts, baseInst(i, h))
		sc.Steps = append(sc.Steps, Step{At: time.Duration(rng.Int63n(int64(2 * h))), Kind: "start", Inst: i})
	}
	if rng.Intn(2) == 0 {
		sc.Steps = append(sc.Steps, Step{At: 5*h + time.Duration(rng.Int63n(int64(h))), Kind: "stopctx", Inst: 1 + rng.Intn(n), Del: true})
	}
	return sc
}

// genStopPoints: stop calls placed at chosen phases of the stopping instance's in-flight store
// operations (before issue, between issue and application, between application and response, after).
func genStopPoints(rng *rand.Rand, seed int64) *Scenario {
	h := []time.Duration{200 * ms, 500 * ms}[rng.Intn(2)]
	n := 1 + rng.Intn(3)
	sc := &Scenario{Name: "stoppoints", Seed: seed, StoreTTL: 3 * h, Lat: map[int]LatSpec{0: {Min: 20 * ms, Max: h / 4}},
		WatchMin: 1 * ms, WatchMax: h / 4, End: 14 * h, Sample: h / 2, Plans: map[string]OpPlan{},
		Responsive: true, NoOutside: true, NoPreempt: true}
	for i := 1; i <= n; i++ {
		is := baseInst(i, h)
		if rng.Intn(3) == 0 {
			is.Promote = "block"
		}
		sc.Insts = append(sc.Insts, is)
		sc.Steps = append(sc.Steps, Step{At: time.Duration(rng.Int63n(int64(h))), Kind: "start", Inst: i})
	}
	// the victim: stop it around one of its operations
	v := 1 + rng.Intn(n)
	var startAt time.Duration
	for _, st := range sc.Steps {
		if st.Inst == v {
			startAt = st.At
		}
	}
	// choose the nth store operation of v and give it a known shape
	nth := rng.Intn(6)
	pre := time.Duration(10+rng.Intn(40))*ms + 1
	post := time.Duration(10+rng.Intn(40))*ms + 1
	sc.Plans[fmt.Sprintf("%d:%d", v, nth)] = OpPlan{Pre: pre, Post: post}
	var at time.Duration
	if nth == 0 {
		// the first operation is the Create issued by Start itself: we know when it is issued
		switch rng.Intn(4) {
		case 0:
			at = startAt // immediately (same instant as Start returns)
		case 1:
			at = startAt + pre/2 // between issue and application
		case 2:
			at = startAt + pre + post/2 // between application and response
		default:
			at = startAt + pre + post + 1 // just after the response
		}
	} else {
		at = startAt + time.Duration(rng.Int63n(int64(6*h)))
	}
	st := Step{At: at, Inst: v}
	useTrigger := nth > 0 || rng.Intn(2) == 0
	switch rng.Intn(3) {
	case 0:
		st.Kind = "stop"
	default:
		st.Kind = "stopctx"
		st.Del = rng.Intn(2) == 0
		st.Wait = rng.Intn(2) == 0
		if rng.Intn(3) == 0 {
			st.Timeout = time.Duration(1+rng.Intn(3)) * time.Second
		}
	}
	if useTrigger {
		// exact stop point relative to the nth store operation of the victim
		phase := []string{"call", "call", "apply", "apply"}[rng.Intn(4)]
		var d time.Duration
		switch rng.Intn(3) {
		case 0:
			d = 0 // immediately at the phase boundary
		case 1:
			if phase == "call" {
				d = pre / 2 // between issue and application
			} else {
				d = post / 2 // between application and response
			}
		default:
			if phase == "call" {
				d = pre + post + 1 // immediately after the response
			} else {
				d = post + 1
			}
		}
		sc.Triggers = append(sc.Triggers, Trigger{Inst: v, Nth: nth, Phase: phase, Delay: d, Step: st})
		at = startAt + 2*h
	} else {
		sc.Steps = append(sc.Steps, st)
	}
	switch rng.Intn(4) {
	case 0: // repeated stop
		sc.Steps = append(sc.Steps, Step{At: at + time.Duration(rng.Int63n(int64(h))), Kind: "stop", Inst: v})
	case 1: // stop then start again
		sc.Steps = append(sc.Steps, Step{At: at + 6*time.Second + time.Duration(rng.Int63n(int64(h))), Kind: "start", Inst: v})
		sc.End += 7 * time.Second
	}
	return sc
}

// genConn: one or two instances with connection monitoring; disconnect / reconnect / closed
// notifications (including flapping) around the grace period, optionally with the record changing
// hands during the outage (outside writer), a partition, or a stop.
func genConn(rng *rand.Rand, seed int64) *Scenario {
	h := []time.Duration{500 * ms, 1000 * ms, 2000 * ms}[rng.Intn(3)]
	grace := time.Duration(0)
	if rng.Intn(2) == 0 {
		grace = 2*h + time.Duration(rng.Int63n(int64(3*h)))
	}
	g := grace
	if g == 0 {
		g = 3 * h
		if g < 5*time.Second {
			g = 5 * time.Second
		}
	}
	sc := &Scenario{Name: "conn", Seed: seed, StoreTTL: 3 * h, Lat: map[int]LatSpec{0: {Min: 1 * ms, Max: h / 8}},
		WatchMin: 1 * ms, WatchMax: h / 8, Sample: h / 2, NoPreempt: true, ConnOnly: true}
	n := 1 + rng.Intn(2)
	for i := 1; i <= n; i++ {
		is := baseInst(i, h)
		is.ConnMon = true
		is.Grace = grace
		sc.Insts = append(sc.Insts, is)
		sc.Steps = append(sc.Steps, Step{At: time.Duration(i-1) * 50 * ms, Kind: "start", Inst: i})
	}
	t := 2*h + time.Duration(rng.Int63n(int64(h)))
	k := 1 + rng.Intn(5)
	last := ""
	for j := 0; j < k; j++ {
		kind := []string{"disconnect", "disconnect", "reconnect", "closed"}[rng.Intn(4)]
		if j == 0 {
			kind = "disconnect"
		}
		sc.Steps = append(sc.Steps, Step{At: t, Kind: kind, Inst: 1})
		last = kind
		// gaps on a lattice around the grace period and the verification constants
		gap := []time.Duration{g / 4, g / 2, g - 1*ms, g + 1*ms, 100 * ms, 50 * ms, 2 * time.Second, g + h}[rng.Intn(8)]
		t += gap + time.Duration(1+rng.Intn(400))*time.Microsecond // never exactly on a timer of the code
	}
	_ = last
	switch rng.Intn(5) {
	case 0: // the record changes hands during the outage
		sc.ConnOnly = false
		sc.Steps = append(sc.Steps, Step{At: 2*h + time.Duration(rng.Int63n(int64(g))), Kind: "extput", Key: "g", Bytes: `{"id":"intruder","token":"zzz"}`})
	case 1: // store partition of the leader during the outage
		sc.ConnOnly = false
		p := 2*h + time.Duration(rng.Int63n(int64(g)))
		sc.Steps = append(sc.Steps, Step{At: p, Kind: "partition", Inst: 1, N: 1})
		if rng.Intn(2) == 0 {
			sc.Steps = append(sc.Steps, Step{At: p + time.Duration(rng.Int63n(int64(g))), Kind: "partition", Inst: 1, N: 0})
		}
	case 2: // a stop in the middle
		sc.Steps = append(sc.Steps, Step{At: 2*h + time.Duration(rng.Int63n(int64(g+h))), Kind: []string{"stop", "stopctx"}[rng.Intn(2)], Inst: 1})
	}
	sc.End = t + g + 3*h
	return sc
}
