package harness

import (
	"fmt"
	"math/rand"
	"sort"
	"strings"
	"time"
)

const (
	ms = time.Millisecond
)

func baseInst(id int, h time.Duration) InstSpec {
	return InstSpec{ID: id, Group: "g", TTL: 3 * h, H: h}
}

// genBasic: 2-4 instances, fault-free, latencies below H/2, staggered starts, an optional graceful stop of the leader.
func genBasic(rng *rand.Rand, seed int64) *Scenario {
	// (heartbeat intervals from 20 ms up: nothing in the documented configuration rules sets a lower limit, and whatever
	//  the library does on a timer of its own must still keep a record of three intervals alive)
	h := []time.Duration{20 * ms, 50 * ms, 200 * ms, 500 * ms, 1000 * ms}[rng.Intn(5)]
	n := 2 + rng.Intn(3)
	sc := &Scenario{Name: "basic", Seed: seed, StoreTTL: 3 * h, Lat: map[int]LatSpec{0: {Min: h / 200, Max: h / 4}},
		WatchMin: h / 200, WatchMax: h / 2, End: 12 * h, Sample: h / 2,
		Responsive: true, NoOutside: true, NoPreempt: true, FaultFree: true, MaxLat: h / 4}
	if sc.End < 3*time.Second {
		sc.End = 3 * time.Second
	}
	if rng.Intn(5) == 0 {
		// a long heartbeat interval and a store that takes more than a second per answer, still below H/2
		h = []time.Duration{2400 * ms, 3000 * ms}[rng.Intn(2)]
		sc.StoreTTL, sc.End, sc.Sample, sc.WatchMax = 3*h, 12*h, h/2, h/2
		sc.Lat[0] = LatSpec{Min: 1050 * ms, Max: h/2 - 50*ms}
		sc.MaxLat = h/2 - 50*ms
	}
	for i := 1; i <= n; i++ {
		is := baseInst(i, h)
		if rng.Intn(5) == 0 {
			is.Promote = "none"
		}
		sc.Insts = append(sc.Insts, is)
		sc.Steps = append(sc.Steps, Step{At: time.Duration(rng.Int63n(int64(2 * h))), Kind: "start", Inst: i})
		if rng.Intn(4) == 0 {
			sc.Steps = append(sc.Steps, Step{At: 3*h + time.Duration(rng.Int63n(int64(3*h))), Kind: "rereg", Inst: i})
		}
		if rng.Intn(3) == 0 {
			// a notification of the previous leader's record that has been under way for a while arrives while this
			// instance is being promoted (inside the critical section that raises its flag, first or second term)
			sc.Triggers = append(sc.Triggers, Trigger{Inst: i, Nth: 1 + rng.Intn(2), Phase: "flag", Step: Step{Kind: "latewev", Inst: i}})
			// (notifications lag by up to three intervals: what a follower has seen of the leader's record is old news)
			sc.WatchMax = 3 * h
		}
	}
	if rng.Intn(2) == 0 {
		who := 1 + rng.Intn(n)
		st := Step{At: 5*h + time.Duration(rng.Int63n(int64(h))), Kind: "stopctx", Inst: who, Del: true}
		if h <= 1000*ms && rng.Intn(3) == 0 {
			// the application's demotion callback takes longer than the record lives (the stop call waits for it): the
			// record must be gone before that, not after
			sc.Insts[who-1].DemoteSleep = []time.Duration{h, 3*h + h/2}[rng.Intn(2)]
			st.Wait = true
		}
		sc.Steps = append(sc.Steps, st)
	} else if rng.Intn(2) == 0 {
		// the runs are ended one after the other by cancelling their contexts; a Status() call overlaps each step-down
		// (issued from inside the critical section, when the duration of the term is reported)
		for i := 1; i <= n; i++ {
			sc.Steps = append(sc.Steps, Step{At: time.Duration(2+2*i)*h + time.Duration(rng.Int63n(int64(h))), Kind: "cancelctx", Inst: i})
			sc.Triggers = append(sc.Triggers, Trigger{Inst: i, Nth: 1, Phase: "observe", Step: Step{Kind: "snap", Inst: i}})
		}
		sc.End += time.Duration(2*n) * h
	}
	return sc
}

// genStopPoints: stop calls placed at chosen phases of the stopping instance's in-flight store
// operations (before issue, between issue and application, between application and response, after).
func genStopPoints(rng *rand.Rand, seed int64) *Scenario {
	h := []time.Duration{200 * ms, 500 * ms}[rng.Intn(2)]
	n := 1 + rng.Intn(3)
	sc := &Scenario{Name: "stoppoints", Seed: seed, StoreTTL: 3 * h, Lat: map[int]LatSpec{0: {Min: 20 * ms, Max: h / 4}},
		WatchMin: 1 * ms, WatchMax: h / 4, End: 14 * h, Sample: h / 2, Plans: map[string]OpPlan{},
		Responsive: true, NoOutside: true, NoPreempt: true, FaultFree: true, MaxLat: h / 4}
	for i := 1; i <= n; i++ {
		is := baseInst(i, h)
		if rng.Intn(3) == 0 {
			is.Promote = "block"
		}
		sc.Insts = append(sc.Insts, is)
		sc.Steps = append(sc.Steps, Step{At: time.Duration(rng.Int63n(int64(h))), Kind: "start", Inst: i})
	}
	// the victim: stop it around one of its operations
	v := 1 + rng.Intn(n)
	if n >= 2 && rng.Intn(3) == 0 {
		// a takeover-enabled, higher-priority victim next to an established lower-priority leader: its acquisition
		// attempt is a Create, a Get and an Update, and the stop can fall between any two of them
		sc.NoPreempt = false
		sc.FaultFree = false
		for k := range sc.Insts {
			if sc.Insts[k].ID == v {
				sc.Insts[k].Takeover = true
				sc.Insts[k].Prio = 2
			} else {
				sc.Insts[k].Prio = rng.Intn(2)
			}
		}
		for k := range sc.Steps {
			if sc.Steps[k].Inst == v {
				sc.Steps[k].At += h/2 + h/4 // the others are up first
			}
		}
	}
	var startAt time.Duration
	for _, st := range sc.Steps {
		if st.Inst == v {
			startAt = st.At
		}
	}
	// choose the nth store operation of v and give it a known shape
	nth := rng.Intn(6)
	if rng.Intn(4) == 0 {
		nth = 0 // (the acquiring Create: the operation whose answer changes most)
	}
	// (both halves together stay below the promised latency bound h/4)
	pre := time.Duration(10+rng.Intn(40))*(h/(800)) + 1
	post := time.Duration(10+rng.Intn(40))*(h/(800)) + 1
	sc.Plans[fmt.Sprintf("%d:%d", v, nth)] = OpPlan{Pre: pre, Post: post}
	var at time.Duration
	if nth == 0 {
		// the first operation is the Create issued by Start itself: we know when it is issued
		switch rng.Intn(4) {
		case 0:
			at = startAt // immediately (same instant as Start returns)
		case 1:
			at = startAt + pre/2 // between issue and application
		case 2:
			at = startAt + pre + post/2 // between application and response
		default:
			at = startAt + pre + post + 1 // just after the response
		}
	} else {
		at = startAt + time.Duration(rng.Int63n(int64(6*h)))
	}
	st := Step{At: at, Inst: v}
	useTrigger := nth > 0 || rng.Intn(2) == 0
	switch rng.Intn(3) {
	case 0:
		st.Kind = "stop"
	default:
		st.Kind = "stopctx"
		st.Del = rng.Intn(2) == 0
		st.Wait = rng.Intn(2) == 0
		if rng.Intn(3) == 0 {
			st.Timeout = time.Duration(1+rng.Intn(3)) * time.Second
		}
	}
	if useTrigger {
		// exact stop point relative to the nth store operation of the victim
		phase := []string{"call", "call", "apply", "apply"}[rng.Intn(4)]
		var d time.Duration
		switch rng.Intn(3) {
		case 0:
			d = 0 // immediately at the phase boundary
		case 1:
			if phase == "call" {
				d = pre / 2 // between issue and application
			} else {
				d = post / 2 // between application and response
			}
		default:
			if phase == "call" {
				d = pre + post + 1 // immediately after the response
			} else {
				d = post + 1
			}
		}
		if left := map[string]time.Duration{"call": pre + post, "apply": post}[phase] - d; st.Kind == "stopctx" && left > 0 && rng.Intn(2) == 0 {
			// a time budget that the operation in flight uses up almost entirely: what is left for the key deletion
			// (and the demotion callback) is a few milliseconds, less than the store takes to answer
			st.Del = true
			st.Timeout = left + ms + time.Duration(rng.Int63n(int64(h/16)))
		}
		if rng.Intn(4) == 0 {
			// stop and start again in one breath: what is still in flight belongs to the run that was stopped and its answer
			// arrives in the next one
			st.Then = "start"
			if st.Kind == "stopctx" {
				st.Del = true
			}
			if rng.Intn(2) == 0 {
				// ... and late enough for the next run to be under way: the chosen operation's answer is slow (still within
				// the promised bound), everything else the instance does is quick
				post = h/8 + time.Duration(rng.Int63n(int64(h/16)))
				if rng.Intn(2) == 0 && sc.NoPreempt {
					// ... of the leader: the victim is up before the others, the operation is one of its first refreshes, it
					// has been applied, and the stop removes the record
					for k := range sc.Steps {
						if sc.Steps[k].Inst != v {
							sc.Steps[k].At += h
						}
					}
					nth, phase = 1+rng.Intn(3), "apply"
					st.Kind, st.Del, st.Timeout = "stopctx", true, 0
					d = []time.Duration{0, post / 4, post / 2}[rng.Intn(3)]
				}
				sc.Plans[fmt.Sprintf("%d:%d", v, nth)] = OpPlan{Pre: pre, Post: post}
				sc.Lat[v] = LatSpec{Min: 1 * ms, Max: h / 40}
				if phase == "apply" && d > post/2 {
					d = post / 2
				}
			}
		}
		tg := Trigger{Inst: v, Nth: nth, Phase: phase, Delay: d, Step: st}
		if rng.Intn(5) == 0 {
			// the application ends the run by its context instead, and (half of the time) starts the next run at once:
			// the operation in flight belongs to the run that has ended, its answer arrives in the next one
			tg.Step = Step{Kind: []string{"cancelctx", "cancelstart"}[rng.Intn(2)], Inst: v}
		} else if rng.Intn(4) == 0 {
			// inside the critical section that raises the flag (first or second term) or writes the gauge 0: the call is
			// parked on the election's mutex and runs as soon as the section ends - before the goroutines it spawned
			tg.Phase, tg.Delay, tg.Nth = []string{"flag", "flag", "unflag"}[rng.Intn(3)], 0, 1+rng.Intn(2)
			switch rng.Intn(5) {
			case 0:
				tg.Step = Step{Kind: "cancelctx", Inst: v}
			case 1:
				// a Status() call that overlaps the transition (phase observe: the flag is down, the state not yet written)
				tg.Step = Step{Kind: "snap", Inst: v}
				tg.Phase = []string{"flag", "unflag", "observe"}[rng.Intn(3)]
				tg.Nth = 1
				sc.Steps = append(sc.Steps, st)
			}
		}
		sc.Triggers = append(sc.Triggers, tg)
		at = startAt + 2*h
	} else {
		sc.Steps = append(sc.Steps, st)
	}
	switch rng.Intn(4) {
	case 0: // repeated stop
		sc.Steps = append(sc.Steps, Step{At: at + time.Duration(rng.Int63n(int64(h))), Kind: "stop", Inst: v})
	case 1: // stop then start again
		sc.Steps = append(sc.Steps, Step{At: at + 6*time.Second + time.Duration(rng.Int63n(int64(h))), Kind: "start", Inst: v})
		sc.End += 7 * time.Second
	}
	return sc
}

// genConn: one or two instances with connection monitoring; disconnect / reconnect / closed
// notifications (including flapping) around the grace period, optionally with the record changing
// hands during the outage (outside writer), a partition, or a stop.
func genConn(rng *rand.Rand, seed int64) *Scenario {
	h := []time.Duration{500 * ms, 1000 * ms, 2000 * ms}[rng.Intn(3)]
	if rng.Intn(5) == 0 {
		// (a record that lives for less than the verification's settle time of 100 ms: the verification has its own budget)
		h = []time.Duration{20 * ms, 30 * ms}[rng.Intn(2)]
	}
	grace := time.Duration(0)
	if rng.Intn(2) == 0 || h < 100*ms {
		grace = 2*h + time.Duration(rng.Int63n(int64(3*h)))
	}
	g := grace
	if g == 0 {
		g = 3 * h
		if g < 5*time.Second {
			g = 5 * time.Second
		}
	}
	sc := &Scenario{Name: "conn", Seed: seed, StoreTTL: 3 * h, Lat: map[int]LatSpec{0: {Min: h / 500, Max: h / 8}},
		WatchMin: h / 500, WatchMax: h / 8, Sample: h / 2, NoPreempt: true, ConnOnly: true, MaxLat: h / 8}
	n := 1 + rng.Intn(2)
	for i := 1; i <= n; i++ {
		is := baseInst(i, h)
		is.ConnMon = true
		is.Grace = grace
		sc.Insts = append(sc.Insts, is)
		sc.Steps = append(sc.Steps, Step{At: time.Duration(i-1) * 50 * ms, Kind: "start", Inst: i})
	}
	if rng.Intn(4) == 0 {
		// an application that shuts the component down when it loses leadership: its demotion callback calls Stop()
		sc.Insts[0].DemoteStops = true
	}
	t := 2*h + time.Duration(rng.Int63n(int64(h)))
	k := 1 + rng.Intn(5)
	last := ""
	for j := 0; j < k; j++ {
		kind := []string{"disconnect", "disconnect", "reconnect", "closed"}[rng.Intn(4)]
		if j == 0 {
			kind = "disconnect"
		}
		sc.Steps = append(sc.Steps, Step{At: t, Kind: kind, Inst: 1})
		last = kind
		// gaps on a lattice around the grace period and the verification constants
		gap := []time.Duration{g / 4, g / 2, g - 1*ms, g + 1*ms, 100 * ms, 50 * ms, 2 * time.Second, g + h}[rng.Intn(8)]
		if rng.Intn(5) == 0 {
			// a flapping link: the next notification is queued right behind this one (the client's dispatcher delivers
			// them back to back, in order)
			continue
		}
		t += gap + time.Duration(1+rng.Intn(400))*time.Microsecond // never exactly on a timer of the code
	}
	_ = last
	switch rng.Intn(5) {
	case 0: // the record changes hands during the outage
		sc.ConnOnly = false
		at := 2*h + time.Duration(rng.Int63n(int64(g)))
		sc.Steps = append(sc.Steps, Step{At: at, Kind: "extput", Key: "g", Bytes: `{"id":"intruder","token":"zzz"}`})
		if rng.Intn(2) == 0 {
			// … and is given up again soon after: the instance loses its term, finds the key vacant and leads again (a new
			// term) while the connection is still reported lost and the grace timer of the first term is still running
			sc.Steps = append(sc.Steps, Step{At: at + h + time.Duration(rng.Int63n(int64(h))), Kind: "extdelete", Key: "g"})
		}
	case 1: // store partition of the leader during the outage
		sc.ConnOnly = false
		p := 2*h + time.Duration(rng.Int63n(int64(g)))
		sc.Steps = append(sc.Steps, Step{At: p, Kind: "partition", Inst: 1, N: 1})
		if rng.Intn(2) == 0 {
			sc.Steps = append(sc.Steps, Step{At: p + time.Duration(rng.Int63n(int64(g))), Kind: "partition", Inst: 1, N: 0})
		}
	case 3:
		if n == 2 {
			// the follower's connection bounces as well (nothing to verify for a follower); later the leader leaves with
			// its record and no notification of that reaches the follower: its periodic check alone must find the vacancy
			sc.ConnOnly = false
			sc.WatchDrop = 1
			sc.Steps = append(sc.Steps, Step{At: h + time.Duration(rng.Int63n(int64(h))), Kind: "disconnect", Inst: 2},
				Step{At: 2*h + time.Duration(rng.Int63n(int64(h))), Kind: "reconnect", Inst: 2},
				Step{At: t + 2*h, Kind: "stopctx", Inst: 1, Del: true})
			t += 4 * h
		}
	case 2: // a stop in the middle
		sc.Steps = append(sc.Steps, Step{At: 2*h + time.Duration(rng.Int63n(int64(g+h))), Kind: []string{"stop", "stopctx"}[rng.Intn(2)], Inst: 1})
		if rng.Intn(2) == 0 {
			// … and a notification that arrives while that stop (or an earlier demotion) is inside its critical section:
			// the library is in a metrics callback, holding its mutex, when the client's goroutine delivers it
			sc.Triggers = append(sc.Triggers, Trigger{Inst: 1, Nth: 1, Phase: []string{"observe", "observe", "unflag", "flag"}[rng.Intn(4)],
				Step: Step{Kind: []string{"disconnect", "disconnect", "reconnect"}[rng.Intn(3)], Inst: 1}})
		}
	}
	sc.End = t + g + 3*h
	return sc
}

// genFaults: the leader's store operations start failing at some attempt (immediate errors, hangs,
// lost acknowledgements, partition, crash) and possibly recover; candidates may suffer transient
// failures too.  Exercises C03(b), C06, C08, C19.
func genFaults(rng *rand.Rand, seed int64) *Scenario {
	h := []time.Duration{200 * ms, 400 * ms, 1000 * ms, 2000 * ms}[rng.Intn(4)]
	n := 1 + rng.Intn(3)
	sc := &Scenario{Name: "faults", Seed: seed, StoreTTL: 3 * h, Lat: map[int]LatSpec{0: {Min: 1 * ms, Max: h / 8}},
		WatchMin: 1 * ms, WatchMax: h / 8, Sample: h / 2, NoOutside: true, NoPreempt: true, MaxLat: h / 8}
	for i := 1; i <= n; i++ {
		is := baseInst(i, h)
		if rng.Intn(2) == 0 {
			is.Promote = "block"
		}
		if rng.Intn(4) == 0 {
			is.Val = h + time.Duration(rng.Int63n(int64(2*h)))
		}
		// the health-check threshold is not the refresh-failure threshold (three, whatever the configuration says)
		is.MaxFail = []int{0, 0, 1, 5, 10}[rng.Intn(5)]
		if i == 1 && rng.Intn(4) == 0 {
			// a health checker that flaps while the store fails: the two counts (unhealthy checks, failed refreshes) are
			// separate, and what the one sees is no business of the other
			is.HasHealth = true
			is.MaxFail = 10
			for k := 0; k < 60; k++ {
				is.Health = append(is.Health, []int{0, 1, 1}[rng.Intn(3)])
			}
		}
		// a demotion callback that takes its time (no stop call in this generator: the stop budget assumes it returns at once;
		// a single instance: a demotion noticed by the watch loop would run the callback in that loop and suspend the candidate)
		if n == 1 {
			is.DemoteSleep = []time.Duration{0, 300 * ms, 1200 * ms}[rng.Intn(3)]
		}
		sc.Insts = append(sc.Insts, is)
		sc.Steps = append(sc.Steps, Step{At: time.Duration(i-1) * 30 * ms, Kind: "start", Inst: i})
	}
	if rng.Intn(3) == 0 {
		// a Status() call that overlaps the first demotion of the first instance (issued from inside its critical section)
		sc.Triggers = append(sc.Triggers, Trigger{Inst: 1, Nth: 1, Phase: "observe", Step: Step{Kind: "snap", Inst: 1}})
	} else if rng.Intn(3) == 0 {
		// … or a Stop that begins while that demotion is inside its critical section (the demotion's callback is still to come)
		// (at the gauge write, when the transition and the flag have been recorded: the model has no stop call inside a transition)
		sc.Triggers = append(sc.Triggers, Trigger{Inst: 1, Nth: 1, Phase: "unflag", Step: Step{Kind: "stop", Inst: 1}})
	}
	from := 2*h + time.Duration(rng.Int63n(int64(3*h)))
	dur := time.Duration(rng.Int63n(int64(8 * h)))
	to := from + dur
	switch rng.Intn(4) {
	case 0: // instance 1 (the first leader) gets faulty answers in a window
		kinds := [][]string{{"err"}, {"hang"}, {"acklost"}, {"err", "hang", "acklost", "hangafter"}}[rng.Intn(4)]
		sc.Lat[1] = LatSpec{Min: 1 * ms, Max: h / 8, FaultProb: []float64{1, 1, 0.5}[rng.Intn(3)], Faults: kinds, From: from, To: to}
	case 1: // partition, healed later
		sc.Steps = append(sc.Steps, Step{At: from, Kind: "partition", Inst: 1, N: 1}, Step{At: to, Kind: "partition", Inst: 1, N: 0})
	case 2: // crash for good
		sc.Steps = append(sc.Steps, Step{At: from, Kind: "crash", Inst: 1})
		to = from
	default: // everybody gets transient errors in the window
		sc.Lat[0] = LatSpec{Min: 1 * ms, Max: h / 8, FaultProb: 0.6, Faults: []string{"err", "acklost"}, From: from, To: to}
	}
	if rng.Intn(3) == 0 {
		sc.WatchDrop = 0.5
	}
	if rng.Intn(4) == 0 {
		sc.Steps = append(sc.Steps, Step{At: from + time.Duration(rng.Int63n(int64(h))), Kind: "watchfail", Inst: 1 + rng.Intn(n), N: 1 + rng.Intn(2)})
	}
	sc.FaultsEnd = to + 1
	if sc.WatchDrop > 0 {
		sc.FaultsEnd = 1 << 60 // lost events all along: the periodic check is what C06 relies on, but keep its clock simple
		sc.MaxLat = h / 8
	}
	sc.End = to + 12*h
	return sc
}

// genHealth: scripted health-check results over several terms (C12).
func genHealth(rng *rand.Rand, seed int64) *Scenario {
	h := []time.Duration{200 * ms, 500 * ms}[rng.Intn(2)]
	// (a quarter of the scenarios: a heartbeat interval shorter than the health check's own time-out of 100 ms - every tick
	//  still asks the checker, and only what the checker says counts; the checker answers at once there)
	small := rng.Intn(4) == 0
	if small {
		h = 40 * ms
	}
	sc := &Scenario{Name: "health", Seed: seed, StoreTTL: 3 * h, Lat: map[int]LatSpec{0: {Min: 1 * ms, Max: h / 8}},
		WatchMin: 1 * ms, WatchMax: h / 8, Sample: h / 2, NoOutside: true, NoPreempt: true, Responsive: true, MaxLat: h / 8}
	is := baseInst(1, h)
	is.HasHealth = true
	is.MaxFail = rng.Intn(6) // 0 = default 3
	m := is.MaxFail
	if m == 0 {
		m = 3
	}
	ticks := 20 + rng.Intn(30)
	run := 0
	for k := 0; k < ticks; k++ {
		r := 1
		switch rng.Intn(7) {
		case 0, 1, 2:
			r = 0
		case 3:
			r = 2
		case 4:
			if rng.Intn(2) == 0 {
				r = []int{4, 4, 5}[rng.Intn(3)] // answers only when its context expires
			}
		}
		// bias towards runs around the threshold
		if run > 0 && run < m && rng.Intn(3) > 0 {
			r = 0
		}
		if small && r >= 2 {
			r = 1
		}
		if r == 0 || r == 5 {
			run++
		} else {
			run = 0
		}
		is.Health = append(is.Health, r)
	}
	if rng.Intn(3) == 0 {
		is.Promote = "block"
	}
	if !small && rng.Intn(5) == 0 {
		// a store that takes two to three intervals over every answer (less than the refresh's own time-out): ticks are
		// skipped, the checker is asked less often than once per interval - and only what it says counts, not the clock
		sc.Lat[0] = LatSpec{Min: 2 * h, Max: 3*h - 50*ms}
		sc.Responsive = false
		sc.MaxLat = 0
		sc.StoreTTL = 12 * h
		is.TTL = 12 * h
	}
	slowDemote := []time.Duration{0, 0, 300 * ms, 1200 * ms}[rng.Intn(4)]
	if rng.Intn(3) == 0 {
		// isolated transient failures of the refresh itself on some ticks (the leader's k-th store operation is its k-th
		// refresh): the health count and the refresh-failure count are separate
		sc.Plans = map[string]OpPlan{}
		sc.Responsive = false
		for j := 0; j < 1+rng.Intn(4); j++ {
			k := 1 + rng.Intn(ticks)
			sc.Plans[fmt.Sprintf("1:%d", k)] = OpPlan{Pre: 2 * ms, Post: 2 * ms, Fault: "err", Err: []string{"timeout", "noresponders", "other"}[rng.Intn(3)]}
		}
	}
	sc.Insts = append(sc.Insts, is)
	sc.Steps = append(sc.Steps, Step{At: 0, Kind: "start", Inst: 1})
	alone := true
	if rng.Intn(2) == 0 {
		sc.Insts = append(sc.Insts, baseInst(2, h))
		sc.Steps = append(sc.Steps, Step{At: 10 * ms, Kind: "start", Inst: 2})
		alone = false
	}
	if alone && rng.Intn(3) > 0 {
		// a demotion callback that takes its time: every demotion here comes from the heartbeat loop (a demotion noticed
		// by the watch loop would run the callback in that loop and suspend the candidate for as long)
		sc.Insts[0].DemoteSleep = slowDemote
	} else if rng.Intn(3) == 0 {
		// terms that end for another reason (the record is removed from outside) in the middle of a run of unhealthy results
		for j := 0; j < 1+rng.Intn(2); j++ {
			sc.Steps = append(sc.Steps, Step{At: 2*h + time.Duration(rng.Int63n(int64(time.Duration(ticks)*h)))/2*2 + 1, Kind: "extdelete", Key: "g"})
		}
		sc.NoOutside = false
	}
	if rng.Intn(4) == 0 {
		// connection monitoring on top: reconnect notifications (each starts a verification of the leader's record) in the
		// middle of runs of unhealthy results - the health count is the heartbeat loop's business alone
		sc.Insts[0].ConnMon = true
		for j := 0; j < 1+rng.Intn(4); j++ {
			sc.Steps = append(sc.Steps, Step{At: 2*h + time.Duration(rng.Int63n(int64(time.Duration(ticks)*h)))/2*2 + 1, Kind: "reconnect", Inst: 1})
		}
	}
	sc.End = time.Duration(ticks+12) * h
	return sc
}

var tamperValues = []string{
	"", "not json", "{", "[]", "null", "42", `"str"`, `{"id":7,"token":true}`, `{"id":"i1"}`, `{"token":"t"}`,
	`{"id":"i1","token":"forged"}`, `{"id":"i2","token":"forged","priority":9}`, `{"ID":"i1","TOKEN":"x"}`,
	`{"id":"i1","token":"a","token":"b"}`, `{"id":"intruder","token":"zzz","priority":-1}`, `{"id":"","token":""}`,
	`{"id":"i1","token":"forged","priority":"high"}`, `{"id":null,"token":null}`, "\xff\xfe", `{"id":"i1","token":"x","extra":{"a":[1,2,3]}}`,
	// forged by somebody who has learnt instance 1's current token ($TOK1 is substituted when the step runs)
	`{"token":"$TOK1"}`, `{"id":null,"token":"$TOK1"}`, `{"id":7,"token":"$TOK1"}`, `{"id":"","token":"$TOK1"}`, `{"id":{},"token":"$TOK1"}`,
	`{"id":"i2","token":"$TOK1"}`, `{"id":"i1","token":"$TOK1","priority":"x"}`, `{"id":"i1","token":"$TOK1"}`, `{"ID":"i1","Token":"$TOK1"}`,
	`{"id":"i1","token":["$TOK1"]}`,
	// a well-formed object naming the leader and its token, followed by more bytes: not a JSON document
	`{"id":"i1","token":"$TOK1"}xyz`, `{"id":"i1","token":"$TOK1"}{"id":"i2","token":"t"}`, `{"id":"i1","token":"$TOK1"} {"id":"i1"`,
	`{"id":"i1","token":"$TOK1"},`, `[{"id":"i1","token":"$TOK1"}]`, ` {"id":"i1","token":"$TOK1"} `, `{"id":"i1","token":"$TOK1"}` + "\x00",
	`{"id":"i1","token":"$TOK1","priority":1e400}`, `{"id":"i1","token":"$TOK1","priority":1.5}`,
	// the leader's id with its token spelt differently: a different token
	`{"id":"i1","token":"$UPTOK1"}`, `{"id":"i1","token":"$BRTOK1"}`, `{"id":"i1","token":"$URNTOK1"}`, `{"id":"i1","token":"$RAWTOK1"}`,
	`{"id":"i1","token":"$UPTOK1"}`, `{"id":"i1","token":"$RAWTOK1"}`,
}

// genTamper: an outside party rewrites or deletes the record at arbitrary moments with arbitrary
// bytes; ValidateToken / ValidateTokenOrDemote calls race with it (C13, C04, C03a).
func genTamper(rng *rand.Rand, seed int64) *Scenario {
	h := []time.Duration{200 * ms, 500 * ms, 1000 * ms}[rng.Intn(3)]
	n := 1 + rng.Intn(3)
	sc := &Scenario{Name: "tamper", Seed: seed, StoreTTL: 3 * h, Lat: map[int]LatSpec{0: {Min: 1 * ms, Max: h / 8}},
		WatchMin: 1 * ms, WatchMax: h / 4, Sample: h / 2, NoPreempt: true, MaxLat: h / 8}
	for i := 1; i <= n; i++ {
		is := baseInst(i, h)
		if rng.Intn(3) == 0 {
			is.Takeover = true
			is.Prio = 1 + rng.Intn(3)
			sc.NoPreempt = false
		}
		if rng.Intn(3) == 0 {
			is.Val = h + time.Duration(rng.Int63n(int64(h)))
		}
		sc.Insts = append(sc.Insts, is)
		sc.Steps = append(sc.Steps, Step{At: time.Duration(i-1) * 40 * ms, Kind: "start", Inst: i})
	}
	k := 1 + rng.Intn(4)
	t := time.Duration(rng.Int63n(int64(3 * h)))
	// (a quarter of the scenarios: nothing but removals, one after the other - from the second on they hit a leader that got
	//  there through its watch loop, which is still running next to its heartbeat)
	removals := rng.Intn(4) == 0
	if removals {
		k = 2 + rng.Intn(3)
	}
	for j := 0; j < k; j++ {
		t += time.Duration(rng.Int63n(int64(3*h))) + time.Duration(1+rng.Intn(400))*time.Microsecond
		if removals {
			t += 2 * h
		}
		if removals || rng.Intn(4) == 0 {
			sc.Steps = append(sc.Steps, Step{At: t, Kind: "extdelete", Key: "g"})
		} else {
			v := tamperValues[rng.Intn(len(tamperValues))]
			if rng.Intn(3) == 0 {
				// (more often than the table alone would: values forged by somebody who knows the leader's token)
				for try := 0; try < 8 && !strings.Contains(v, "TOK1"); try++ {
					v = tamperValues[rng.Intn(len(tamperValues))]
				}
			}
			if rng.Intn(8) == 0 {
				v = `{"id":"i1","token":"` + string(make([]byte, 0)) + `big","pad":"` + bigString(1<<16) + `"}`
			}
			sc.Steps = append(sc.Steps, Step{At: t, Kind: "extput", Key: "g", Bytes: v})
		}
		if rng.Intn(2) == 0 {
			kind := []string{"validate", "validate-or-demote"}[rng.Intn(2)]
			st := Step{At: t + time.Duration(rng.Int63n(int64(h))) - h/2, Kind: kind, Inst: 1 + rng.Intn(n)}
			if rng.Intn(3) == 0 {
				st.CtxTimeout = time.Duration(1+rng.Intn(int(h/8/ms)+1)) * ms
			}
			if st.At < 0 {
				st.At = 0
			}
			sc.Steps = append(sc.Steps, st)
		}
	}
	for j := 0; j < 3; j++ {
		sc.Steps = append(sc.Steps, Step{At: time.Duration(rng.Int63n(int64(t + 2*h))), Kind: []string{"validate", "validate-or-demote"}[rng.Intn(2)], Inst: 1 + rng.Intn(n),
			Cancelled: rng.Intn(4) == 0})
	}
	if rng.Intn(3) == 0 {
		// a Status() call that overlaps the first demotion of the first instance (issued from inside its critical section)
		sc.Triggers = append(sc.Triggers, Trigger{Inst: 1, Nth: 1, Phase: "observe", Step: Step{Kind: "snap", Inst: 1}})
	}
	sc.End = t + 10*h
	return sc
}

func bigString(n int) string {
	b := make([]byte, n)
	for i := range b {
		b[i] = 'a' + byte(i%26)
	}
	return string(b)
}

// genTakeover: priorities and takeover flags over 2-5 instances, all start orders (C10, C01, C05).
func genTakeover(rng *rand.Rand, seed int64) *Scenario {
	h := []time.Duration{200 * ms, 500 * ms, 1000 * ms}[rng.Intn(3)]
	n := 2 + rng.Intn(4)
	sc := &Scenario{Name: "takeover", Seed: seed, StoreTTL: 3 * h, Lat: map[int]LatSpec{0: {Min: 1 * ms, Max: h / 10}},
		WatchMin: 1 * ms, WatchMax: h / 10, Sample: h / 2, NoOutside: true, MaxLat: h / 10, Responsive: true}
	for i := 1; i <= n; i++ {
		is := baseInst(i, h)
		is.Prio = rng.Intn(4)
		is.Takeover = rng.Intn(3) > 0 && is.Prio > 0
		if rng.Intn(4) == 0 {
			is.Promote = "block"
		}
		if rng.Intn(4) == 0 {
			// a health checker that reports unhealthy on a few early ticks and is fine ever after: whatever the heartbeat loop
			// counted in an earlier term is no business of a later acquisition or takeover
			is.HasHealth = true
			is.MaxFail = 1 + rng.Intn(3)
			for k := 0; k < 2+rng.Intn(4); k++ {
				is.Health = append(is.Health, []int{0, 0, 1}[rng.Intn(3)])
			}
			// sc.Responsive = false // XX
		}
		sc.Insts = append(sc.Insts, is)
		sc.Steps = append(sc.Steps, Step{At: time.Duration(rng.Int63n(int64(6 * h))), Kind: "start", Inst: i})
	}
	if rng.Intn(3) == 0 {
		sc.Steps = append(sc.Steps, Step{At: 8*h + time.Duration(rng.Int63n(int64(4*h))), Kind: []string{"stop", "stopctx"}[rng.Intn(2)], Inst: 1 + rng.Intn(n), Del: rng.Intn(2) == 0})
	}
	if rng.Intn(3) == 0 {
		// slow down one instance's operations so that its reads span other instances' writes
		sc.Lat[1+rng.Intn(n)] = LatSpec{Min: h / 4, Max: 2 * h}
		sc.Responsive = false
		sc.MaxLat = 0
	}
	sc.End = 20 * h
	return sc
}

// genVacancy: the leader disappears (graceful stop with deletion, crash, partition, outside deletion)
// while candidates are healthy; any subset of watch events may be lost (C06).
func genVacancy(rng *rand.Rand, seed int64) *Scenario {
	h := []time.Duration{200 * ms, 500 * ms, 1000 * ms}[rng.Intn(3)]
	n := 2 + rng.Intn(3)
	sc := &Scenario{Name: "vacancy", Seed: seed, StoreTTL: 3 * h, Lat: map[int]LatSpec{0: {Min: 1 * ms, Max: h / 8}},
		WatchMin: 1 * ms, WatchMax: h / 2, Sample: h / 2, NoPreempt: true, MaxLat: h / 8, NoOutside: true}
	// (one in three: the whole group is configured for priority takeover with equal priorities - nobody may preempt
	//  anybody, and a refused takeover must leave a follower, not a candidate that has given up)
	eq := rng.Intn(3) == 0
	for i := 1; i <= n; i++ {
		is := baseInst(i, h)
		if eq {
			is.Takeover = true
			is.Prio = 2
		}
		sc.Insts = append(sc.Insts, is)
		sc.Steps = append(sc.Steps, Step{At: time.Duration(i-1) * 40 * ms, Kind: "start", Inst: i})
	}
	sc.WatchDrop = []float64{0, 0.3, 1}[rng.Intn(3)]
	if rng.Intn(3) == 0 && h <= 500*ms {
		// a store that is slow next to the heartbeat interval (answers take 55-90 % of it, still less than the 500 ms between
		// two periodic checks): nothing in the property ties the latency to H, and the heartbeat's own time-out is a full
		// second at least
		sc.Lat[0] = LatSpec{Min: h * 55 / 100, Max: h * 9 / 10}
		sc.MaxLat = h * 9 / 10
		sc.WatchMax = h / 4
	}
	at := 3*h + time.Duration(rng.Int63n(int64(3*h)))
	switch rng.Intn(4) {
	case 0:
		sc.Steps = append(sc.Steps, Step{At: at, Kind: "stopctx", Inst: 1, Del: true})
	case 1:
		sc.Steps = append(sc.Steps, Step{At: at, Kind: "crash", Inst: 1})
	case 2:
		sc.Steps = append(sc.Steps, Step{At: at, Kind: "partition", Inst: 1, N: 1})
	default:
		sc.NoOutside = false
		sc.Steps = append(sc.Steps, Step{At: at, Kind: "extdelete", Key: "g"})
	}
	if rng.Intn(3) == 0 {
		// a candidate's Watch call fails once or twice around the event
		sc.Steps = append(sc.Steps, Step{At: time.Duration(rng.Int63n(int64(at))), Kind: "watchfail", Inst: 2, N: []int{1, 2, 5, 9}[rng.Intn(4)]})
	}
	if rng.Intn(4) == 0 {
		// every candidate's Watch call keeps failing around the vacancy: the periodic check alone must fill it
		for i := 2; i <= n; i++ {
			sc.Steps = append(sc.Steps, Step{At: at - time.Duration(rng.Int63n(int64(2*h))), Kind: "watchfail", Inst: i, N: 6 + rng.Intn(6)})
		}
	}
	sc.End = at + 14*h
	return sc
}

// genRoundEnd: the key falls vacant while followers are in the last attempts of an acquisition round that is failing
// against the leader's record (the round every follower runs right after it began to watch): the end of that round - its
// last refused Create, its warning, its fall-back to follower - races the round that the deletion starts, which wins.
// The log sink is slow (C07, C08: a round that gives up must not take the new term with it).
func genRoundEnd(rng *rand.Rand, seed int64) *Scenario {
	h := []time.Duration{500 * ms, 1000 * ms}[rng.Intn(2)]
	n := 2 + rng.Intn(3)
	sc := &Scenario{Name: "roundend", Seed: seed, StoreTTL: 3 * h, Lat: map[int]LatSpec{0: {Min: 1 * ms, Max: 6 * ms}},
		WatchMin: 1 * ms, WatchMax: 5 * ms, Sample: h / 2, NoPreempt: true, MaxLat: 6 * ms, NoOutside: true}
	sc.Insts = append(sc.Insts, baseInst(1, h))
	sc.Steps = append(sc.Steps, Step{At: 0, Kind: "start", Inst: 1})
	t0 := h + time.Duration(rng.Int63n(int64(h)))
	for i := 2; i <= n; i++ {
		sc.Insts = append(sc.Insts, baseInst(i, h))
		sc.Steps = append(sc.Steps, Step{At: t0 + time.Duration(rng.Int63n(int64(60*ms))), Kind: "start", Inst: i})
	}
	// a follower's first round: jitter 10-100 ms, then attempts 50, 100 and 200 ms (each +-10 %) apart
	at := t0 + 300*ms + time.Duration(rng.Int63n(int64(320*ms)))
	if rng.Intn(2) == 0 {
		sc.Steps = append(sc.Steps, Step{At: at, Kind: "stopctx", Inst: 1, Del: true})
	} else {
		sc.NoOutside = false
		sc.Steps = append(sc.Steps, Step{At: at, Kind: "extdelete", Key: "g"})
	}
	sc.End = at + 10*h
	return sc
}

// genSlowSink: a log sink that takes its time over every record (up to a few hundred milliseconds, whenever no mutex of
// the election is held): every log call in the library's straight-line code becomes a place where the rest of the
// system moves on - terms end, records change hands, the instance is elected again.  No promise is made about the store or
// about time; the trace is checked for what must hold in any order of events: who may write what (C01, C05), which
// callbacks follow which (C08), the token handed to a callback (C05), contexts (C19), the transition chain (C18).
func genSlowSink(rng *rand.Rand, seed int64) *Scenario {
	h := []time.Duration{200 * ms, 500 * ms}[rng.Intn(2)]
	n := 1 + rng.Intn(3)
	sc := &Scenario{Name: "slowsink", Seed: seed, StoreTTL: 3 * h, Lat: map[int]LatSpec{0: {Min: 1 * ms, Max: h / 10}},
		WatchMin: 1 * ms, WatchMax: h / 10, Sample: h / 2, MaxLat: 0}
	sc.SlowAll = time.Duration(50+rng.Intn(400)) * ms
	for i := 1; i <= n; i++ {
		is := baseInst(i, h)
		if rng.Intn(3) == 0 {
			is.Promote = "block"
		}
		if rng.Intn(3) == 0 {
			is.Prio = 1 + rng.Intn(2)
			is.Takeover = rng.Intn(2) == 0
		}
		if rng.Intn(4) == 0 {
			is.Val = h + time.Duration(rng.Int63n(int64(h)))
		}
		sc.Insts = append(sc.Insts, is)
		sc.Steps = append(sc.Steps, Step{At: time.Duration(rng.Int63n(int64(h))), Kind: "start", Inst: i})
	}
	// what ends terms and starts new ones: the record removed or replaced from outside, explicit validation, stops and restarts
	t := h
	for k := 0; k < 4+rng.Intn(8); k++ {
		t += time.Duration(rng.Int63n(int64(3 * h)))
		i := 1 + rng.Intn(n)
		switch rng.Intn(7) {
		case 0, 1:
			sc.Steps = append(sc.Steps, Step{At: t, Kind: "extdelete", Key: "g"})
		case 2:
			sc.Steps = append(sc.Steps, Step{At: t, Kind: "extput", Key: "g", Bytes: `{"id":"outsider","token":"zz","priority":0}`})
			sc.Steps = append(sc.Steps, Step{At: t + time.Duration(rng.Int63n(int64(h))), Kind: "extdelete", Key: "g"})
		case 3, 4:
			sc.Steps = append(sc.Steps, Step{At: t, Kind: "validate-or-demote", Inst: i})
		case 5:
			sc.Steps = append(sc.Steps, Step{At: t, Kind: []string{"stop", "stopctx"}[rng.Intn(2)], Inst: i, Del: rng.Intn(2) == 0, Then: "start"})
		default:
			sc.Steps = append(sc.Steps, Step{At: t, Kind: "cancelstart", Inst: i})
		}
	}
	sc.End = t + 8*h
	sort.SliceStable(sc.Steps, func(a, b int) bool { return sc.Steps[a].At < sc.Steps[b].At })
	return sc
}

// genTakeoverStop: a lower-priority leader is preempted and shut down gracefully with DeleteKey at a
// chosen phase of the preemptor's takeover write (before it noticed the preemption) (C01, C09, C10).
func genTakeoverStop(rng *rand.Rand, seed int64) *Scenario {
	h := []time.Duration{500 * ms, 1000 * ms}[rng.Intn(2)]
	sc := &Scenario{Name: "takeoverstop", Seed: seed, StoreTTL: 3 * h, Lat: map[int]LatSpec{0: {Min: 1 * ms, Max: 10 * ms}},
		WatchMin: h / 2, WatchMax: h, Sample: h / 2, NoOutside: true, MaxLat: 0}
	a := baseInst(1, h)
	a.Prio = 1
	c := baseInst(2, h)
	c.Prio = 2
	c.Takeover = true
	sc.Insts = []InstSpec{a, c}
	sc.Steps = append(sc.Steps, Step{At: 0, Kind: "start", Inst: 1})
	sc.Steps = append(sc.Steps, Step{At: h/4 + time.Duration(rng.Int63n(int64(h/2))), Kind: "start", Inst: 2})
	sc.Plans = map[string]OpPlan{"2:2": {Pre: 5*ms + 1, Post: 5*ms + 1}}
	phase := []string{"call", "apply"}[rng.Intn(2)]
	st := Step{Kind: "stopctx", Inst: 1, Del: true, Wait: rng.Intn(2) == 0}
	if rng.Intn(4) == 0 {
		st.Del = false
	}
	sc.Triggers = []Trigger{{Inst: 2, Nth: 2, Phase: phase, Delay: time.Duration(rng.Intn(12)) * ms, Step: st}}
	sc.End = 8 * h
	if rng.Intn(3) == 0 {
		// instead of being stopped the incumbent is asked to validate its token around the moment it is preempted, and its
		// store operations are slow: by the time the read is answered it has been refused a refresh, or told by its
		// watcher, and follows the preemptor - a verdict "valid" would be about somebody else's record
		// (the read has to span the preemptor's first refresh and be answered before the second; the incumbent's refreshes
		//  stay within the heartbeat's own time-out of one second)
		h = 500 * ms
		for k := range sc.Insts {
			sc.Insts[k].H, sc.Insts[k].TTL = h, 3*h
		}
		sc.StoreTTL, sc.Sample = 3*h, h/2
		sc.Steps[1].At = h/4 + time.Duration(rng.Int63n(int64(h/2)))
		sc.Lat[1] = LatSpec{Min: h / 2, Max: 2*h - 50*ms}
		sc.Steps[1].At += 4 * h
		sc.WatchMin, sc.WatchMax = 1*ms, h/8
		kind := []string{"validate", "validate-or-demote"}[rng.Intn(2)]
		sc.Triggers = []Trigger{{Inst: 2, Nth: 2, Phase: phase, Delay: time.Duration(rng.Intn(12)) * ms, Step: Step{Kind: kind, Inst: 1}}}
		for k := 0; k < 2; k++ {
			sc.Steps = append(sc.Steps, Step{At: sc.Steps[1].At + time.Duration(rng.Int63n(int64(2*h))), Kind: kind, Inst: 1})
		}
		sc.End = 12 * h
	}
	return sc
}

// genStopTimeout: StopWithContext with a short time-out while tracked work cannot finish
// (a promotion callback that ignores its context, a hung store operation) (C08, C09).
func genStopTimeout(rng *rand.Rand, seed int64) *Scenario {
	h := 500 * ms
	sc := &Scenario{Name: "stoptimeout", Seed: seed, StoreTTL: 3 * h, Lat: map[int]LatSpec{0: {Min: 1 * ms, Max: 20 * ms}},
		WatchMin: 1 * ms, WatchMax: 20 * ms, Sample: h / 2, NoOutside: true, NoPreempt: true, MaxLat: 20 * ms}
	a := baseInst(1, h)
	a.Promote = "sleep"
	sc.Insts = []InstSpec{a}
	sc.Steps = append(sc.Steps, Step{At: 0, Kind: "start", Inst: 1})
	st := Step{At: h + time.Duration(rng.Int63n(int64(h))), Kind: "stopctx", Inst: 1, Timeout: time.Duration(200+rng.Intn(800)) * ms, Del: rng.Intn(2) == 0, Wait: rng.Intn(2) == 0}
	if rng.Intn(3) == 0 {
		st.Timeout = 0
		st.CtxTimeout = time.Duration(200+rng.Intn(800)) * ms
	}
	if rng.Intn(4) == 0 {
		// plain Stop on a leader whose promotion callback outlasts Stop's own patience (5 s)
		sc.Insts[0].Promote = "slow"
		st = Step{At: st.At, Kind: "stop", Inst: 1}
	}
	sc.Steps = append(sc.Steps, st)
	if rng.Intn(2) == 0 {
		sc.Steps = append(sc.Steps, Step{At: st.At + 6*time.Second, Kind: "stop", Inst: 1})
	}
	sc.End = st.At + 8*time.Second
	return sc
}

// genSpin: zero-latency store, unparsable or odd record contents, takeover-enabled candidates (C13).
func genSpin(rng *rand.Rand, seed int64) *Scenario {
	h := 500 * ms
	sc := &Scenario{Name: "spin", Seed: seed, StoreTTL: 3 * h, Lat: map[int]LatSpec{0: {Min: 0, Max: 0}},
		WatchMin: 0, WatchMax: 1 * ms, Sample: h, MaxLat: 0}
	n := 1 + rng.Intn(2)
	for i := 1; i <= n; i++ {
		is := baseInst(i, h)
		is.Takeover = true
		is.Prio = 1 + rng.Intn(3)
		sc.Insts = append(sc.Insts, is)
	}
	v := tamperValues[rng.Intn(len(tamperValues))]
	sc.Steps = append(sc.Steps, Step{At: 0, Kind: "extput", Key: "g", Bytes: v})
	for i := 1; i <= n; i++ {
		sc.Steps = append(sc.Steps, Step{At: time.Duration(1+rng.Intn(100)) * ms, Kind: "start", Inst: i})
	}
	// keep the odd record alive for a while
	for k := 1; k < 4; k++ {
		sc.Steps = append(sc.Steps, Step{At: time.Duration(k) * h, Kind: "extput", Key: "g", Bytes: v})
	}
	sc.End = 8 * h
	return sc
}

// genSlowHB: short heartbeat intervals (H < 333 ms, so that the 1 s floor of the update time-out exceeds
// 3 H) with refreshes that take almost the whole time-out, then an outage (C03b's bound).
func genSlowHB(rng *rand.Rand, seed int64) *Scenario {
	h := []time.Duration{100 * ms, 200 * ms, 300 * ms, 400 * ms}[rng.Intn(4)]
	sc := &Scenario{Name: "slowhb", Seed: seed, StoreTTL: 3 * h, Lat: map[int]LatSpec{0: {Min: 1 * ms, Max: 10 * ms}},
		WatchMin: 1 * ms, WatchMax: 10 * ms, Sample: 250 * ms, NoOutside: true, NoPreempt: true, MaxLat: 0}
	is := baseInst(1, h)
	is.TTL = 30 * time.Second // keep the record alive: only the heartbeat failure path is of interest
	sc.StoreTTL = 30 * time.Second
	sc.Insts = []InstSpec{is}
	sc.Steps = append(sc.Steps, Step{At: 0, Kind: "start", Inst: 1})
	sc.Plans = map[string]OpPlan{}
	// operation 0 is the Create; refreshes are operations 1, 2, ... (no watcher for an instance that leads from the start)
	k := 1 + rng.Intn(4)
	for j := 1; j <= k; j++ {
		d := time.Duration(700+rng.Intn(290)) * ms
		if rng.Intn(3) == 0 {
			d = time.Duration(5+rng.Intn(50)) * ms
		}
		sc.Plans[fmt.Sprintf("1:%d", j)] = OpPlan{Pre: d/2 + 1, Post: d / 2}
	}
	fault := []string{"hang", "err", "acklost", "hangafter"}[rng.Intn(4)]
	for j := k + 1; j <= k+6; j++ {
		p := OpPlan{Pre: 1*ms + 1, Post: 1 * ms, Fault: fault, Err: "timeout"}
		if fault == "err" && rng.Intn(2) == 0 {
			p.Pre, p.Post = time.Duration(400+rng.Intn(500))*ms+1, 0
		}
		sc.Plans[fmt.Sprintf("1:%d", j)] = p
	}
	sc.End = time.Duration(k+8) * time.Second
	return sc
}

// genHealthRace: a leader whose health checks are slow (up to just under the 100 ms limit) is
// preempted or tampered with while a check is running; the tick body continues afterwards (C01, C12).
func genHealthRace(rng *rand.Rand, seed int64) *Scenario {
	h := []time.Duration{200 * ms, 300 * ms, 500 * ms}[rng.Intn(3)]
	sc := &Scenario{Name: "healthrace", Seed: seed, StoreTTL: 3 * h, Lat: map[int]LatSpec{0: {Min: 1 * ms, Max: 8 * ms}},
		WatchMin: 1 * ms, WatchMax: 10 * ms, Sample: h / 2, NoOutside: true, MaxLat: 0}
	a := baseInst(1, h)
	a.Prio = 1
	a.HasHealth = true
	for k := 0; k < 40; k++ {
		a.Health = append(a.Health, 3)
	}
	b := baseInst(2, h)
	b.Prio = 2
	b.Takeover = true
	sc.Insts = []InstSpec{a, b}
	// A first meets a foreign record (so that it starts as a follower and keeps its watch loop when it leads later)
	sc.NoOutside = false
	sc.Steps = append(sc.Steps, Step{At: 0, Kind: "extput", Key: "g", Bytes: `{"id":"old","token":"old-token","priority":9}`})
	sc.Steps = append(sc.Steps, Step{At: time.Duration(1+rng.Intn(400)) * ms, Kind: "start", Inst: 1})
	// B starts at a random phase of A's ticks once A leads (A acquires after the foreign record expired at 3H)
	k := 5 + rng.Intn(4)
	sc.Steps = append(sc.Steps, Step{At: time.Duration(k)*h + time.Duration(rng.Int63n(int64(h))), Kind: "start", Inst: 2})
	if rng.Intn(2) == 0 {
		sc.NoOutside = false
		sc.Steps = append(sc.Steps, Step{At: time.Duration(k+2)*h + time.Duration(rng.Intn(90))*ms, Kind: "extput", Key: "g", Bytes: `{"id":"intruder","token":"zzz","priority":5}`})
	}
	sc.End = time.Duration(k+8) * h
	return sc
}

// genAckLostTakeover: the acknowledgement of a takeover-enabled candidate's Create is lost (the write
// was applied), its record expires and a lower-priority instance creates the key before the
// candidate's client gives up; the candidate then preempts (C05: tokens never reappear).
func genAckLostTakeover(rng *rand.Rand, seed int64) *Scenario {
	h := 200 * ms
	sc := &Scenario{Name: "acklosttakeover", Seed: seed, StoreTTL: 3 * h, Lat: map[int]LatSpec{0: {Min: 1 * ms, Max: 10 * ms}},
		WatchMin: 1 * ms, WatchMax: 10 * ms, Sample: h / 2, NoOutside: true, MaxLat: 0}
	a := baseInst(1, h)
	a.Prio = 2
	a.Takeover = true
	b := baseInst(2, h)
	b.Prio = 1
	sc.Insts = []InstSpec{a, b}
	sc.Plans = map[string]OpPlan{"1:0": {Pre: 5*ms + 1, Post: 5 * ms, Fault: "hangafter"}}
	sc.Steps = append(sc.Steps, Step{At: 0, Kind: "start", Inst: 1})
	sc.Steps = append(sc.Steps, Step{At: 3*h + time.Duration(rng.Intn(900))*ms, Kind: "start", Inst: 2})
	sc.End = 5 * time.Second
	return sc
}

// genAckLostHB: the acknowledgement of a leader's refresh is lost (the write was applied), so its next refresh presents a
// stale revision and is refused; a takeover-enabled, higher-priority instance starts around that moment: whatever the old
// leader does next, it must not touch the record again (C01: a refused refresh ends the term).
func genAckLostHB(rng *rand.Rand, seed int64) *Scenario {
	h := []time.Duration{200 * ms, 400 * ms}[rng.Intn(2)]
	sc := &Scenario{Name: "acklosthb", Seed: seed, StoreTTL: 3 * h, Lat: map[int]LatSpec{0: {Min: 1 * ms, Max: h / 8}},
		WatchMin: 1 * ms, WatchMax: h / 8, Sample: h / 2, NoOutside: true, MaxLat: 0}
	a := baseInst(1, h)
	a.Prio = rng.Intn(2)
	if rng.Intn(3) == 0 {
		a.Val = h + time.Duration(rng.Int63n(int64(h)))
	}
	b := baseInst(2, h)
	b.Prio = 2
	b.Takeover = true
	sc.Insts = []InstSpec{a, b}
	sc.MockErrs = rng.Intn(2) == 0
	// A's k-th store operation is its k-th refresh (it starts alone: no watch loop)
	k := 2 + rng.Intn(3)
	sc.Plans = map[string]OpPlan{fmt.Sprintf("1:%d", k): {Pre: 3*ms + 1, Post: 4 * ms, Fault: "acklost", Err: []string{"timeout", "other", "noresponders"}[rng.Intn(3)]}}
	// slow reads for A from then on: a second reader has time to slip in between two of them
	sc.Lat[1] = LatSpec{Min: h / 16, Max: h / 4}
	sc.Steps = append(sc.Steps, Step{At: 0, Kind: "start", Inst: 1})
	// B arrives around A's next tick (tick k+1 is at about (k+1)·H after the acquisition)
	at := time.Duration(k+1)*h + time.Duration(rng.Int63n(int64(h))) - h/4
	sc.Steps = append(sc.Steps, Step{At: at, Kind: "start", Inst: 2})
	sc.End = at + 8*h
	return sc
}

// genLease: the hypotheses of C02 / C07 at their edge — latencies up to just below H/2, TTL ratios from 3 up,
// heartbeat intervals that differ inside the group, arbitrary watch delays (optionally lost notifications),
// and instances that start, stop (both calls, every option), and restart at arbitrary moments.
func genLease(rng *rand.Rand, seed int64) *Scenario {
	h := []time.Duration{200 * ms, 300 * ms, 500 * ms, 1000 * ms}[rng.Intn(4)]
	ratio := []int{3, 3, 4, 6}[rng.Intn(4)]
	n := 2 + rng.Intn(4)
	minH := h
	hs := make([]time.Duration, n+1)
	for i := 1; i <= n; i++ {
		hs[i] = h
		if rng.Intn(4) == 0 {
			hs[i] = h / 2
			minH = h / 2
		}
	}
	ttl := time.Duration(ratio) * h
	maxLat := minH / 2
	latMax := maxLat - 2*ms
	if rng.Intn(3) == 0 {
		latMax = maxLat / 4
	}
	sc := &Scenario{Name: "lease", Seed: seed, StoreTTL: ttl, Lat: map[int]LatSpec{0: {Min: 1 * ms, Max: latMax}},
		WatchMin: 1 * ms, WatchMax: []time.Duration{h / 8, h, 2 * h}[rng.Intn(3)], End: 24 * h, Sample: h / 2,
		Responsive: true, NoOutside: true, NoPreempt: true, FaultFree: true, MaxLat: maxLat}
	if rng.Intn(3) == 0 {
		sc.WatchDrop = 0.3
		sc.FaultFree = false
	}
	for i := 1; i <= n; i++ {
		is := InstSpec{ID: i, Group: "g", TTL: ttl, H: hs[i]}
		switch rng.Intn(6) {
		case 0:
			is.Promote = "none"
		case 1:
			is.Promote = "block"
		}
		sc.Insts = append(sc.Insts, is)
		at := time.Duration(rng.Int63n(int64(3*h)))/2*2 + 1
		sc.Steps = append(sc.Steps, Step{At: at, Kind: "start", Inst: i})
		if rng.Intn(3) == 0 {
			// the application registers its callbacks again at some point of the instance's life (the same functions: a
			// re-initialised component): what is running goes on running
			sc.Steps = append(sc.Steps, Step{At: at + time.Duration(rng.Int63n(int64(12*h)))/2*2 + 1, Kind: "rereg", Inst: i})
		}
		// a life of stops and restarts
		for at < 20*h && rng.Intn(3) > 0 {
			at += time.Duration(rng.Int63n(int64(8*h)))/2*2 + 2
			switch rng.Intn(4) {
			case 0:
				sc.Steps = append(sc.Steps, Step{At: at, Kind: "stop", Inst: i})
			case 1:
				// the application ends the run by cancelling the context it passed to Start (sometimes starting it again
				// in the same breath)
				sc.Steps = append(sc.Steps, Step{At: at, Kind: []string{"cancelctx", "cancelctx", "cancelstart"}[rng.Intn(3)], Inst: i})
			default:
				sc.Steps = append(sc.Steps, Step{At: at, Kind: "stopctx", Inst: i, Del: rng.Intn(3) > 0, Wait: rng.Intn(2) == 0,
					Timeout: []time.Duration{0, 50 * ms, 2 * time.Second}[rng.Intn(3)]})
			}
			if rng.Intn(4) > 0 {
				at += time.Duration(rng.Int63n(int64(3*h)))/2*2 + 2
				sc.Steps = append(sc.Steps, Step{At: at, Kind: "start", Inst: i})
			} else {
				break
			}
		}
	}
	sort.SliceStable(sc.Steps, func(a, b int) bool { return sc.Steps[a].At < sc.Steps[b].At })
	return sc
}

// genRestart: lifecycles over several runs of one election object next to a competitor — a first run stopped (either
// call, every option) at a chosen phase of its first store operation, a pause shorter or longer than the TTL, a
// restart, and a final StopWithContext with DeleteKey; the competitor starts before, between or after (C02, C09, C01).
func genRestart(rng *rand.Rand, seed int64) *Scenario {
	h := []time.Duration{200 * ms, 500 * ms}[rng.Intn(2)]
	ttl := 3 * h
	sc := &Scenario{Name: "restart", Seed: seed, StoreTTL: ttl, Lat: map[int]LatSpec{0: {Min: 1 * ms, Max: h / 8}},
		WatchMin: 1 * ms, WatchMax: h / 4, Sample: h / 2, Plans: map[string]OpPlan{},
		Responsive: true, NoOutside: true, NoPreempt: true, FaultFree: true, MaxLat: h / 4}
	a := InstSpec{ID: 1, Group: "g", TTL: ttl, H: h}
	b := InstSpec{ID: 2, Group: "g", TTL: ttl, H: h}
	if rng.Intn(4) == 0 {
		a.Promote = "block"
	}
	sc.Insts = []InstSpec{a, b}
	// the first operation of A (the Create of its first run) has a known shape
	pre := h/16 + time.Duration(rng.Int63n(int64(h/16)))/2*2 + 1
	post := h/16 + time.Duration(rng.Int63n(int64(h/16)))/2*2
	sc.Plans["1:0"] = OpPlan{Pre: pre, Post: post}
	t0 := time.Duration(rng.Int63n(int64(h)))/2*2 + 1
	sc.Steps = append(sc.Steps, Step{At: t0, Kind: "start", Inst: 1})
	// first stop: around the Create
	var d time.Duration
	switch rng.Intn(5) {
	case 0:
		d = 0
	case 1:
		d = pre / 2
	case 2:
		d = pre + post/2
	case 3:
		d = pre + post + 1
	default:
		d = pre + post + time.Duration(rng.Int63n(int64(4*h)))
	}
	first := Step{At: t0 + d, Kind: "stop", Inst: 1}
	if rng.Intn(3) == 0 {
		first = Step{At: t0 + d, Kind: []string{"cancelctx", "cancelstart"}[rng.Intn(2)], Inst: 1}
	} else if rng.Intn(2) == 0 {
		first = Step{At: t0 + d, Kind: "stopctx", Inst: 1, Del: rng.Intn(2) == 0, Wait: rng.Intn(2) == 0,
			Timeout: []time.Duration{0, h / 32, 2 * time.Second}[rng.Intn(3)]}
	}
	sc.Steps = append(sc.Steps, first)
	// pause, restart
	pause := []time.Duration{h / 4, h, ttl + h, ttl + 2*h}[rng.Intn(4)] + time.Duration(rng.Int63n(int64(h/2)))/2*2
	t1 := first.At + pause
	sc.Steps = append(sc.Steps, Step{At: t1, Kind: "start", Inst: 1})
	// the competitor
	tb := []time.Duration{0, first.At + h/8, first.At + ttl + h/2, t1 + h/2}[rng.Intn(4)] + time.Duration(rng.Int63n(int64(h/4)))/2*2 + 3
	sc.Steps = append(sc.Steps, Step{At: tb, Kind: "start", Inst: 2})
	// final stop of A with key deletion (sometimes the other way round: B stops)
	t2 := t1 + h/2 + time.Duration(rng.Int63n(int64(6*h)))/2*2
	who := 1
	if rng.Intn(5) == 0 {
		who = 2
	}
	sc.Steps = append(sc.Steps, Step{At: t2, Kind: "stopctx", Inst: who, Del: true, Wait: rng.Intn(2) == 0})
	if rng.Intn(4) == 0 {
		// the answer to that stop call's Delete is lost: the record is gone, the other instance takes over, the call runs
		// into its time-out - whatever it does next must leave the successor's record alone
		sc.Lat[who] = LatSpec{Min: 1 * ms, Max: h / 8, FaultProb: 1, Faults: []string{"acklost"}, From: t2, To: t2 + 4*time.Second}
		sc.Responsive, sc.FaultFree = false, false
		sc.FaultsEnd = t2 + 4*time.Second + 1
	}
	if rng.Intn(3) == 0 {
		sc.Steps = append(sc.Steps, Step{At: t2 + h + time.Duration(rng.Int63n(int64(2*h))), Kind: "start", Inst: who})
	}
	sc.End = t2 + 4*ttl
	sort.SliceStable(sc.Steps, func(i, j int) bool { return sc.Steps[i].At < sc.Steps[j].At })
	return sc
}

// genMix: everything at once — instances with random features (priorities and takeover, scripted health checks,
// connection monitoring, periodic validation, blocking callbacks), random latencies with transient faults, and a random
// programme of API calls, connection notifications, outside writes, partitions, crashes and Watch failures.  No
// hypothesis is promised: only the unconditional properties and the implementation models are checked.
func genMix(rng *rand.Rand, seed int64) *Scenario {
	h := []time.Duration{200 * ms, 400 * ms, 1000 * ms}[rng.Intn(3)]
	ttl := time.Duration(3+rng.Intn(3)) * h
	n := 1 + rng.Intn(4)
	sc := &Scenario{Name: "mix", Seed: seed, StoreTTL: ttl, Lat: map[int]LatSpec{0: {Min: 1 * ms, Max: h / 6}},
		WatchMin: 1 * ms, WatchMax: []time.Duration{h / 8, h / 2, h}[rng.Intn(3)], Sample: h / 2, MaxLat: 0}
	if rng.Intn(3) == 0 {
		sc.WatchDrop = 0.3
	}
	end := 30 * h
	twoGroups := n >= 2 && rng.Intn(4) == 0
	for i := 1; i <= n; i++ {
		is := InstSpec{ID: i, Group: "g", TTL: ttl, H: h}
		if twoGroups && i%2 == 0 {
			is.Group = "h" // a second election group in the same bucket
			if seed%2 == 0 {
				is.Group = "g#" // (… whose name differs from "g_" or "g" only in a character a key would not allow)
			}
		}
		if rng.Intn(3) == 0 {
			is.Prio = rng.Intn(4)
			is.Takeover = is.Prio > 0 && rng.Intn(3) > 0
		}
		if rng.Intn(4) == 0 {
			is.HasHealth = true
			is.MaxFail = rng.Intn(4)
			for k := 0; k < 40; k++ {
				is.Health = append(is.Health, []int{1, 1, 1, 0, 0, 2}[rng.Intn(6)])
			}
		}
		if rng.Intn(3) == 0 {
			is.ConnMon = true
			if rng.Intn(2) == 0 {
				is.Grace = 2*h + time.Duration(rng.Int63n(int64(2*h)))
			}
		}
		if rng.Intn(3) == 0 {
			is.Val = h + time.Duration(rng.Int63n(int64(2*h)))
		}
		switch rng.Intn(6) {
		case 0:
			is.Promote = "block"
		case 1:
			is.Promote = "none"
		}
		sc.Insts = append(sc.Insts, is)
		sc.Steps = append(sc.Steps, Step{At: time.Duration(rng.Int63n(int64(3*h)))/2*2 + 1, Kind: "start", Inst: i})
		if rng.Intn(3) == 0 {
			sc.Lat[i] = LatSpec{Min: 1 * ms, Max: []time.Duration{h / 4, h, 2 * h}[rng.Intn(3)], FaultProb: []float64{0, 0.1, 0.4}[rng.Intn(3)],
				Faults: []string{"err", "hang", "acklost", "hangafter"}, From: time.Duration(rng.Int63n(int64(end / 2))), To: end/2 + time.Duration(rng.Int63n(int64(end/2)))}
		}
	}
	k := 4 + rng.Intn(12)
	for j := 0; j < k; j++ {
		at := time.Duration(rng.Int63n(int64(end-2*h)))/2*2 + 1
		i := 1 + rng.Intn(n)
		switch rng.Intn(14) {
		case 0:
			sc.Steps = append(sc.Steps, Step{At: at, Kind: "stop", Inst: i})
		case 1, 2:
			sc.Steps = append(sc.Steps, Step{At: at, Kind: "stopctx", Inst: i, Del: rng.Intn(2) == 0, Wait: rng.Intn(2) == 0,
				Timeout: []time.Duration{0, h / 16, 2 * time.Second}[rng.Intn(3)]})
		case 3, 4:
			sc.Steps = append(sc.Steps, Step{At: at, Kind: "start", Inst: i})
		case 5:
			sc.Steps = append(sc.Steps, Step{At: at, Kind: "validate", Inst: i, CtxTimeout: []time.Duration{0, h / 10}[rng.Intn(2)]})
		case 6:
			sc.Steps = append(sc.Steps, Step{At: at, Kind: "validate-or-demote", Inst: i})
		case 7:
			sc.Steps = append(sc.Steps, Step{At: at, Kind: "extput", Key: sc.Insts[i-1].Group, Bytes: tamperValues[rng.Intn(len(tamperValues))]})
		case 8:
			sc.Steps = append(sc.Steps, Step{At: at, Kind: "extdelete", Key: sc.Insts[i-1].Group})
		case 9, 10:
			if sc.Insts[i-1].ConnMon {
				sc.Steps = append(sc.Steps, Step{At: at, Kind: []string{"disconnect", "reconnect", "closed"}[rng.Intn(3)], Inst: i})
				if rng.Intn(2) == 0 {
					sc.Steps = append(sc.Steps, Step{At: at + time.Duration(rng.Int63n(int64(3*h)))/2*2 + 2, Kind: "reconnect", Inst: i})
				}
			}
		case 11:
			sc.Steps = append(sc.Steps, Step{At: at, Kind: "partition", Inst: i, N: 1}, Step{At: at + time.Duration(rng.Int63n(int64(4*h)))/2*2 + 2, Kind: "partition", Inst: i, N: 0})
		case 12:
			if rng.Intn(2) == 0 {
				sc.Steps = append(sc.Steps, Step{At: at, Kind: []string{"cancelctx", "cancelstart"}[rng.Intn(2)], Inst: i})
			} else {
				sc.Steps = append(sc.Steps, Step{At: at, Kind: "watchfail", Inst: i, N: 1 + rng.Intn(6)})
			}
		default:
			if rng.Intn(4) == 0 {
				sc.Steps = append(sc.Steps, Step{At: at, Kind: "crash", Inst: i})
			}
		}
	}
	sc.FaultsEnd = 1 << 60
	sc.End = end
	sort.SliceStable(sc.Steps, func(a, b int) bool { return sc.Steps[a].At < sc.Steps[b].At })
	return sc
}
