package harness

import (
	"math/rand/v2"
	"sync"
	_ "unsafe" // go:linkname
)

// The library draws its acquisition jitter and backoff jitter from math/rand/v2's global generator, which cannot be
// seeded.  For replayable scenarios the harness replaces that generator's source (the test binary is linked with
// -checklinkname=0) by a seeded one at the start of every scenario.

//go:linkname globalRand math/rand/v2.globalRand
var globalRand *rand.Rand

type lockedSource struct {
	mu  sync.Mutex
	pcg *rand.PCG
}

func (s *lockedSource) Uint64() uint64 {
	s.mu.Lock()
	defer s.mu.Unlock()
	return s.pcg.Uint64()
}

// seedLibraryRand makes every later draw of the library a function of seed.
func seedLibraryRand(seed int64) {
	*globalRand = *rand.New(&lockedSource{pcg: rand.NewPCG(uint64(seed), uint64(seed)*0x9e3779b97f4a7c15+1)})
}
