//go:build verif

package harness

import (
	"context"
	"encoding/json"
	"fmt"
	"math/rand"
	mrand "math/rand/v2"
	"runtime"
	"sync"
	"sync/atomic"
	"time"

	"github.com/ali-assar/NATS-Leader-Election/leader"
	"github.com/prometheus/client_golang/prometheus"
)

// runStress exercises, in real time and on all cores, what the cooperative scheduling of the scenario runner cannot:
// several demotion causes of one term firing at the same instant from different goroutines (C08: exactly one demotion
// callback per term).  Each cycle: start, wait for leadership, let an outside writer replace the record, call
// ValidateTokenOrDemote from several goroutines released together (plus the heartbeat and validation loops that hit
// the replaced record on their own), stop, and compare the callback tallies once everything is quiet.
func runStress(rep *Report, rng *rand.Rand, n int, thorough bool) error {
	old := runtime.GOMAXPROCS(runtime.NumCPU())
	defer runtime.GOMAXPROCS(old)
	dur := time.Duration(n) * time.Millisecond
	if dur <= 0 {
		dur = 3 * time.Second
	}
	workers := 8
	var mu sync.Mutex
	var wg sync.WaitGroup
	deadline := time.Now().Add(dur)
	for wkr := 0; wkr < workers; wkr++ {
		seed := rng.Int63()
		wg.Add(1)
		go func(wkr int) {
			defer wg.Done()
			r := rand.New(rand.NewSource(seed))
			for cycle := 0; time.Now().Before(deadline); cycle++ {
				kv := newMemKV(r.Int63())
				h := 20 * time.Millisecond
				var chainMu sync.Mutex
				var chain [][2]string
				cfg := leader.ElectionConfig{Bucket: "b", Group: "g", InstanceID: "i1", TTL: 3 * h, HeartbeatInterval: h, ValidationInterval: h,
					Metrics: chainMetrics{&chainMu, &chain, nil}}
				el, err := leader.NewElection(&memProvider{kv, nil}, cfg)
				if err != nil {
					return
				}
				var promotes, demotes atomic.Int64
				var seqMu sync.Mutex
				var seq []byte // order in which the callbacks started
				el.OnPromote(func(ctx context.Context, token string) {
					seqMu.Lock()
					seq = append(seq, 'P')
					seqMu.Unlock()
					promotes.Add(1)
				})
				el.OnDemote(func() {
					seqMu.Lock()
					seq = append(seq, 'D')
					seqMu.Unlock()
					demotes.Add(1)
				})
				_ = el.Start(context.Background())
				for k := 0; k < 400 && !el.IsLeader(); k++ {
					time.Sleep(100 * time.Microsecond)
				}
				led := el.IsLeader()
				callers := 2 + r.Intn(4)
				if led {
					// the record changes hands behind the leader's back
					kv.mu.Lock()
					kv.seq++
					kv.recs["g"] = &memEntry{"g", []byte(`{"id":"intruder","token":"zzz","priority":0}`), kv.seq}
					kv.mu.Unlock()
					gate := make(chan struct{})
					var cw sync.WaitGroup
					for c := 0; c < callers; c++ {
						cw.Add(1)
						go func() {
							defer cw.Done()
							<-gate
							_ = el.ValidateTokenOrDemote(context.Background())
						}()
					}
					time.Sleep(time.Duration(r.Intn(300)) * time.Microsecond)
					close(gate)
					cw.Wait()
				}
				time.Sleep(time.Duration(r.Intn(3)) * time.Millisecond)
				_ = el.Stop()
				time.Sleep(3 * time.Millisecond)
				p, d := promotes.Load(), demotes.Load()
				mu.Lock()
				rep.Cases++
				rep.Compared += callers
				if led {
					rep.nontrivial(fmt.Sprintf("w%d-c%d", wkr, cycle))
					rep.hit("stress:concurrent-demotion-causes")
				}
				seqMu.Lock()
				order := string(seq)
				seqMu.Unlock()
				alternates := true
				for k := 0; k < len(order); k++ {
					if (k%2 == 0) != (order[k] == 'P') {
						alternates = false
					}
				}
				if !alternates {
					rep.violation(Finding{Property: "C08", Clause: "callbacks-out-of-order-under-concurrency",
						Input:  fmt.Sprintf("cycle %d of worker %d: leader, record replaced by an outside writer, %d concurrent ValidateTokenOrDemote calls, Stop", cycle, wkr, callers),
						Detail: "order in which the callbacks started: " + order})
				}
				chainMu.Lock()
				for k := 1; k < len(chain); k++ {
					if chain[k][0] != chain[k-1][1] {
						rep.violation(Finding{Property: "C18", Clause: "transition-chain-broken-under-concurrency",
							Input:  fmt.Sprintf("cycle %d of worker %d: leader, record replaced by an outside writer, %d concurrent ValidateTokenOrDemote calls, Stop", cycle, wkr, callers),
							Detail: fmt.Sprintf("transitions recorded: %v", chain)})
						break
					}
				}
				chainMu.Unlock()
				if p != d {
					rep.violation(Finding{Property: "C08", Clause: "callbacks-unbalanced-under-concurrency",
						Input:  fmt.Sprintf("cycle %d of worker %d: leader, record replaced by an outside writer, %d concurrent ValidateTokenOrDemote calls, Stop", cycle, wkr, callers),
						Detail: fmt.Sprintf("after the stop returned and everything is quiet: promotions=%d demotions=%d", p, d)})
				}
				mu.Unlock()
			}
		}(wkr)
	}
	wg.Wait()
	runDuel(rep, rng, dur/2)
	runStopRace(rep, rng, dur/3)
	return nil
}

// runStopRace: Stop (or StopWithContext) called while the acquiring Create of the same election is in flight, over and over
// on all cores; whenever the stop call has returned the election must not report leadership - at once and a little later
// (C09: an acquisition answered after the stop began is refused, at whatever moment the stop is called).
func runStopRace(rep *Report, rng *rand.Rand, dur time.Duration) {
	deadline := time.Now().Add(dur)
	var mu sync.Mutex
	var wg sync.WaitGroup
	bad, badChain := "", ""
	cycles := 0
	for wkr := 0; wkr < 8; wkr++ {
		seed := rng.Int63()
		wg.Add(1)
		go func(wkr int) {
			defer wg.Done()
			r := rand.New(rand.NewSource(seed))
			for cycle := 0; time.Now().Before(deadline); cycle++ {
				kv := newMemKV(r.Int63())
				h := 20 * time.Millisecond
				var chainMu sync.Mutex
				var chain [][2]string
				var gauge []float64
				cfg := leader.ElectionConfig{Bucket: "b", Group: "g", InstanceID: "i1", TTL: 3 * h, HeartbeatInterval: h,
					Metrics: chainMetrics{&chainMu, &chain, &gauge}}
				el, err := leader.NewElection(&memProvider{kv, nil}, cfg)
				if err != nil {
					return
				}
				_ = el.Start(context.Background())
				// the Create of this store takes up to ~200 µs: stop somewhere around its answer
				d := time.Duration(r.Intn(300)) * time.Microsecond
				for t0 := time.Now(); time.Since(t0) < d; {
					runtime.Gosched()
				}
				var serr error
				if r.Intn(2) == 0 {
					serr = el.Stop()
				} else {
					serr = el.StopWithContext(context.Background(), leader.StopOptions{DeleteKey: r.Intn(2) == 0, Timeout: time.Second})
				}
				l1 := el.IsLeader()
				time.Sleep(time.Duration(200+r.Intn(800)) * time.Microsecond)
				l2 := el.IsLeader()
				st := el.Status()
				mu.Lock()
				cycles++
				if (l1 || l2 || st.IsLeader || st.State == "LEADER") && serr == nil && bad == "" {
					bad = fmt.Sprintf("cycle %d of worker %d: stop call returned nil %v after Start; IsLeader() right after = %v, a little later = %v, Status = {State:%s IsLeader:%v}",
						cycle, wkr, d, l1, l2, st.State, st.IsLeader)
				}
				mu.Unlock()
				_ = el.Stop()
				// C18: what the metrics sink was told, in the order it was told: a promotion racing the stop call must not
				// leave the transition chain broken or the gauge at 1
				chainMu.Lock()
				okChain := true
				for k := 1; k < len(chain); k++ {
					if chain[k][0] != chain[k-1][1] {
						okChain = false
					}
				}
				if (!okChain || (len(gauge) > 0 && gauge[len(gauge)-1] != 0)) && serr == nil {
					mu.Lock()
					if badChain == "" {
						badChain = fmt.Sprintf("cycle %d of worker %d: stop call %v after Start; transitions recorded: %v; gauge values: %v; IsLeader()=%v", cycle, wkr, d, chain, gauge, el.IsLeader())
					}
					mu.Unlock()
				}
				chainMu.Unlock()
			}
		}(wkr)
	}
	wg.Wait()
	if badChain != "" {
		rep.violation(Finding{Property: "C18", Clause: "metrics-out-of-order-under-concurrency", Input: "start, then a stop call while the acquiring Create is in flight", Detail: badChain})
	}
	rep.Cases++
	rep.Compared += cycles
	rep.Dist["stress:stop-race-cycles"] += cycles
	if bad != "" {
		rep.violation(Finding{Property: "C09", Clause: "leader-after-stop-under-concurrency", Input: "start, then a stop call while the acquiring Create is in flight", Detail: bad})
	}
}

// chainMetrics records the stream of state transitions of one election (C18: each one starts in the state the previous
// one ended in - also when several transitions queue behind one another).
type chainMetrics struct {
	mu    *sync.Mutex
	trans *[][2]string
	gauge *[]float64 // (optional) the values given to the is-leader gauge, in the order the sink received them
}

// dawdle makes the sink take a random moment (up to 150 µs) before it records a sample: calls that the library makes one
// after the other - inside one critical section each - still arrive in order; calls made concurrently do not.
func (m chainMetrics) dawdle() {
	if m.gauge == nil {
		return
	}
	d := time.Duration(mrand.IntN(150)) * time.Microsecond
	for t0 := time.Now(); time.Since(t0) < d; {
		runtime.Gosched()
	}
}

func (m chainMetrics) IncTransitions(l prometheus.Labels) {
	m.dawdle()
	m.mu.Lock()
	*m.trans = append(*m.trans, [2]string{l["from_state"], l["to_state"]})
	m.mu.Unlock()
}
func (m chainMetrics) SetIsLeader(v float64, _ prometheus.Labels) {
	if m.gauge != nil {
		m.dawdle()
		m.mu.Lock()
		*m.gauge = append(*m.gauge, v)
		m.mu.Unlock()
	}
}
func (chainMetrics) SetConnectionStatus(float64, prometheus.Labels)            {}
func (chainMetrics) IncFailures(prometheus.Labels)                             {}
func (chainMetrics) IncAcquireAttempts(prometheus.Labels)                      {}
func (chainMetrics) IncTokenValidationFailures(prometheus.Labels)              {}
func (chainMetrics) ObserveHeartbeatDuration(time.Duration, prometheus.Labels) {}
func (chainMetrics) ObserveLeaderDuration(time.Duration, prometheus.Labels)    {}

// duelMetrics observes every leadership-flag change of one election of a duel (C02 under real parallelism).
type duelMetrics struct {
	me     int
	els    *[]leader.Election
	report func(me, other int)
}

func (m duelMetrics) SetIsLeader(v float64, l prometheus.Labels) {
	if v == 0 {
		return
	}
	// the flag of `me` is raised at this instant: nobody else's may be
	for k, o := range *m.els {
		if k != m.me && o != nil && o.IsLeader() {
			m.report(m.me, k)
		}
	}
}
func (duelMetrics) SetConnectionStatus(float64, prometheus.Labels)            {}
func (duelMetrics) IncTransitions(prometheus.Labels)                          {}
func (duelMetrics) IncFailures(prometheus.Labels)                             {}
func (duelMetrics) IncAcquireAttempts(prometheus.Labels)                      {}
func (duelMetrics) IncTokenValidationFailures(prometheus.Labels)              {}
func (duelMetrics) ObserveHeartbeatDuration(time.Duration, prometheus.Labels) {}
func (duelMetrics) ObserveLeaderDuration(time.Duration, prometheus.Labels)    {}

// runDuel: three elections of one group on a linearizable store without expiry, each started and stopped gracefully
// (StopWithContext with key deletion) over and over from its own goroutine, on all cores.  With nobody else
// writing and no record ever lapsing, two instances must never report leadership at the same instant (C02); checked at
// every flag raise.
func runDuel(rep *Report, rng *rand.Rand, dur time.Duration) {
	kv := newMemKV(rng.Int63())
	// C05: an Update that keeps the record's owner is a refresh - it republishes exactly the token it replaces
	badRefresh := ""
	kv.onUpdate = func(prev, next []byte) {
		var a, b struct {
			ID    string `json:"id"`
			Token string `json:"token"`
		}
		if json.Unmarshal(prev, &a) == nil && json.Unmarshal(next, &b) == nil && a.ID == b.ID && a.Token != b.Token && badRefresh == "" {
			badRefresh = fmt.Sprintf("%s overwrote its own record %s with %s", a.ID, prev, next)
		}
	}
	h := 20 * time.Millisecond
	els := make([]leader.Election, 3)
	var mu sync.Mutex
	double := 0
	var first string
	for i := range els {
		cfg := leader.ElectionConfig{Bucket: "b", Group: "g", InstanceID: fmt.Sprintf("i%d", i+1), TTL: 3 * h, HeartbeatInterval: h,
			Metrics: duelMetrics{me: i, els: &els, report: func(me, other int) {
				mu.Lock()
				double++
				if first == "" {
					first = fmt.Sprintf("i%d raised its flag while i%d still reported leadership", me+1, other+1)
				}
				mu.Unlock()
			}}}
		el, err := leader.NewElection(&memProvider{kv, nil}, cfg)
		if err != nil {
			return
		}
		els[i] = el
	}
	stop := make(chan struct{})
	var wg sync.WaitGroup
	var cycles atomic.Int64
	// C05: every term gets a token nobody has had before; C18: every Status() snapshot is self-consistent
	tokens := map[string]string{}
	dupTok, incoherent := "", ""
	for i := range els {
		i := i
		els[i].OnPromote(func(ctx context.Context, token string) {
			mu.Lock()
			if prev, ok := tokens[token]; ok && dupTok == "" {
				dupTok = fmt.Sprintf("token %q handed to i%d was handed to %s before", token, i+1, prev)
			}
			tokens[token] = fmt.Sprintf("i%d", i+1)
			mu.Unlock()
		})
		wg.Add(1)
		go func() {
			defer wg.Done()
			for {
				select {
				case <-stop:
					return
				default:
				}
				st := els[i].Status()
				if st.IsLeader != (st.State == "LEADER") || (st.IsLeader && (st.LeaderID != fmt.Sprintf("i%d", i+1) || st.Token == "")) {
					mu.Lock()
					if incoherent == "" {
						incoherent = fmt.Sprintf("i%d: %+v", i+1, st)
					}
					mu.Unlock()
				}
				time.Sleep(50 * time.Microsecond)
			}
		}()
	}
	for i := range els {
		el := els[i]
		seed := rng.Int63()
		wg.Add(1)
		go func() {
			defer wg.Done()
			r := rand.New(rand.NewSource(seed))
			for {
				select {
				case <-stop:
					return
				default:
				}
				_ = el.Start(context.Background())
				time.Sleep(time.Duration(r.Intn(40)) * time.Millisecond / 4)
				// (always with key deletion: this store has no expiry, and nobody but the elections may touch the record)
				_ = el.StopWithContext(context.Background(), leader.StopOptions{DeleteKey: true, WaitForDemote: r.Intn(2) == 0,
					Timeout: []time.Duration{200 * time.Millisecond, 2 * time.Second}[r.Intn(2)]})
				cycles.Add(1)
			}
		}()
	}
	time.Sleep(dur)
	close(stop)
	wg.Wait()
	for _, el := range els {
		_ = el.Stop()
	}
	mu.Lock()
	defer mu.Unlock()
	rep.Cases++
	rep.Compared += int(cycles.Load())
	rep.nontrivial("duel")
	rep.hit("stress:duel-cycles")
	if dupTok != "" {
		rep.violation(Finding{Property: "C05", Clause: "token-repeated-under-concurrency", Input: "duel", Detail: dupTok})
	}
	kv.mu.Lock()
	if badRefresh != "" {
		rep.violation(Finding{Property: "C05", Clause: "refresh-changes-token-under-concurrency", Input: "duel", Detail: badRefresh})
	}
	kv.mu.Unlock()
	if incoherent != "" {
		rep.violation(Finding{Property: "C18", Clause: "status-incoherent-under-concurrency", Input: "duel", Detail: incoherent})
	}
	rep.Dist["stress:terms"] += len(tokens)
	if double > 0 {
		rep.violation(Finding{Property: "C02", Clause: "two-leaders-under-concurrency",
			Input:  fmt.Sprintf("duel of 3 elections for %v: start / graceful stop with key deletion in a loop (%d cycles)", dur, cycles.Load()),
			Detail: fmt.Sprintf("%d flag raises found another instance still reporting leadership; first: %s", double, first)})
	}
}
