//go:build verif

package harness

import (
	"context"
	"fmt"
	"math/rand"
	"runtime"
	"sync"
	"sync/atomic"
	"time"

	"github.com/ali-assar/NATS-Leader-Election/leader"
)

// runStress exercises, in real time and on all cores, what the cooperative scheduling of the scenario runner cannot:
// several demotion causes of one term firing at the same instant from different goroutines (C08: exactly one demotion
// callback per term).  Each cycle: start, wait for leadership, let an outside writer replace the record, call
// ValidateTokenOrDemote from several goroutines released together (plus the heartbeat and validation loops that hit
// the replaced record on their own), stop, and compare the callback tallies once everything is quiet.
func runStress(rep *Report, rng *rand.Rand, n int, thorough bool) error {
	old := runtime.GOMAXPROCS(runtime.NumCPU())
	defer runtime.GOMAXPROCS(old)
	dur := time.Duration(n) * time.Millisecond
	if dur <= 0 {
		dur = 3 * time.Second
	}
	workers := 8
	var mu sync.Mutex
	var wg sync.WaitGroup
	deadline := time.Now().Add(dur)
	for wkr := 0; wkr < workers; wkr++ {
		seed := rng.Int63()
		wg.Add(1)
		go func(wkr int) {
			defer wg.Done()
			r := rand.New(rand.NewSource(seed))
			for cycle := 0; time.Now().Before(deadline); cycle++ {
				kv := newMemKV(r.Int63())
				h := 20 * time.Millisecond
				cfg := leader.ElectionConfig{Bucket: "b", Group: "g", InstanceID: "i1", TTL: 3 * h, HeartbeatInterval: h, ValidationInterval: h}
				el, err := leader.NewElection(&memProvider{kv, nil}, cfg)
				if err != nil {
					return
				}
				var promotes, demotes atomic.Int64
				el.OnPromote(func(ctx context.Context, token string) { promotes.Add(1) })
				el.OnDemote(func() { demotes.Add(1) })
				_ = el.Start(context.Background())
				for k := 0; k < 400 && !el.IsLeader(); k++ {
					time.Sleep(100 * time.Microsecond)
				}
				led := el.IsLeader()
				callers := 2 + r.Intn(4)
				if led {
					// the record changes hands behind the leader's back
					kv.mu.Lock()
					kv.seq++
					kv.recs["g"] = &memEntry{"g", []byte(`{"id":"intruder","token":"zzz","priority":0}`), kv.seq}
					kv.mu.Unlock()
					gate := make(chan struct{})
					var cw sync.WaitGroup
					for c := 0; c < callers; c++ {
						cw.Add(1)
						go func() {
							defer cw.Done()
							<-gate
							_ = el.ValidateTokenOrDemote(context.Background())
						}()
					}
					time.Sleep(time.Duration(r.Intn(300)) * time.Microsecond)
					close(gate)
					cw.Wait()
				}
				time.Sleep(time.Duration(r.Intn(3)) * time.Millisecond)
				_ = el.Stop()
				time.Sleep(3 * time.Millisecond)
				p, d := promotes.Load(), demotes.Load()
				mu.Lock()
				rep.Cases++
				rep.Compared += callers
				if led {
					rep.nontrivial(fmt.Sprintf("w%d-c%d", wkr, cycle))
					rep.hit("stress:concurrent-demotion-causes")
				}
				if p != d {
					rep.violation(Finding{Property: "C08", Clause: "callbacks-unbalanced-under-concurrency",
						Input:  fmt.Sprintf("cycle %d of worker %d: leader, record replaced by an outside writer, %d concurrent ValidateTokenOrDemote calls, Stop", cycle, wkr, callers),
						Detail: fmt.Sprintf("after the stop returned and everything is quiet: promotions=%d demotions=%d", p, d)})
				}
				mu.Unlock()
			}
		}(wkr)
	}
	wg.Wait()
	return nil
}
