package harness

import (
	"fmt"
	"math/rand"
	"os"
	"runtime"
	"strconv"
	"strings"
	"testing"
	"time"
)

func envInt(k string, def int64) int64 {
	if v := os.Getenv(k); v != "" {
		if n, err := strconv.ParseInt(v, 10, 64); err == nil {
			return n
		}
	}
	return def
}

// TestNLE is the single entry point; NLE_MODE selects what runs (comma separated).
func TestNLE(t *testing.T) {
	modes := os.Getenv("NLE_MODE")
	if modes == "" {
		t.Skip("NLE_MODE not set")
	}
	if os.Getenv("NLE_PARALLEL") == "" {
		// deterministic hand-off between goroutines inside a synctest bubble: one goroutine runs until it blocks
		runtime.GOMAXPROCS(1)
	}
	seed := envInt("NLE_SEED", 1)
	n := int(envInt("NLE_N", 1000))
	out := os.Getenv("NLE_OUT")
	thorough := os.Getenv("NLE_TIER") == "thorough"
	for _, mode := range strings.Split(modes, ",") {
		rep := newReport(mode, seed)
		rng := rand.New(rand.NewSource(seed))
		var err error
		stopDog := func() {}
		switch mode {
		case "nats", "natsel", "race", "stress":
			// the modes that run in real time have no virtual clock to stall: a deadlock of the library would keep them
			// waiting for ever.  A wall-clock limit far beyond what they take turns that into a hang report.
			limit := 10 * time.Minute
			if mode == "race" {
				limit += time.Duration(n) * time.Millisecond
			}
			done := make(chan struct{})
			stopDog = func() { close(done) }
			go func(mode string) {
				select {
				case <-done:
				case <-time.After(limit):
					buf := make([]byte, 4<<20)
					k := runtime.Stack(buf, true)
					if out != "" {
						os.WriteFile(out+"/HANG.json", []byte(fmt.Sprintf("{\"scenario\":%q,\"trace_tail\":\"\",\"stacks\":%q}", "mode "+mode, filterStacks(string(buf[:k])))), 0o644)
					}
					fmt.Fprintf(os.Stderr, "NLE-HANG scenario=mode-%s\n", mode)
					os.Exit(3)
				}
			}(mode)
		}
		switch mode {
		case "cfg":
			err = runCfg(rep, rng, n, thorough)
		case "cls":
			err = runCls(rep, rng, n)
		case "lower":
			err = runLower(rep)
		case "bo":
			err = runBackoff(rep, rng, n)
		case "retry":
			err = runRetry(t, rep, rng, n)
		case "brk":
			err = runBreaker(t, rep, rng, n)
		case "nats":
			err = runNATS(rep, rng, n, thorough)
		case "natsel":
			err = runNATSElections(rep, rng, n, thorough)
		case "race":
			err = runRace(rep, rng, n, thorough)
		case "stress":
			err = runStress(rep, rng, n, thorough)
		default:
			err = runScenarioMode(t, mode, rep, rng, n, thorough)
		}
		stopDog()
		if err != nil {
			t.Fatalf("mode %s: %v", mode, err)
		}
		if out != "" {
			if werr := rep.write(out + "/" + mode + ".json"); werr != nil {
				t.Fatal(werr)
			}
		}
		t.Logf("mode=%s cases=%d nontrivial=%d diffs=%d violations=%d", mode, rep.Cases, rep.Nontrivial, len(rep.Diffs), len(rep.Violations))
	}
}
