package harness

import (
	"encoding/json"
	"fmt"
	"math/rand"
	"os"
	"strings"
	"testing"
	"time"
)

type genFn func(rng *rand.Rand, seed int64) *Scenario

var generators = map[string]genFn{
	"basic":           genBasic,
	"stoppoints":      genStopPoints,
	"conn":            genConn,
	"faults":          genFaults,
	"health":          genHealth,
	"tamper":          genTamper,
	"takeover":        genTakeover,
	"vacancy":         genVacancy,
	"roundend":        genRoundEnd,
	"slowsink":        genSlowSink,
	"takeoverstop":    genTakeoverStop,
	"stoptimeout":     genStopTimeout,
	"spin":            genSpin,
	"slowhb":          genSlowHB,
	"healthrace":      genHealthRace,
	"acklosttakeover": genAckLostTakeover,
	"acklosthb":       genAckLostHB,
	"lease":           genLease,
	"restart":         genRestart,
	"mix":             genMix,
}

type scenOut struct {
	sc  *Scenario
	res *ScenarioResult
}

// checkTraces pipes every trace through the Lean driver (world model + monitors) and files the
// answers into the report.
func checkTraces(rep *Report, outs []scenOut) error {
	var reqs []string
	for _, o := range outs {
		reqs = append(reqs, "trace-begin")
		reqs = append(reqs, o.res.Trace...)
		reqs = append(reqs, "trace-end")
	}
	ans, err := runDriverN(reqs, len(outs))
	if err != nil {
		return err
	}
	for i, o := range outs {
		parts := strings.Split(ans[i], "\t")
		var nev, bad, nstore, nfail int
		if _, err := fmt.Sscanf(parts[0], "T %d %d %d %d", &nev, &bad, &nstore, &nfail); err != nil {
			rep.diff(Finding{Property: "*", Clause: "driver-answer", Input: o.sc.JSON(), Model: ans[i]})
			continue
		}
		rep.Compared += nev
		if bad != 0 {
			line := ""
			if bad-1 < len(o.res.Trace) {
				line = o.res.Trace[bad-1]
			}
			rep.diff(Finding{Property: "*", Clause: "trace-line-not-understood-by-model", Input: o.sc.JSON(), Impl: line})
		}
		for _, it := range parts[1:] {
			f := strings.SplitN(it, "|", 4)
			if len(f) != 4 {
				continue
			}
			ctx := ""
			var ln int
			fmt.Sscanf(f[2], "%d", &ln)
			if ln > 0 {
				// the monitors count events, not lines: give the neighbourhood by searching the time-ordered trace
				ctx = traceContext(o.res.Trace, ln)
			}
			fd := Finding{Property: f[0], Clause: f[1], Input: o.sc.JSON(), Detail: f[3] + " @event " + f[2], Impl: ctx}
			switch f[0] {
			case "ACC":
				rep.hit("acc:" + f[1] + ":" + map[bool]string{true: "accepted", false: "rejected"}[f[2] == "0"])
				if f[2] != "0" {
					var k int
					fmt.Sscanf(f[2], "%d", &k)
					rep.diff(Finding{Property: "ACC:" + f[1], Clause: "trace-not-accepted-by-model", Input: o.sc.JSON(),
						Detail: f[3] + " @event " + f[2], Impl: traceContext(o.res.Trace, k)})
				}
			case "COV":
				var n int
				fmt.Sscanf(f[2], "%d", &n)
				rep.Dist["trigger:"+f[1]] += n
				rep.nontrivial(o.sc.Name + "|" + f[1])
			case "STORE", "TRACE":
				fd.Property = "*"
				rep.diff(fd)
			case "HYP":
				rep.Notes = append(rep.Notes, "generator broke its own hypothesis: "+f[1]+" "+f[3])
				rep.hit("hyp-broken")
			default:
				rep.violation(fd)
				rep.hit("fail:" + f[0] + "/" + f[1])
			}
		}
	}
	return nil
}

// traceContext returns a few lines around the n-th event line (view lines are not events).
func traceContext(lines []string, n int) string {
	idx, c := -1, 0
	for i, l := range lines {
		if strings.Contains(l, " view ") {
			continue
		}
		c++
		if c == n {
			idx = i
			break
		}
	}
	if idx < 0 {
		return ""
	}
	lo, hi := idx-12, idx+3
	if lo < 0 {
		lo = 0
	}
	if hi > len(lines) {
		hi = len(lines)
	}
	return strings.Join(lines[lo:hi], "\n")
}

func runScenarioMode(t *testing.T, mode string, rep *Report, rng *rand.Rand, n int, thorough bool) error {
	if mode == "dump" {
		g := generators[os.Getenv("NLE_GEN")]
		if g == nil {
			return fmt.Errorf("NLE_GEN unknown")
		}
		sc := g(rng, rep.Seed)
		res := runScenario(t, sc)
		fmt.Fprintln(os.Stderr, sc.JSON())
		fmt.Fprintln(os.Stderr, strings.Join(res.Trace, "\n"))
		rep.Cases = 1
		return checkTraces(rep, []scenOut{{sc, res}})
	}
	if mode == "corpus" || strings.HasPrefix(mode, "corpus:") {
		// regression corpus: every *.json scenario under /verif/corpus (optionally filtered by name prefix)
		dir := os.Getenv("NLE_CORPUS")
		if dir == "" {
			dir = "/verif/corpus"
		}
		prefix := strings.TrimPrefix(strings.TrimPrefix(mode, "corpus"), ":")
		ents, _ := os.ReadDir(dir)
		var outs []scenOut
		for _, e := range ents {
			if !strings.HasSuffix(e.Name(), ".json") || !strings.HasPrefix(e.Name(), prefix) {
				continue
			}
			b, err := os.ReadFile(dir + "/" + e.Name())
			if err != nil {
				return err
			}
			sc := &Scenario{}
			if err := json.Unmarshal(b, sc); err != nil {
				return fmt.Errorf("%s: %v", e.Name(), err)
			}
			if p := os.Getenv("NLE_OUT"); p != "" {
				os.WriteFile(p+"/current-scenario.json", b, 0o644)
			}
			res := runScenario(t, sc)
			outs = append(outs, scenOut{sc, res})
			rep.Cases++
			rep.nontrivial(sc.Name)
			rep.hit("corpus:" + e.Name())
			if os.Getenv("NLE_DUMP") != "" {
				fmt.Fprintln(os.Stderr, strings.Join(res.Trace, "\n"))
			}
		}
		return checkTraces(rep, outs)
	}
	if strings.HasPrefix(mode, "scen:") {
		g := generators[strings.TrimPrefix(mode, "scen:")]
		if g == nil {
			return fmt.Errorf("unknown generator in %s", mode)
		}
		var outs []scenOut
		for k := 0; k < n; k++ {
			seed := mix(rep.Seed, int64(k), 99)
			sc := g(rand.New(rand.NewSource(seed)), seed)
			sc.Name = fmt.Sprintf("%s#%d", sc.Name, k)
			if sc.SlowAll > 0 {
				// (its own kind of sink)
			} else if mix(seed, 9931)%5 == 0 || strings.HasPrefix(sc.Name, "roundend#") {
				sc.SlowLog = time.Duration(2+mix(seed, 9932)%20) * time.Millisecond // a fifth of the scenarios: warnings and errors take a few milliseconds to write
				if strings.HasPrefix(sc.Name, "roundend#") {
					sc.SlowLog = time.Duration(40+mix(seed, 9932)%80) * time.Millisecond // (a sink that stalls)
				}
			}
			if y := mix(seed, 9917) % 6; y < 2 {
				sc.YieldLog = 1 + int(y)*2 // a third of the scenarios: a Logger that yields on every (third) record
			}
			switch mix(seed, 7711) % 4 {
			case 0:
				sc.MockErrs = true // every fourth scenario of every generator: the mock store's wording of refusals
			case 1:
				sc.BareSeq = true // another fourth: a refused Create in the server's own words only
			}
			if p := os.Getenv("NLE_OUT"); p != "" {
				os.WriteFile(p+"/current-scenario.json", []byte(sc.JSON()), 0o644)
			}
			if p := os.Getenv("NLE_SAVE_SCEN"); p != "" {
				os.WriteFile(p+"/"+strings.ReplaceAll(sc.Name, "#", "-")+".json", []byte(sc.JSON()), 0o644)
			}
			res := runScenario(t, sc)
			outs = append(outs, scenOut{sc, res})
			rep.Cases++
			if k < 2 {
				rep.sample(sc.JSON())
			}
			for _, l := range res.Trace {
				f := strings.Fields(l)
				if len(f) > 1 {
					rep.hit("ev:" + f[1])
				}
			}
		}
		return checkTraces(rep, outs)
	}
	return fmt.Errorf("unknown mode %s", mode)
}
