package harness

import (
	"fmt"
	"math/rand"
	"testing"
)

func runScenarioMode(t *testing.T, mode string, rep *Report, rng *rand.Rand, n int, thorough bool) error {
	return fmt.Errorf("unknown mode %s", mode)
}
