package harness

import (
	"fmt"
	"math/rand"
	"testing"
)

func runBackoff(rep *Report, rng *rand.Rand, n int) error               { return fmt.Errorf("not implemented") }
func runRetry(t *testing.T, rep *Report, rng *rand.Rand, n int) error   { return fmt.Errorf("not implemented") }
func runBreaker(t *testing.T, rep *Report, rng *rand.Rand, n int) error { return fmt.Errorf("not implemented") }
func runScenarioMode(t *testing.T, mode string, rep *Report, rng *rand.Rand, n int, thorough bool) error {
	return fmt.Errorf("unknown mode %s", mode)
}
