package harness

import (
	"encoding/json"
	"errors"
	"fmt"
	"runtime"
	"strings"
	"sync"
	"sync/atomic"
	"time"

	"github.com/ali-assar/NATS-Leader-Election/leader"
	"github.com/nats-io/nats.go"
)

// ---- trace ---------------------------------------------------------------------------------

// Trace collects the externally visible events of one scenario, stamped with virtual time.
type Trace struct {
	mu     sync.Mutex
	t0     time.Time
	Lines  []string
	tokens map[string]int
	ids    map[string]int
	views  map[string]int
	nextID int
	over   atomic.Bool // the scenario has ended (tear-down in progress)
}

func newTrace() *Trace {
	return &Trace{t0: time.Now(), tokens: map[string]int{"": 0}, ids: map[string]int{"": 0}, views: map[string]int{}, nextID: 100}
}

func (tr *Trace) now() int64 { return int64(time.Since(tr.t0)) }

func (tr *Trace) logf(format string, a ...any) {
	tr.mu.Lock()
	tr.Lines = append(tr.Lines, fmt.Sprintf("%d ", tr.now())+fmt.Sprintf(format, a...))
	tr.mu.Unlock()
}

// headerf adds a line without taking the time from the clock (declarations at time 0)
func (tr *Trace) headerf(format string, a ...any) {
	tr.mu.Lock()
	tr.Lines = append(tr.Lines, "0 "+fmt.Sprintf(format, a...))
	tr.mu.Unlock()
}

func (tr *Trace) tok(s string) int {
	tr.mu.Lock()
	defer tr.mu.Unlock()
	if v, ok := tr.tokens[s]; ok {
		return v
	}
	v := len(tr.tokens)
	tr.tokens[s] = v
	return v
}

func (tr *Trace) id(s string) int {
	tr.mu.Lock()
	defer tr.mu.Unlock()
	if v, ok := tr.ids[s]; ok {
		return v
	}
	tr.nextID++
	tr.ids[s] = tr.nextID
	return tr.nextID
}

func (tr *Trace) registerID(s string, n int) {
	tr.mu.Lock()
	tr.ids[s] = n
	tr.mu.Unlock()
}

type ownPayload struct {
	ID       string `json:"id"`
	Token    string `json:"token"`
	Priority int    `json:"priority,omitempty"`
}

// val encodes record bytes as 4 tokens: `own ID TOK PRIO` when the bytes are exactly what
// json.Marshal(leadershipPayload) produces, `empty 0 0 0` for no bytes, otherwise `raw N 0 0` where view N
// (declared by a `view` line) records what the library's two decoders see in those bytes.
func (tr *Trace) val(b []byte) string {
	if len(b) == 0 {
		return "empty 0 0 0"
	}
	var p ownPayload
	if err := json.Unmarshal(b, &p); err == nil {
		if rb, err := json.Marshal(p); err == nil && string(rb) == string(b) && p.ID != "" && p.Token != "" {
			return fmt.Sprintf("own %d %d %d", tr.id(p.ID), tr.tok(p.Token), p.Priority)
		}
	}
	key := string(b)
	tr.mu.Lock()
	n, ok := tr.views[key]
	tr.mu.Unlock()
	if !ok {
		// struct decode (watch events, takeover, heartbeat diagnostics)
		sok, sid, stok, sprio := 0, 0, 0, 0
		var sp ownPayload
		if err := json.Unmarshal(b, &sp); err == nil {
			sok, sid, stok, sprio = 1, tr.id(sp.ID), tr.tok(sp.Token), sp.Priority
		}
		// map decode (validation, periodic check): -1 absent, -2 not a string
		mok, mid, mtok := 0, -1, -1
		m := map[string]interface{}{}
		if err := json.Unmarshal(b, &m); err == nil {
			mok = 1
			if v, ok := m["id"]; ok {
				if s, ok := v.(string); ok {
					mid = tr.id(s)
				} else {
					mid = -2
				}
			}
			if v, ok := m["token"]; ok {
				if s, ok := v.(string); ok {
					mtok = tr.tok(s)
				} else {
					mtok = -2
				}
			}
		}
		tr.mu.Lock()
		n = len(tr.views) + 1
		tr.views[key] = n
		tr.Lines = append(tr.Lines, fmt.Sprintf("%d view %d %d %d %d %d %d %d %d", tr.now(), n, sok, sid, stok, sprio, mok, mid, mtok))
		tr.mu.Unlock()
	}
	return fmt.Sprintf("raw %d 0 0", n)
}

// ---- reference store -----------------------------------------------------------------------

type storeRec struct {
	val       []byte
	rev       uint64
	lastWrite time.Time
	timer     *time.Timer
}

// OpPlan scripts one store operation: delay before it is applied, delay before the answer is
// delivered, and a fault.
type OpPlan struct {
	Pre   time.Duration `json:"pre"`
	Post  time.Duration `json:"post"`
	Fault string        `json:"fault,omitempty"` // "" | "err" (not applied, error) | "acklost" (applied, error) | "hang" (not applied, never answers) | "hangafter" (applied, never answers)
	Err   string        `json:"err,omitempty"`   // timeout | noresponders | closed | other
}

type RefStore struct {
	hist map[string][]wItem // the latest versions written to each key (for notifications that arrive late)
	bareSeq   bool // a refused Create is reported as the bare "wrong last sequence" API error
	mockErrs  bool // conflicts and misses are reported in the mock store's words ("revision mismatch", "key not found")
	mu        sync.Mutex
	tr        *Trace
	ttl       time.Duration
	seq       uint64
	data      map[string]*storeRec
	tomb      map[string]*storeRec // delete markers: the subject's last sequence until the marker itself ages out
	watches   []*refWatch
	opSeq     int
	wSeq      int
	planFn    func(inst int, op string, nth int) OpPlan
	opCount   map[int]int
	cut       map[int]bool // partitioned instances: operations time out (client-side request time-out)
	dead      map[int]bool // crashed instances: operations hang for ever
	opTimeout time.Duration
	wplanFn   func(inst int, nth int) (delay time.Duration, drop bool)
	done      chan struct{}                     // closed at scenario end: releases hung operations
	watchFail map[int]int                       // remaining Watch() failures per instance
	trigger   func(inst, nth int, phase string) // scenario hook: an operation of inst reached a phase
}

func newRefStore(tr *Trace, ttl time.Duration) *RefStore {
	return &RefStore{tr: tr, ttl: ttl, data: map[string]*storeRec{}, tomb: map[string]*storeRec{}, opCount: map[int]int{}, cut: map[int]bool{}, dead: map[int]bool{}, opTimeout: 2 * time.Second,
		done: make(chan struct{}), watchFail: map[int]int{}, hist: map[string][]wItem{}}
}

type refEntry struct {
	k   string
	v   []byte
	rev uint64
}

func (e *refEntry) Key() string      { return e.k }
func (e *refEntry) Value() []byte    { return e.v }
func (e *refEntry) Revision() uint64 { return e.rev }

func storeErr(kind string) error {
	switch kind {
	case "timeout", "":
		return nats.ErrTimeout
	case "noresponders":
		return nats.ErrNoResponders
	case "closed":
		return nats.ErrConnectionClosed
	}
	return errors.New("nats: " + kind)
}

func wrongSeq(cur uint64) error {
	return &nats.APIError{Code: 400, ErrorCode: nats.JSErrCodeStreamWrongLastSequence, Description: fmt.Sprintf("wrong last sequence: %d", cur)}
}

func errKind(err error) string {
	switch {
	case err == nil:
		return "none"
	case errors.Is(err, nats.ErrKeyNotFound):
		return "notfound"
	case errors.Is(err, nats.ErrKeyExists):
		if len(err.Error()) > 10 && err.Error()[len(err.Error())-10:] == "key exists" {
			return "exists"
		}
		return "wrongseq"
	case errors.Is(err, nats.ErrTimeout):
		return "timeout"
	case errors.Is(err, nats.ErrNoResponders):
		return "noresponders"
	case errors.Is(err, nats.ErrConnectionClosed):
		return "closed"
	}
	return "other"
}

// live returns the live record of key (expiry is handled by timers, so presence = live).
func (s *RefStore) live(key string) *storeRec { return s.data[key] }

func (s *RefStore) writeLocked(key string, val []byte) uint64 {
	s.seq++
	rev := s.seq
	if old := s.data[key]; old != nil && old.timer != nil {
		old.timer.Stop()
	}
	if t := s.tomb[key]; t != nil {
		if t.timer != nil {
			t.timer.Stop()
		}
		delete(s.tomb, key)
	}
	r := &storeRec{val: append([]byte(nil), val...), rev: rev, lastWrite: time.Now()}
	s.hist[key] = append(s.hist[key], wItem{rev: rev, val: append([]byte(nil), val...)})
	if len(s.hist[key]) > 16 {
		s.hist[key] = s.hist[key][len(s.hist[key])-16:]
	}
	if s.ttl > 0 {
		r.timer = time.AfterFunc(s.ttl, func() {
			s.mu.Lock()
			if cur := s.data[key]; cur == r {
				delete(s.data, key)
				s.tr.logf("expire %s %d", key, rev)
			}
			s.mu.Unlock()
		})
	}
	s.data[key] = r
	s.notifyLocked(key, val, rev)
	return rev
}

func (s *RefStore) deleteLocked(key string) uint64 {
	s.seq++
	if old := s.data[key]; old != nil && old.timer != nil {
		old.timer.Stop()
	}
	delete(s.data, key)
	if t := s.tomb[key]; t != nil && t.timer != nil {
		t.timer.Stop()
	}
	rev := s.seq
	t := &storeRec{rev: rev, lastWrite: time.Now()}
	if s.ttl > 0 {
		t.timer = time.AfterFunc(s.ttl, func() {
			s.mu.Lock()
			if s.tomb[key] == t {
				delete(s.tomb, key)
				s.tr.logf("texpire %s %d", key, rev)
			}
			s.mu.Unlock()
		})
	}
	s.tomb[key] = t
	s.notifyLocked(key, nil, s.seq)
	return s.seq
}

// lastSeq is the sequence an Update must present: the live record's revision, else the delete marker's, else 0.
func (s *RefStore) lastSeq(key string) uint64 {
	if r := s.data[key]; r != nil {
		return r.rev
	}
	if t := s.tomb[key]; t != nil {
		return t.rev
	}
	return 0
}

// Client is the per-instance handle (every call is caller-tagged).
type Client struct {
	s    *RefStore
	inst int
}

func (s *RefStore) client(inst int) *Client { return &Client{s, inst} }

type opCtx struct {
	id   int
	nth  int
	plan OpPlan
}

func (c *Client) begin(op string, desc string) (opCtx, bool) {
	s := c.s
	s.mu.Lock()
	s.opSeq++
	id := s.opSeq
	nth := s.opCount[c.inst]
	s.opCount[c.inst] = nth + 1
	var plan OpPlan
	if s.planFn != nil {
		plan = s.planFn(c.inst, op, nth)
	}
	cut := s.cut[c.inst]
	dead := s.dead[c.inst]
	s.mu.Unlock()
	s.tr.logf("call %d %d %s", id, c.inst, desc)
	s.tr.logf("site %d %s", id, callSite())
	if s.trigger != nil {
		s.trigger(c.inst, nth, "call")
	}
	if dead {
		plan.Fault = "hang"
	}
	if cut && !dead {
		// partitioned: the request never reaches the store; the client gives up after its request time-out
		s.tr.logf("apply %d dropped", id)
		select {
		case <-time.After(s.opTimeout):
		case <-s.done:
		}
		s.tr.logf("ret %d err timeout", id)
		return opCtx{id, nth, plan}, false
	}
	if plan.Pre > 0 {
		time.Sleep(plan.Pre)
	}
	s.mu.Lock()
	dead = s.dead[c.inst]
	s.mu.Unlock()
	if dead {
		s.tr.logf("apply %d dropped", id)
		<-s.done
		return opCtx{id, nth, plan}, false
	}
	if plan.Fault == "hang" {
		// never reaches the store; the client gives up after its request time-out
		s.tr.logf("apply %d dropped", id)
		select {
		case <-time.After(s.opTimeout):
		case <-s.done:
		}
		s.tr.logf("ret %d err timeout", id)
		return opCtx{id, nth, plan}, false
	}
	return opCtx{id, nth, plan}, true
}

// finish delivers the answer after the post delay; returns false if the answer must be replaced by a fault.
func (c *Client) finish(o opCtx) bool {
	if c.s.trigger != nil {
		c.s.trigger(c.inst, o.nth, "apply")
	}
	if o.plan.Post > 0 {
		time.Sleep(o.plan.Post)
	}
	if o.plan.Fault == "hangafter" {
		// applied, but the answer never arrives: client-side request time-out
		select {
		case <-time.After(c.s.opTimeout):
		case <-c.s.done:
		}
		return false
	}
	c.s.mu.Lock()
	cut := c.s.cut[c.inst]
	dead := c.s.dead[c.inst]
	c.s.mu.Unlock()
	if dead {
		<-c.s.done
		return false
	}
	if cut {
		return false // the answer is lost; the caller reports a time-out
	}
	return o.plan.Fault != "acklost"
}

func (c *Client) Create(key string, value []byte, opts ...interface{}) (uint64, error) {
	o, ok := c.begin("create", fmt.Sprintf("create %s %s", key, c.s.tr.val(value)))
	if !ok {
		return 0, storeErr("timeout")
	}
	if o.plan.Fault == "err" {
		c.s.tr.logf("apply %d fault", o.id)
		c.finish(o)
		c.s.tr.logf("ret %d err %s", o.id, errKind(storeErr(o.plan.Err)))
		return 0, storeErr(o.plan.Err)
	}
	s := c.s
	s.mu.Lock()
	var rev uint64
	var err error
	if r := s.live(key); r != nil {
		err = fmt.Errorf("%w: %s", wrongSeq(r.rev), "key exists")
		if s.bareSeq {
			// the server's own words, without the client's "key exists" on top (other clients, older nats.go)
			err = wrongSeq(r.rev)
		}
		s.tr.logf("apply %d fail exists", o.id)
	} else {
		rev = s.writeLocked(key, value)
		s.tr.logf("apply %d ok %d", o.id, rev)
	}
	s.mu.Unlock()
	if !c.finish(o) {
		s.tr.logf("ret %d err timeout", o.id)
		return 0, storeErr("timeout")
	}
	if err != nil {
		s.tr.logf("ret %d err exists", o.id)
		return 0, err
	}
	s.tr.logf("ret %d ok %d", o.id, rev)
	return rev, nil
}

func (c *Client) Update(key string, value []byte, exp uint64, opts ...interface{}) (uint64, error) {
	o, ok := c.begin("update", fmt.Sprintf("update %s %d %s", key, exp, c.s.tr.val(value)))
	if !ok {
		return 0, storeErr("timeout")
	}
	if o.plan.Fault == "err" {
		c.s.tr.logf("apply %d fault", o.id)
		c.finish(o)
		c.s.tr.logf("ret %d err %s", o.id, errKind(storeErr(o.plan.Err)))
		return 0, storeErr(o.plan.Err)
	}
	s := c.s
	s.mu.Lock()
	var rev uint64
	var err error
	if cur := s.lastSeq(key); cur != exp {
		err = wrongSeq(cur)
		if s.mockErrs {
			// the dialect of the package's own mock store, which the library's error patterns treat as the same thing
			// (that store tells a missing record from a changed one)
			err = errors.New("revision mismatch")
			if s.data[key] == nil {
				err = errors.New("key not found")
			}
		}
		s.tr.logf("apply %d fail wrongseq", o.id)
	} else {
		rev = s.writeLocked(key, value)
		s.tr.logf("apply %d ok %d", o.id, rev)
	}
	s.mu.Unlock()
	if !c.finish(o) {
		s.tr.logf("ret %d err timeout", o.id)
		return 0, storeErr("timeout")
	}
	if err != nil {
		s.tr.logf("ret %d err wrongseq", o.id)
		return 0, err
	}
	s.tr.logf("ret %d ok %d", o.id, rev)
	return rev, nil
}

func (c *Client) Get(key string) (leader.Entry, error) {
	o, ok := c.begin("get", fmt.Sprintf("get %s", key))
	if !ok {
		return nil, storeErr("timeout")
	}
	if o.plan.Fault == "err" {
		c.s.tr.logf("apply %d fault", o.id)
		c.finish(o)
		c.s.tr.logf("ret %d err %s", o.id, errKind(storeErr(o.plan.Err)))
		return nil, storeErr(o.plan.Err)
	}
	s := c.s
	s.mu.Lock()
	var e *refEntry
	if r := s.live(key); r != nil {
		e = &refEntry{key, append([]byte(nil), r.val...), r.rev}
		s.tr.logf("apply %d ok %d", o.id, r.rev)
	} else {
		s.tr.logf("apply %d fail notfound", o.id)
	}
	s.mu.Unlock()
	if !c.finish(o) {
		s.tr.logf("ret %d err timeout", o.id)
		return nil, storeErr("timeout")
	}
	if e == nil {
		s.tr.logf("ret %d err notfound", o.id)
		if s.mockErrs {
			return nil, errors.New("key not found")
		}
		return nil, nats.ErrKeyNotFound
	}
	s.tr.logf("ret %d ok %d %s", o.id, e.rev, s.tr.val(e.v))
	return e, nil
}

func (c *Client) Delete(key string) error {
	o, ok := c.begin("delete", fmt.Sprintf("delete %s", key))
	if !ok {
		return storeErr("timeout")
	}
	if o.plan.Fault == "err" {
		c.s.tr.logf("apply %d fault", o.id)
		c.finish(o)
		c.s.tr.logf("ret %d err %s", o.id, errKind(storeErr(o.plan.Err)))
		return storeErr(o.plan.Err)
	}
	s := c.s
	s.mu.Lock()
	rev := s.deleteLocked(key)
	s.tr.logf("apply %d ok %d", o.id, rev)
	s.mu.Unlock()
	if !c.finish(o) {
		s.tr.logf("ret %d err timeout", o.id)
		return storeErr("timeout")
	}
	s.tr.logf("ret %d ok %d", o.id, rev)
	return nil
}

// ---- watch ---------------------------------------------------------------------------------

type wItem struct {
	e     leader.Entry // nil = marker / deletion as the client reports it
	rev   uint64
	val   []byte
	isNil bool
	now   bool // delivered at once, whatever the scenario's delivery plan says (a notification injected by a step)
}

// lateEvent hands the watcher of an instance a notification that has been under way for a while: the latest earlier
// version of the key that was written by somebody else (watch events can lag behind the store by any amount).
func (s *RefStore) lateEvent(inst int, key string) bool {
	s.mu.Lock()
	defer s.mu.Unlock()
	var cur uint64
	if r := s.data[key]; r != nil {
		cur = r.rev
	}
	own := fmt.Sprintf(`"id":"i%d"`, inst)
	var it *wItem
	h := s.hist[key]
	for k := len(h) - 1; k >= 0; k-- {
		if (cur == 0 || h[k].rev < cur) && len(h[k].val) > 0 && !strings.Contains(string(h[k].val), own) {
			c := h[k]
			it = &c
			break
		}
	}
	if it == nil {
		return false
	}
	it.now = true
	done := false
	for _, w := range s.watches {
		if w.inst != inst || w.key != key || !w.handed {
			continue
		}
		select {
		case <-w.stopCh:
			continue
		default:
		}
		// (not through the watcher's queue: the notification in front of it may be waiting for its own delivery time)
		w, e := w, &refEntry{w.key, it.val, it.rev}
		go func() {
			select {
			case w.ch <- e:
				s.tr.logf("wev %d %d %d %s", w.id, w.inst, e.rev, s.tr.val(e.v))
			case <-w.stopCh:
			case <-s.done:
			case <-time.After(50 * time.Millisecond):
			}
		}()
		done = true
	}
	return done
}

type refWatch struct {
	handed bool // returned to the library by a Watch call that succeeded
	s        *RefStore
	id       int
	inst     int
	key      string
	ch       chan leader.Entry
	mu       sync.Mutex
	queue    []wItem
	wake     chan struct{}
	stopCh   chan struct{}
	stopOnce sync.Once
	nth      int
}

func (w *refWatch) Updates() <-chan leader.Entry { return w.ch }
func (w *refWatch) Stop()                        { w.stopOnce.Do(func() { close(w.stopCh) }) }

// openWatchers counts the watchers that were handed to the library and never stopped by it.
func (s *RefStore) openWatchers() int {
	s.mu.Lock()
	defer s.mu.Unlock()
	n := 0
	for _, w := range s.watches {
		if !w.handed {
			continue
		}
		select {
		case <-w.stopCh:
		default:
			n++
		}
	}
	return n
}

func (w *refWatch) push(it wItem) {
	w.mu.Lock()
	w.queue = append(w.queue, it)
	w.mu.Unlock()
	select {
	case w.wake <- struct{}{}:
	default:
	}
}

// pump delivers queued events one at a time, in order, each after its scripted delay.
func (w *refWatch) pump() {
	for {
		w.mu.Lock()
		if len(w.queue) == 0 {
			w.mu.Unlock()
			select {
			case <-w.wake:
			case <-w.stopCh:
				return
			case <-w.s.done:
				return
			}
			continue
		}
		it := w.queue[0]
		w.queue = w.queue[1:]
		nth := w.nth
		w.nth++
		w.mu.Unlock()
		var delay time.Duration
		drop := false
		if w.s.wplanFn != nil && !it.now {
			delay, drop = w.s.wplanFn(w.inst, nth)
		}
		w.s.mu.Lock()
		cut := w.s.cut[w.inst] || w.s.dead[w.inst]
		w.s.mu.Unlock()
		if drop || cut {
			w.s.tr.logf("wdrop %d %d %d", w.id, w.inst, it.rev)
			continue
		}
		if delay > 0 {
			select {
			case <-time.After(delay):
			case <-w.stopCh:
				return
			case <-w.s.done:
				return
			}
		}
		var e leader.Entry
		if !it.isNil {
			e = &refEntry{w.key, it.val, it.rev}
		}
		select {
		case w.ch <- e:
			if it.isNil {
				w.s.tr.logf("wev %d %d 0 nil 0 0 0", w.id, w.inst)
			} else {
				w.s.tr.logf("wev %d %d %d %s", w.id, w.inst, it.rev, w.s.tr.val(it.val))
			}
		case <-w.s.done:
			return
		case <-w.stopCh:
			return
		}
	}
}

func (s *RefStore) notifyLocked(key string, val []byte, rev uint64) {
	for _, w := range s.watches {
		if w.key == key {
			// the real client reports a deletion as an entry with an empty value (delete marker)
			w.push(wItem{rev: rev, val: append([]byte(nil), val...)})
		}
	}
}

func (c *Client) Watch(key string, opts ...interface{}) (leader.Watcher, error) {
	o, ok := c.begin("watch", fmt.Sprintf("watch %s", key))
	if !ok {
		return nil, storeErr("timeout")
	}
	s := c.s
	s.mu.Lock()
	failing := s.watchFail[c.inst] > 0
	if failing {
		s.watchFail[c.inst]--
	}
	s.mu.Unlock()
	if o.plan.Fault == "err" || failing {
		s.tr.logf("apply %d fault", o.id)
		c.finish(o)
		s.tr.logf("ret %d err timeout", o.id)
		return nil, storeErr("timeout")
	}
	s.mu.Lock()
	s.wSeq++
	w := &refWatch{s: s, id: s.wSeq, inst: c.inst, key: key, ch: make(chan leader.Entry), wake: make(chan struct{}, 1), stopCh: make(chan struct{})}
	if r := s.live(key); r != nil {
		w.queue = append(w.queue, wItem{rev: r.rev, val: append([]byte(nil), r.val...)})
	} else if t := s.tomb[key]; t != nil {
		// the subject's last message is a delete marker: nats.go delivers it as the initial value (empty value)
		w.queue = append(w.queue, wItem{rev: t.rev})
	}
	w.queue = append(w.queue, wItem{isNil: true}) // nats.go's "initial values done" marker
	s.watches = append(s.watches, w)
	s.tr.logf("apply %d ok %d", o.id, w.id)
	s.mu.Unlock()
	if !c.finish(o) {
		w.Stop()
		s.tr.logf("ret %d err timeout", o.id)
		return nil, storeErr("timeout")
	}
	s.tr.logf("ret %d ok %d", o.id, w.id)
	w.handed = true
	go w.pump()
	return w, nil
}

// ---- outside writers -----------------------------------------------------------------------

func (s *RefStore) extPut(key string, val []byte) {
	s.mu.Lock()
	rev := s.writeLocked(key, val)
	s.tr.logf("ext put %s %d %s", key, rev, s.tr.val(val))
	s.mu.Unlock()
}

func (s *RefStore) extDelete(key string) {
	s.mu.Lock()
	rev := s.deleteLocked(key)
	s.tr.logf("ext delete %s %d", key, rev)
	s.mu.Unlock()
}

// ---- provider ------------------------------------------------------------------------------

type refJS struct{ c *Client }

func (j refJS) KeyValue(bucket string) (leader.KeyValue, error) { return j.c, nil }

type refProvider struct {
	c    *Client
	conn *nats.Conn
}

func (p *refProvider) JetStream() (leader.JetStreamContext, error) { return refJS{p.c}, nil }

type refConnProvider struct{ refProvider }

func (p *refConnProvider) NATSConnection() *nats.Conn { return p.conn }

// callSite names the library function that issued the store operation: the innermost frame of package leader.
func callSite() string {
	pcs := make([]uintptr, 24)
	n := runtime.Callers(3, pcs)
	frames := runtime.CallersFrames(pcs[:n])
	for {
		f, more := frames.Next()
		if i := strings.Index(f.Function, "NATS-Leader-Election/leader."); i >= 0 {
			name := f.Function[i+len("NATS-Leader-Election/leader."):]
			name = strings.TrimPrefix(name, "(*kvElection).")
			if j := strings.IndexAny(name, ".("); j > 0 {
				name = name[:j]
			}
			return name
		}
		if !more {
			return "-"
		}
	}
}
