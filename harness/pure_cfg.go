package harness

import (
	"strings"
	"errors"
	"fmt"
	"math/rand"
	"time"

	"github.com/ali-assar/NATS-Leader-Election/leader"
)

// recProvider records whether the constructor contacted the store.
type recProvider struct{ calls int }

func (p *recProvider) JetStream() (leader.JetStreamContext, error) { p.calls++; return recJS{p}, nil }

type recJS struct{ p *recProvider }

func (j recJS) KeyValue(bucket string) (leader.KeyValue, error) { j.p.calls++; return nopKV{}, nil }

type nopKV struct{}

func (nopKV) Create(string, []byte, ...interface{}) (uint64, error)         { return 0, errors.New("nop") }
func (nopKV) Update(string, []byte, uint64, ...interface{}) (uint64, error) { return 0, errors.New("nop") }
func (nopKV) Get(string) (leader.Entry, error)                              { return nil, errors.New("nop") }
func (nopKV) Delete(string) error                                           { return errors.New("nop") }
func (nopKV) Watch(string, ...interface{}) (leader.Watcher, error)          { return nil, errors.New("nop") }

type cfgCase struct {
	bucket, group, id             string
	ttl, hb, val, grace           time.Duration
	maxFail, prio                 int
	takeover                      bool
}

func (c cfgCase) req() string {
	b := 0
	if c.takeover {
		b = 1
	}
	return fmt.Sprintf("cfg %d %d %d %d %d %d %d %d %d %d", len(c.bucket), len(c.group), len(c.id),
		int64(c.ttl), int64(c.hb), int64(c.val), int64(c.grace), c.maxFail, c.prio, b)
}

const year = 365 * 24 * time.Hour

func cfgLattice() (hbs []time.Duration, f func(hb time.Duration) (ttls, vals, graces []time.Duration)) {
	hbs = []time.Duration{0, -1, -time.Second, 1, 2, time.Millisecond, 333 * time.Millisecond, time.Second, 10 * time.Second, year / 3, year}
	f = func(hb time.Duration) (ttls, vals, graces []time.Duration) {
		ttls = []time.Duration{0, -1, 1, 3*hb - 1, 3 * hb, 3*hb + 1, 2 * hb, 4 * hb, year, -year}
		vals = []time.Duration{0, -1, 1, hb - 1, hb, hb + 1, -hb, year, -5 * time.Second}
		graces = []time.Duration{0, -1, 1, 2*hb - 1, 2 * hb, 2*hb + 1, hb, -2 * hb, year, -7 * time.Second}
		return
	}
	return
}

func runCfg(rep *Report, rng *rand.Rand, n int, exhaustive bool) error {
	hbs, f := cfgLattice()
	strs := []string{"", "x", "bucket-1", " ", "\t", "\n ", "a b", "é"}
	ints := []int{-2, -1, 0, 1, 3, 100}
	var cases []cfgCase
	if exhaustive {
		for _, hb := range hbs {
			ttls, vals, graces := f(hb)
			for _, ttl := range ttls {
				for _, val := range vals {
					for _, gr := range graces {
						for _, mf := range []int{-1, 0, 3} {
							for _, pr := range []int{-1, 0, 1} {
								for _, tk := range []bool{false, true} {
									for si := 0; si < 8; si++ {
										s := func(bit int) string {
											if si&bit != 0 {
												return ""
											}
											return "x"
										}
										cases = append(cases, cfgCase{s(1), s(2), s(4), ttl, hb, val, gr, mf, pr, tk})
									}
								}
							}
						}
					}
				}
			}
		}
	} else {
		for i := 0; i < n; i++ {
			hb := hbs[rng.Intn(len(hbs))]
			if rng.Intn(4) == 0 {
				hb = time.Duration(rng.Int63n(int64(year)))
			}
			ttls, vals, graces := f(hb)
			pick := func(xs []time.Duration) time.Duration { return xs[rng.Intn(len(xs))] }
			// bias towards otherwise-valid configurations so that every rule is reached
			c := cfgCase{"b", "g", "i", pick(ttls), hb, pick(vals), pick(graces), ints[rng.Intn(len(ints))], ints[rng.Intn(len(ints))], rng.Intn(2) == 0}
			if rng.Intn(3) > 0 && hb > 0 {
				c.ttl = 3*hb + time.Duration(rng.Intn(3))
			}
			if rng.Intn(6) == 0 {
				c.bucket = strs[rng.Intn(len(strs))]
			}
			if rng.Intn(6) == 0 {
				c.group = strs[rng.Intn(len(strs))]
			}
			if rng.Intn(6) == 0 {
				c.id = strs[rng.Intn(len(strs))]
			}
			cases = append(cases, c)
		}
	}
	reqs := make([]string, len(cases))
	impl := make([]string, len(cases))
	contacted := make([]int, len(cases))
	for i, c := range cases {
		reqs[i] = c.req()
		p := &recProvider{}
		_, err := leader.NewElection(p, leader.ElectionConfig{
			Bucket: c.bucket, Group: c.group, InstanceID: c.id, TTL: c.ttl, HeartbeatInterval: c.hb,
			ValidationInterval: c.val, DisconnectGracePeriod: c.grace, MaxConsecutiveFailures: c.maxFail,
			Priority: c.prio, AllowPriorityTakeover: c.takeover,
		})
		contacted[i] = p.calls
		if err == nil {
			impl[i] = "ok"
		} else {
			var ve *leader.ValidationError
			if errors.As(err, &ve) {
				impl[i] = "err " + ve.Field
			} else {
				impl[i] = "err ?" + err.Error()
			}
		}
	}
	ans, err := runDriver(reqs)
	if err != nil {
		return err
	}
	for i := range cases {
		rep.Cases++
		rep.Compared++
		var verdict, field, doc, off string
		fmt.Sscanf(ans[i]+" . . .", "%s", &verdict)
		model := verdict
		if verdict == "err" {
			fmt.Sscanf(ans[i], "err %s doc=%s offends=%s", &field, &doc, &off)
			model = "err " + field
		} else {
			fmt.Sscanf(ans[i], "ok doc=%s", &doc)
		}
		rep.hit("impl:" + impl[i])
		rep.nontrivial(impl[i] + "|" + reqs[i])
		if i < 3 {
			rep.sample(reqs[i] + " => impl " + impl[i] + " / model " + ans[i])
		}
		if model != impl[i] {
			rep.diff(Finding{Property: "C16", Clause: "validate", Input: reqs[i], Impl: impl[i], Model: ans[i]})
		}
		// property monitor on the implementation's answer (documented predicate evaluated by the model side)
		if impl[i] == "ok" && doc != "1" {
			rep.violation(Finding{Property: "C16", Clause: "accepts-undocumented", Input: reqs[i], Impl: impl[i], Model: ans[i]})
		}
		if impl[i] != "ok" && doc == "1" {
			rep.violation(Finding{Property: "C16", Clause: "rejects-documented", Input: reqs[i], Impl: impl[i], Model: ans[i]})
		}
		if impl[i] != "ok" && model == impl[i] && off != "1" {
			rep.violation(Finding{Property: "C16", Clause: "names-wrong-field", Input: reqs[i], Impl: impl[i], Model: ans[i]})
		}
		// whatever the rule list says: the field the implementation names must be one that breaks a documented rule
		if k := strings.Index(ans[i], "offenders="); k >= 0 && strings.HasPrefix(impl[i], "err ") && !strings.HasPrefix(impl[i], "err ?") {
			named := strings.TrimPrefix(impl[i], "err ")
			ok := false
			for _, f := range strings.Split(strings.Fields(ans[i][k+len("offenders="):] + " -")[0], ",") {
				if f == named {
					ok = true
				}
			}
			if !ok {
				rep.violation(Finding{Property: "C16", Clause: "names-a-field-that-does-not-offend", Input: reqs[i], Impl: impl[i], Model: ans[i]})
			}
		}
		if k := strings.Index(ans[i], "offenders="); k >= 0 && strings.HasPrefix(impl[i], "err ?") {
			// (not a ValidationError that errors.As finds: the text at least must name a field that offends)
			named := false
			for _, f := range strings.Split(strings.Fields(ans[i][k+len("offenders="):] + " -")[0], ",") {
				if f != "" && strings.Contains(impl[i], f) {
					named = true
				}
			}
			if !named {
				rep.violation(Finding{Property: "C16", Clause: "rejection-names-no-field", Input: reqs[i], Impl: impl[i], Model: ans[i]})
			}
		}
		if impl[i] != "ok" && contacted[i] != 0 {
			rep.violation(Finding{Property: "C16", Clause: "store-contacted-before-validation", Input: reqs[i], Impl: impl[i]})
		}
	}
	return nil
}
