module nleharness

go 1.25.4

require (
	github.com/ali-assar/NATS-Leader-Election v0.0.0
	github.com/nats-io/nats.go v1.47.0
	github.com/prometheus/client_golang v1.23.2
	go.uber.org/zap v1.27.1
)

require (
	github.com/antithesishq/antithesis-sdk-go v0.4.3-default-no-op // indirect
	github.com/beorn7/perks v1.0.1 // indirect
	github.com/cespare/xxhash/v2 v2.3.0 // indirect
	github.com/google/uuid v1.6.0 // indirect
	github.com/klauspost/compress v1.18.1 // indirect
	github.com/minio/highwayhash v1.0.4-0.20251030100505-070ab1a87a76 // indirect
	github.com/munnerz/goautoneg v0.0.0-20191010083416-a7dc8b61c822 // indirect
	github.com/nats-io/jwt/v2 v2.8.0 // indirect
	github.com/nats-io/nats-server/v2 v2.12.2 // indirect
	github.com/nats-io/nkeys v0.4.11 // indirect
	github.com/nats-io/nuid v1.0.1 // indirect
	github.com/prometheus/client_model v0.6.2 // indirect
	github.com/prometheus/common v0.66.1 // indirect
	github.com/prometheus/procfs v0.16.1 // indirect
	go.uber.org/multierr v1.10.0 // indirect
	go.yaml.in/yaml/v2 v2.4.2 // indirect
	golang.org/x/crypto v0.43.0 // indirect
	golang.org/x/sys v0.38.0 // indirect
	golang.org/x/time v0.14.0 // indirect
	google.golang.org/protobuf v1.36.8 // indirect
)

replace github.com/ali-assar/NATS-Leader-Election => /repo
