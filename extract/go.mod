module nleextract

go 1.23
