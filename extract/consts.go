package main

import (
	"fmt"
	"go/ast"
	"go/token"
	"strconv"
	"strings"
)

var timeUnits = map[string]int64{
	"time.Nanosecond": 1, "time.Microsecond": 1e3, "time.Millisecond": 1e6, "time.Second": 1e9,
	"time.Minute": 60e9, "time.Hour": 3600e9,
}

type constEnv struct {
	p      *pkgInfo
	consts map[string]ast.Expr
}

func newConstEnv(p *pkgInfo) *constEnv {
	ce := &constEnv{p: p, consts: map[string]ast.Expr{}}
	for _, f := range p.files {
		for _, d := range f.Decls {
			gd, ok := d.(*ast.GenDecl)
			if !ok || gd.Tok != token.CONST {
				continue
			}
			for _, sp := range gd.Specs {
				vs := sp.(*ast.ValueSpec)
				for i, n := range vs.Names {
					if i < len(vs.Values) {
						ce.consts[n.Name] = vs.Values[i]
					}
				}
			}
		}
	}
	return ce
}

// evalInt evaluates an integer/duration constant expression to an int64 (ns for durations).
func (ce *constEnv) evalInt(e ast.Expr) (int64, bool) {
	switch x := e.(type) {
	case *ast.ParenExpr:
		return ce.evalInt(x.X)
	case *ast.BasicLit:
		if x.Kind == token.INT {
			v, err := strconv.ParseInt(x.Value, 0, 64)
			return v, err == nil
		}
	case *ast.Ident:
		if c, ok := ce.consts[x.Name]; ok {
			return ce.evalInt(c)
		}
	case *ast.SelectorExpr:
		if u, ok := timeUnits[exprName(x)]; ok {
			return u, true
		}
	case *ast.BinaryExpr:
		a, ok1 := ce.evalInt(x.X)
		b, ok2 := ce.evalInt(x.Y)
		if ok1 && ok2 {
			switch x.Op {
			case token.MUL:
				return a * b, true
			case token.ADD:
				return a + b, true
			case token.SUB:
				return a - b, true
			case token.QUO:
				if b != 0 {
					return a / b, true
				}
			}
		}
	case *ast.CallExpr: // time.Duration(x)
		if exprName(x.Fun) == "time.Duration" && len(x.Args) == 1 {
			return ce.evalInt(x.Args[0])
		}
	}
	return 0, false
}

func (ce *constEnv) mustInt(e ast.Expr, what string) int64 {
	v, ok := ce.evalInt(e)
	if !ok {
		fail("%s: not a constant expression at %s", what, ce.p.pos(e))
	}
	return v
}

func (ce *constEnv) constByName(name string) int64 {
	c, ok := ce.consts[name]
	if !ok {
		fail("constant %s not found", name)
	}
	return ce.mustInt(c, name)
}

// findCalls returns every call of `name` (e.g. "time.NewTicker") inside fn, in source order.
func findCalls(body ast.Node, name string) []*ast.CallExpr {
	var out []*ast.CallExpr
	ast.Inspect(body, func(n ast.Node) bool {
		if c, ok := n.(*ast.CallExpr); ok && exprName(c.Fun) == name {
			out = append(out, c)
		}
		return true
	})
	return out
}

// findDefine returns the RHS of `name := <expr>` inside fn (first occurrence).
func findDefine(body ast.Node, name string) ast.Expr {
	var out ast.Expr
	ast.Inspect(body, func(n ast.Node) bool {
		if as, ok := n.(*ast.AssignStmt); ok && out == nil && as.Tok == token.DEFINE && len(as.Lhs) == 1 && len(as.Rhs) == 1 {
			if exprName(as.Lhs[0]) == name {
				out = as.Rhs[0]
			}
		}
		return true
	})
	return out
}

// floorRule matches:  v := <cfgfield> op K ; if v < F { v = F }   and returns (op, K, F)
func (ce *constEnv) floorRule(fn *ast.FuncDecl, v string, assignOnly bool) (string, int64, int64) {
	var rhs ast.Expr
	var floor int64 = -1
	ast.Inspect(fn.Body, func(n ast.Node) bool {
		switch x := n.(type) {
		case *ast.AssignStmt:
			if len(x.Lhs) == 1 && len(x.Rhs) == 1 && exprName(x.Lhs[0]) == v && rhs == nil {
				if _, isConst := ce.evalInt(x.Rhs[0]); !isConst {
					if be, ok := x.Rhs[0].(*ast.BinaryExpr); ok {
						rhs = be
					}
				}
			}
		case *ast.IfStmt:
			if be, ok := x.Cond.(*ast.BinaryExpr); ok && be.Op == token.LSS && exprName(be.X) == v && len(x.Body.List) == 1 {
				if as, ok := x.Body.List[0].(*ast.AssignStmt); ok && len(as.Lhs) == 1 && exprName(as.Lhs[0]) == v {
					a, ok1 := ce.evalInt(be.Y)
					b, ok2 := ce.evalInt(as.Rhs[0])
					if ok1 && ok2 && a == b {
						floor = a
					}
				}
			}
		}
		return true
	})
	be, ok := rhs.(*ast.BinaryExpr)
	if !ok || floor < 0 {
		fail("%s: rule for %s (x := H op K; if x < F { x = F }) not found", fn.Name.Name, v)
	}
	var k int64
	var okk bool
	if strings.HasSuffix(exprName(be.X), "HeartbeatInterval") {
		k, okk = ce.evalInt(be.Y)
	} else if strings.HasSuffix(exprName(be.Y), "HeartbeatInterval") && be.Op == token.MUL {
		k, okk = ce.evalInt(be.X)
	}
	if !okk {
		fail("%s: rule for %s is not H*K or H/K", fn.Name.Name, v)
	}
	op := map[token.Token]string{token.MUL: "mul", token.QUO: "div"}[be.Op]
	if op == "" {
		fail("%s: rule for %s uses unsupported operator", fn.Name.Name, v)
	}
	return op, k, floor
}

func genConsts(p *pkgInfo, out string) {
	ce := newConstEnv(p)
	var b strings.Builder
	b.WriteString("namespace NLE.Gen\n\n")
	def := func(name string, v int64, doc string) {
		fmt.Fprintf(&b, "/-- %s -/\ndef %s : Nat := %d\n", doc, name, v)
		if v < 0 {
			fail("constant %s is negative", name)
		}
	}
	def("jitterMin", ce.constByName("jitterMin"), "kv_election.go const jitterMin (ns)")
	def("jitterMax", ce.constByName("jitterMax"), "kv_election.go const jitterMax (ns)")
	def("maxRetries", ce.constByName("maxRetries"), "kv_election.go const maxRetries")

	// attemptAcquireWithRetry: loop `for retry := 0; retry <= maxRetries; retry++`, jitter from jitterMin/jitterMax
	ar := p.fn("kvElection.attemptAcquireWithRetry")
	loopOK, jitterOK, backoffOK := false, false, false
	ast.Inspect(ar.Body, func(n ast.Node) bool {
		switch x := n.(type) {
		case *ast.ForStmt:
			if be, ok := x.Cond.(*ast.BinaryExpr); ok && be.Op == token.LEQ && exprName(be.Y) == "maxRetries" {
				if as, ok := x.Init.(*ast.AssignStmt); ok && len(as.Rhs) == 1 {
					if v, ok := ce.evalInt(as.Rhs[0]); ok && v == 0 {
						loopOK = true
					}
				}
			}
		case *ast.CallExpr:
			if exprName(x.Fun) == "CalculateBackoff" && len(x.Args) == 2 {
				if c, ok := x.Args[0].(*ast.CallExpr); ok && exprName(c.Fun) == "DefaultBackoffConfig" && exprName(x.Args[1]) == "retry" {
					backoffOK = true
				}
			}
		}
		return true
	})
	if jr := findDefine(ar.Body, "jitterRange"); jr != nil {
		if be, ok := jr.(*ast.BinaryExpr); ok && be.Op == token.SUB && exprName(be.X) == "jitterMax" && exprName(be.Y) == "jitterMin" {
			if ij := findDefine(ar.Body, "initialJitter"); ij != nil {
				if be2, ok := ij.(*ast.BinaryExpr); ok && be2.Op == token.ADD && exprName(be2.X) == "jitterMin" {
					jitterOK = true
				}
			}
		}
	}
	if !loopOK {
		fail("attemptAcquireWithRetry: loop `for retry := 0; retry <= maxRetries; …` not found")
	}
	if !jitterOK {
		fail("attemptAcquireWithRetry: initial jitter is not jitterMin + rand*(jitterMax-jitterMin)")
	}
	if !backoffOK {
		fail("attemptAcquireWithRetry: backoff is not CalculateBackoff(DefaultBackoffConfig(), retry)")
	}

	// DefaultBackoffConfig literal
	db := p.fn("DefaultBackoffConfig")
	var lit *ast.CompositeLit
	ast.Inspect(db.Body, func(n ast.Node) bool {
		if cl, ok := n.(*ast.CompositeLit); ok && lit == nil {
			lit = cl
		}
		return true
	})
	if lit == nil {
		fail("DefaultBackoffConfig: composite literal not found")
	}
	fields := map[string]ast.Expr{}
	for _, el := range lit.Elts {
		if kv, ok := el.(*ast.KeyValueExpr); ok {
			fields[exprName(kv.Key)] = kv.Value
		}
	}
	def("defaultInitialBackoff", ce.mustInt(fields["InitialBackoff"], "DefaultBackoffConfig.InitialBackoff"), "retry.go DefaultBackoffConfig().InitialBackoff (ns)")
	def("defaultMaxBackoff", ce.mustInt(fields["MaxBackoff"], "DefaultBackoffConfig.MaxBackoff"), "retry.go DefaultBackoffConfig().MaxBackoff (ns)")
	fl := func(k string) string {
		bl, ok := fields[k].(*ast.BasicLit)
		if !ok || (bl.Kind != token.FLOAT && bl.Kind != token.INT) {
			fail("DefaultBackoffConfig.%s is not a numeric literal", k)
		}
		// decimal literal -> rational text "n/d"
		s := bl.Value
		if i := strings.IndexByte(s, '.'); i >= 0 {
			frac := s[i+1:]
			den := "1" + strings.Repeat("0", len(frac))
			num := strings.TrimLeft(s[:i]+frac, "0")
			if num == "" {
				num = "0"
			}
			return fmt.Sprintf("(%s : Rat) / %s", num, den)
		}
		return fmt.Sprintf("(%s : Rat)", s)
	}
	fmt.Fprintf(&b, "/-- retry.go DefaultBackoffConfig().BackoffMultiplier -/\ndef defaultMultiplier : Rat := %s\n", fl("BackoffMultiplier"))
	fmt.Fprintf(&b, "/-- retry.go DefaultBackoffConfig().Jitter -/\ndef defaultJitter : Rat := %s\n", fl("Jitter"))

	// heartbeatLoop
	hb := p.fn("kvElection.heartbeatLoop")
	mf := findDefine(hb.Body, "maxFailures")
	if mf == nil {
		fail("heartbeatLoop: maxFailures := N not found")
	}
	def("hbMaxFailures", ce.mustInt(mf, "heartbeatLoop.maxFailures"), "heartbeat.go: consecutive transient heartbeat failures before demotion")
	// default health threshold: if maxHealthFailures <= 0 { maxHealthFailures = N }
	var hdef int64 = -1
	ast.Inspect(hb.Body, func(n ast.Node) bool {
		if ifs, ok := n.(*ast.IfStmt); ok {
			if be, ok := ifs.Cond.(*ast.BinaryExpr); ok && be.Op == token.LEQ && exprName(be.X) == "maxHealthFailures" && len(ifs.Body.List) == 1 {
				if z, ok := ce.evalInt(be.Y); ok && z == 0 {
					if as, ok := ifs.Body.List[0].(*ast.AssignStmt); ok {
						if v, ok := ce.evalInt(as.Rhs[0]); ok {
							hdef = v
						}
					}
				}
			}
		}
		return true
	})
	if hdef < 0 {
		fail("heartbeatLoop: default of maxHealthFailures not found")
	}
	def("healthDefaultThreshold", hdef, "heartbeat.go: MaxConsecutiveFailures <= 0 means this many")
	wt := findCalls(hb.Body, "context.WithTimeout")
	if len(wt) != 1 || len(wt[0].Args) != 2 {
		fail("heartbeatLoop: expected exactly one context.WithTimeout (health check)")
	}
	def("healthTimeout", ce.mustInt(wt[0].Args[1], "health check timeout"), "heartbeat.go: deadline given to HealthChecker.Check (ns)")
	op, k, floor := ce.floorRule(hb, "updateTimeout", false)
	if op != "div" {
		fail("heartbeatLoop: updateTimeout is not HeartbeatInterval / K")
	}
	def("hbTimeoutDiv", k, "heartbeat.go: updateTimeout := HeartbeatInterval / this")
	def("hbTimeoutFloor", floor, "heartbeat.go: … but at least this (ns)")

	// validationLoop
	vl := p.fn("kvElection.validationLoop")
	vmf := findDefine(vl.Body, "maxFailures")
	if vmf == nil {
		fail("validationLoop: maxFailures := N not found")
	}
	def("valMaxFailures", ce.mustInt(vmf, "validationLoop.maxFailures"), "fencing.go: consecutive validation errors before demotion")
	def("defaultValidationInterval", ce.constByName("defaultValidationInterval"), "fencing.go (ns)")
	def("defaultValidationTimeout", ce.constByName("defaultValidationTimeout"), "fencing.go (ns)")

	// watchLoop periodic check
	wl := p.fn("kvElection.watchLoop")
	nt := findCalls(wl.Body, "time.NewTicker")
	if len(nt) != 1 || len(nt[0].Args) != 1 {
		fail("watchLoop: expected exactly one time.NewTicker")
	}
	def("checkInterval", ce.mustInt(nt[0].Args[0], "watchLoop ticker"), "watcher.go: periodic key check interval (ns)")

	// connection.go
	hd := p.fn("disconnectHandler.handleDisconnect")
	op, k, floor = ce.floorRule(hd, "gracePeriod", false)
	if op != "mul" {
		fail("handleDisconnect: default grace period is not K * HeartbeatInterval")
	}
	def("graceDefaultMul", k, "connection.go: default grace = this × HeartbeatInterval")
	def("graceDefaultFloor", floor, "connection.go: … but at least this (ns)")
	vr := p.fn("kvElection.verifyLeadershipAfterReconnect")
	sl := findCalls(vr.Body, "time.Sleep")
	if len(sl) != 1 {
		fail("verifyLeadershipAfterReconnect: expected one time.Sleep")
	}
	def("reconnectSettle", ce.mustInt(sl[0].Args[0], "reconnect settle sleep"), "connection.go: sleep before reconnect verification (ns)")
	vwt := findCalls(vr.Body, "context.WithTimeout")
	if len(vwt) != 1 {
		fail("verifyLeadershipAfterReconnect: expected one context.WithTimeout")
	}
	def("reconnectVerifyTimeout", ce.mustInt(vwt[0].Args[1], "reconnect verification timeout"), "connection.go (ns)")

	// Stop / StopWithContext waits
	st := p.fn("kvElection.Stop")
	ta := findCalls(st.Body, "time.After")
	if len(ta) != 1 {
		fail("Stop: expected one time.After")
	}
	def("stopWait", ce.mustInt(ta[0].Args[0], "Stop wait"), "kv_election.go Stop: max wait for background goroutines (ns)")
	sw := p.fn("kvElection.StopWithContext")
	var swDefault int64 = -1
	ast.Inspect(sw.Body, func(n ast.Node) bool {
		if as, ok := n.(*ast.AssignStmt); ok && as.Tok == token.ASSIGN && len(as.Lhs) == 1 && exprName(as.Lhs[0]) == "timeout" {
			if v, ok := ce.evalInt(as.Rhs[0]); ok {
				swDefault = v
			}
		}
		return true
	})
	if swDefault < 0 {
		fail("StopWithContext: default timeout not found")
	}
	def("stopCtxDefaultTimeout", swDefault, "kv_election.go StopWithContext: timeout when neither option nor deadline is given (ns)")
	b.WriteString("\nend NLE.Gen\n")
	writeFile(out, "Consts.lean", b.String())
}
