package main

import (
	"bytes"
	"fmt"
	"go/ast"
	"go/printer"
	"go/token"
	"sort"
	"strings"
)

func (p *pkgInfo) src(n ast.Node) string {
	var b bytes.Buffer
	printer.Fprint(&b, p.fset, n)
	return b.String()
}

// funcsWhere returns the (sorted) names of the functions whose body contains a node matching pred.
func (p *pkgInfo) funcsWhere(pred func(n ast.Node) bool) []string {
	var out []string
	for name, fd := range p.funcs {
		if fd.Body == nil {
			continue
		}
		found := false
		ast.Inspect(fd.Body, func(n ast.Node) bool {
			if n != nil && !found && pred(n) {
				found = true
			}
			return !found
		})
		if found {
			out = append(out, name)
		}
	}
	sort.Strings(out)
	return out
}

// callTo: n is a call whose function expression prints as one of names
func (p *pkgInfo) callTo(n ast.Node, names ...string) bool {
	c, ok := n.(*ast.CallExpr)
	if !ok {
		return false
	}
	s := exprName(c.Fun)
	for _, nm := range names {
		if s == nm {
			return true
		}
	}
	return false
}

func leanStrList(xs []string) string {
	q := make([]string, len(xs))
	for i, x := range xs {
		q[i] = leanStr(x)
	}
	return "[" + strings.Join(q, ", ") + "]"
}

// stmtsBefore returns the source of the statements of fd's body that precede the first statement whose source contains marker.
func (p *pkgInfo) stmtsBefore(fd *ast.FuncDecl, marker string) (string, bool) {
	var b strings.Builder
	for _, s := range fd.Body.List {
		src := p.src(s)
		if strings.Contains(src, marker) {
			return b.String(), true
		}
		b.WriteString(src)
		b.WriteString("\n")
	}
	return b.String(), false
}

func squash(s string) string { return strings.Join(strings.Fields(s), " ") }

func genShape(p *pkgInfo, out string) {
	var b strings.Builder
	b.WriteString("namespace NLE.Gen\n\n")
	list := func(name, doc string, xs []string) {
		fmt.Fprintf(&b, "/-- %s -/\ndef %s : List String := %s\n", doc, name, leanStrList(xs))
	}
	flag := func(name, doc string, v bool) {
		fmt.Fprintf(&b, "/-- %s -/\ndef %s : Bool := %v\n", doc, name, v)
	}
	// (A) writers of the leader's state fields
	for _, f := range []string{"revision", "token", "leaderID", "isLeader", "state"} {
		list(f+"Writers", "functions that store into e."+f,
			p.funcsWhere(func(n ast.Node) bool { return p.callTo(n, "e."+f+".Store", "d.election."+f+".Store") }))
	}
	// (B) callers
	callers := map[string][]string{
		"becomeFollower":          {"e.becomeFollower", "d.election.becomeFollower"},
		"becomeLeader":            {"e.becomeLeader"},
		"stepDown":                {"e.stepDown", "d.election.stepDown"},
		"attemptAcquire":          {"e.attemptAcquire"},
		"attemptPriorityTakeover": {"e.attemptPriorityTakeover"},
		"observeLeader":           {"e.observeLeader"},
		"onDemote":                {"onDemote", "e.onDemote"},
		"kvDelete":                {"e.kv.Delete"},
		"kvCreate":                {"e.kv.Create"},
		"kvUpdate":                {"e.kv.Update"},
	}
	for _, k := range sortedKeys(callers) {
		names := callers[k]
		list(k+"Callers", "functions that call "+strings.Join(names, " / "),
			p.funcsWhere(func(n ast.Node) bool { return p.callTo(n, names...) }))
	}
	// (C) go statements not preceded by wg.Add(1)
	var untracked []string
	for name, fd := range p.funcs {
		if fd.Body == nil {
			continue
		}
		ast.Inspect(fd.Body, func(n ast.Node) bool {
			blk, ok := n.(*ast.BlockStmt)
			if !ok {
				// case clauses hold statement lists too
				if cc, ok := n.(*ast.CaseClause); ok {
					checkGo(p, name, cc.Body, &untracked)
				}
				if cc, ok := n.(*ast.CommClause); ok {
					checkGo(p, name, cc.Body, &untracked)
				}
				return true
			}
			checkGo(p, name, blk.List, &untracked)
			return true
		})
	}
	sort.Strings(untracked)
	list("untrackedGo", "functions with a `go` statement that is not preceded (assignments aside) by wg.Add(1)", untracked)

	// (D) guards
	bl := p.fn("kvElection.becomeLeader")
	pre, ok := p.stmtsBefore(bl, "e.isLeader.Store(true)")
	pre = squash(pre)
	flag("becomeLeaderRefusesWhenLeading", "becomeLeader returns false before raising the flag when e.isLeader.Load()",
		ok && strings.Contains(pre, "if e.isLeader.Load() {") && strings.Count(pre, "return false") >= 2)
	flag("becomeLeaderRefusesWhenStopped", "becomeLeader returns false before raising the flag when !e.running()",
		ok && strings.Contains(pre, "if !e.running() {") && strings.Count(pre, "return false") >= 2)
	bf := p.fn("kvElection.becomeFollower")
	// the top-level `if !e.running() { … return wasLeader }` precedes the top-level record of FOLLOWER; inside it FOLLOWER is
	// recorded only when no stop call ended the run (`if !e.stopped {`: the caller's context did)
	keeps := false
	seenGuard := false
	for _, st := range bf.Body.List {
		src := squash(p.src(st))
		if ifs, ok := st.(*ast.IfStmt); ok && squash(p.src(ifs.Cond)) == "!e.running()" {
			iStopped := strings.Index(src, "if !e.stopped {")
			iStore := strings.Index(src, "e.state.Store(StateFollower)")
			seenGuard = strings.HasSuffix(src, "return wasLeader }") && strings.Count(src, "e.state.Store(") <= 1 &&
				(iStore < 0 || (iStopped >= 0 && iStopped < iStore))
			continue
		}
		if strings.HasPrefix(src, "e.state.Store(StateFollower)") {
			keeps = seenGuard
			break
		}
	}
	flag("becomeFollowerKeepsStopped", "becomeFollower returns before recording FOLLOWER when !e.running() (a run ended by a stop call stays STOPPED)", keeps)
	stt := squash(p.src(p.fn("kvElection.Start").Body))
	iCtx := strings.Index(stt, "e.ctx, e.cancel = context.WithCancel(ctx)")
	iLead := strings.Index(stt, "if e.isLeader.Load() { return ErrAlreadyStarted }")
	flag("startRefusedWhileLeading", "Start refuses to begin a run while the leadership flag of the previous one is still raised",
		iLead >= 0 && iCtx > iLead)
	iWind := strings.Index(stt, "if e.windingDown > 0 { return ErrAlreadyStarted }")
	stp := squash(p.src(p.fn("kvElection.Stop").Body)) + " ### " + squash(p.src(p.fn("kvElection.StopWithContext").Body))
	flag("startRefusedWhileWindingDown", "Start refuses while a helper goroutine of a stop call is still in wg.Wait (the goroutines of the run it ended have not all returned): the WaitGroup is not reused under a pending Wait; both stop calls count their helper under e.mu",
		iWind >= 0 && iCtx > iWind && strings.Count(stp, "e.mu.Lock() e.windingDown++ e.mu.Unlock() go func() { e.wg.Wait() e.mu.Lock() e.windingDown-- e.mu.Unlock() close(done) }()") == 2)
	sb := squash(p.src(p.fn("kvElection.Status").Body))
	flag("statusUnderReadLock", "Status() assembles its snapshot under the election's read lock (transitions write isLeader, state, token and leader id inside one critical section)",
		strings.HasPrefix(sb, "{ e.mu.RLock() defer e.mu.RUnlock()"))
	// both stop calls: one critical section cancels the run's context, lowers the flag and records STOPPED - in that order,
	// with no unlock in between (an in-flight acquisition that is answered later finds the run over)
	stopAtomic := func(fn string) bool {
		body := squash(p.src(p.fn(fn).Body))
		iCancel := strings.Index(body, "e.cancel()")
		iFlag := strings.Index(body, "e.isLeader.Store(false)")
		iState := strings.Index(body, "e.state.Store(StateStopped)")
		if iCancel < 0 || iFlag < iCancel || iState < iFlag {
			return false
		}
		return !strings.Contains(body[iCancel:iState], "e.mu.Unlock()")
	}
	flag("stopCancelsInsideItsCriticalSection", "Stop and StopWithContext cancel the run's context, lower the flag and record STOPPED inside one critical section, in that order",
		stopAtomic("kvElection.Stop") && stopAtomic("kvElection.StopWithContext"))
	tk0 := squash(p.src(p.fn("kvElection.Token").Body))
	flag("tokenAccessorIsTheStoredToken", "Token() returns the stored token unconditionally (the heartbeat builds its refresh from it after its leadership re-check: an accessor that also looks at the flag could hand it an empty token)",
		tk0 == "{ if t := e.token.Load(); t != nil { return t.(string) } return \"\" }")
	flag("ctxCancelStepsDown", "Start spawns a goroutine that steps down when the run's context ends without a stop call",
		strings.Contains(stt, "<-runCtx.Done()") && strings.Contains(stt, "byStop := e.stopped || e.ctx != runCtx") &&
			strings.Contains(stt, "if !byStop { e.stepDown(\"context_cancelled\") }"))
	flag("startResetsWatcherFlag", "Start clears watcherRunning (a watch loop of the previous run may still be winding down)",
		strings.Contains(stt, "e.watcherRunning.Store(false)"))
	rd := squash(p.src(p.fn("kvElection.attemptAcquireWithRetry").Body))
	flag("roundChecksLeader", "attemptAcquireWithRetry tests IsLeader before each attempt and before the final fallback",
		strings.Count(rd, "if e.IsLeader() { return }") >= 2)
	hb := squash(p.src(p.fn("kvElection.heartbeatLoop").Body))
	iHealth := strings.Index(hb, "HealthChecker.Check(")
	iRecheck := strings.Index(hb, "if ctx.Err() != nil || !e.IsLeader() { return }")
	iRev := strings.Index(hb, "currentRev := e.revision.Load()")
	flag("heartbeatRechecksTerm", "heartbeatLoop re-checks the term after the health check, before reading the revision",
		iHealth >= 0 && iRecheck > iHealth && iRev > iRecheck)
	flag("heartbeatPresentsRevisionField", "the heartbeat Update presents currentRev := e.revision.Load()",
		iRev >= 0 && strings.Contains(hb, "e.kv.Update(e.key, payloadBytes, currentRev"))
	hw := squash(p.src(p.fn("kvElection.handleWatchEvent").Body))
	flag("watcherComparesRevision", "a leader steps down on a watch event only if it is newer than its own revision",
		strings.Contains(hw, "newLeaderID != e.cfg.InstanceID && entry.Revision() > e.revision.Load()"))
	ol := squash(p.src(p.fn("kvElection.observeLeader").Body))
	flag("observeLeaderGuarded", "observeLeader drops the observation under e.mu when the instance leads",
		strings.Contains(ol, "e.mu.Lock()") && strings.Contains(ol, "if e.isLeader.Load() { return }"))
	tk := squash(p.src(p.fn("kvElection.attemptPriorityTakeover").Body))
	flag("takeoverFreshToken", "the takeover write publishes a new uuid", strings.Contains(tk, "takeoverPayload.Token = uuid.New().String()"))
	flag("takeoverStrictPriority", "takeover only when cfg.Priority > stored priority",
		strings.Contains(tk, "if e.cfg.Priority <= currentPayload.Priority {"))
	aa := squash(p.src(p.fn("kvElection.attemptAcquire").Body))
	flag("takeoverNeedsFlagAndPositivePriority", "the takeover path is entered only with AllowPriorityTakeover && Priority > 0",
		strings.Contains(aa, "if e.cfg.AllowPriorityTakeover && e.cfg.Priority > 0 { return e.attemptPriorityTakeover(payloadBytes) }"))
	up := ""
	if fd, ok := p.funcs["natsWatcherAdapter.Updates"]; ok {
		up = squash(p.src(fd.Body))
	}
	flag("adapterUpdatesOnce", "natsWatcherAdapter.Updates creates its channel and forwarder once", strings.Contains(up, ".Do(func()"))
	sw := squash(p.src(p.fn("kvElection.StopWithContext").Body))
	flag("deleteOnlyForOwnerOrAcquired", "StopWithContext deletes only if it led or acquired while stopping",
		strings.Contains(sw, "if opts.DeleteKey && (wasLeader || acquiredWhileStopping) {"))
	hbt := squash(p.src(p.fn("kvElection.becomeLeader").Body))
	flag("termContextPerTerm", "becomeLeader derives a per-term context and runs loops and OnPromote under it",
		strings.Contains(hbt, "termCtx, termCancel := context.WithCancel(e.ctx)") && strings.Contains(hbt, "e.heartbeatLoop(termCtx)") &&
			strings.Contains(hbt, "context.WithCancel(termCtx)"))
	flag("termCancelledOnDemotion", "becomeFollower cancels the term context", strings.Contains(squash(p.src(bf.Body)), "e.termCancel()"))
	flag("healthCountResetPerTerm", "becomeLeader resets the health failure count", strings.Contains(hbt, "e.healthFailureCount.Store(0)"))
	// OnDemote never starts before the OnPromote of the same term: the promotion goroutine signals its start,
	// everybody who ends a term waits for the signal
	blBody := squash(p.src(p.fn("kvElection.becomeLeader").Body))
	flag("promoteSignalsStart", "becomeLeader's callback goroutine closes the term's promoteStarted channel right before calling OnPromote",
		strings.Contains(blBody, "started := make(chan struct{})") && strings.Contains(blBody, "e.promoteStarted = started") &&
			strings.Contains(blBody, "close(started) onPromote(promoteCtx, token)"))
	awaitOK := false
	if fd, ok := p.funcs["kvElection.awaitPromoteStarted"]; ok {
		awaitOK = strings.Contains(squash(p.src(fd.Body)), "<-e.promoteStarted")
	}
	enders := 0
	for _, fn := range []string{"kvElection.becomeFollower", "kvElection.Stop", "kvElection.StopWithContext"} {
		if strings.Contains(squash(p.src(p.fn(fn).Body)), "if wasLeader { e.awaitPromoteStarted() }") {
			enders++
		}
	}
	flag("termEndAwaitsPromoteStart", "becomeFollower, Stop and StopWithContext wait for that signal when they end a term", awaitOK && enders == 3)
	// StopWithContext: one deadline for all its waits, key deletion not a blocking call of the caller
	swc := squash(p.src(p.fn("kvElection.StopWithContext").Body))
	flag("stopWaitsShareDeadline", "StopWithContext computes one deadline (assigned once) and every wait of it uses time.Until(deadline)",
		strings.Contains(swc, "deadline := time.Now().Add(timeout)") && strings.Count(swc, "time.After(time.Until(deadline))") >= 3 &&
			!strings.Contains(swc, "time.After(timeout)") && !strings.Contains(swc, "deadline = "))
	flag("stopDeleteAsync", "StopWithContext issues the key deletion from a goroutine and waits for it under the deadline",
		strings.Contains(swc, "go func() { deleted <- e.kv.Delete(e.key) }()") && strings.Count(swc, "e.kv.Delete(") == 1)
	st := squash(p.src(p.fn("kvElection.Stop").Body))
	flag("stopWaitsFiveSeconds", "Stop waits for the background goroutines for at most 5 s", strings.Contains(st, "case <-time.After(5 * time.Second):"))
	flag("stopctxDefaultFiveSeconds", "StopWithContext without Timeout and without a context deadline uses 5 s", strings.Contains(swc, "timeout = 5 * time.Second"))
	// C20 beyond struct fields: a local variable of a function that a goroutine started by that function assigns (the
	// closure of a `go` statement writes a variable declared outside it) is shared memory without a mutex; every such
	// pair is listed and has to be accounted for
	var shared []string
	var fnames []string
	for name := range p.funcs {
		fnames = append(fnames, name)
	}
	sort.Strings(fnames)
	for _, name := range fnames {
		fd := p.funcs[name]
		if fd.Body == nil || strings.HasSuffix(p.fset.Position(fd.Pos()).Filename, "_test.go") {
			continue
		}
		ast.Inspect(fd.Body, func(n ast.Node) bool {
			gs, ok := n.(*ast.GoStmt)
			if !ok {
				return true
			}
			lit, ok := gs.Call.Fun.(*ast.FuncLit)
			if !ok {
				return true
			}
			local := map[string]bool{}
			if lit.Type.Params != nil {
				for _, f := range lit.Type.Params.List {
					for _, nm := range f.Names {
						local[nm.Name] = true
					}
				}
			}
			ast.Inspect(lit.Body, func(m ast.Node) bool {
				switch x := m.(type) {
				case *ast.AssignStmt:
					for _, lhs := range x.Lhs {
						id, ok := lhs.(*ast.Ident)
						if !ok || id.Name == "_" {
							continue
						}
						if x.Tok == token.DEFINE {
							local[id.Name] = true
						} else if !local[id.Name] {
							shared = append(shared, name+":"+id.Name)
						}
					}
				case *ast.DeclStmt:
					if gd, ok := x.Decl.(*ast.GenDecl); ok {
						for _, sp := range gd.Specs {
							if vs, ok := sp.(*ast.ValueSpec); ok {
								for _, nm := range vs.Names {
									local[nm.Name] = true
								}
							}
						}
					}
				case *ast.RangeStmt:
					if x.Tok == token.DEFINE {
						for _, e := range []ast.Expr{x.Key, x.Value} {
							if id, ok := e.(*ast.Ident); ok {
								local[id.Name] = true
							}
						}
					}
				case *ast.IncDecStmt:
					if id, ok := x.X.(*ast.Ident); ok && !local[id.Name] {
						shared = append(shared, name+":"+id.Name)
					}
				}
				return true
			})
			return true
		})
	}
	sort.Strings(shared)
	fmt.Fprintf(&b, "/-- (function:variable) pairs where the closure of a `go` statement assigns a variable declared outside it -/\ndef goClosureOuterWrites : List String := %s\n", leanStrList(shared))
	b.WriteString("\nend NLE.Gen\n")
	writeFile(out, "Shape.lean", b.String())
}

func checkGo(p *pkgInfo, fname string, stmts []ast.Stmt, untracked *[]string) {
	for i, s := range stmts {
		if _, ok := s.(*ast.GoStmt); ok {
			tracked := false
			// the statement before the `go`, looking past plain assignments and declarations in between
			j := i - 1
			for j >= 0 {
				switch stmts[j].(type) {
				case *ast.AssignStmt, *ast.DeclStmt:
					j--
					continue
				}
				break
			}
			if j >= 0 {
				if es, ok := stmts[j].(*ast.ExprStmt); ok {
					if c, ok := es.X.(*ast.CallExpr); ok {
						nm := exprName(c.Fun)
						if strings.HasSuffix(nm, "wg.Add") {
							tracked = true
						}
					}
				}
			}
			if !tracked {
				*untracked = append(*untracked, fname)
			}
		}
	}
}

var _ = token.NoPos
