package main

func genShape(p *pkgInfo, out string)    {}
func genLocks(p *pkgInfo, out string)    {}
