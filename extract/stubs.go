package main

func genLocks(p *pkgInfo, out string)    {}
