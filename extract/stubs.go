package main

func genConsts(p *pkgInfo, out string)   {}
func genShape(p *pkgInfo, out string)    {}
func genLocks(p *pkgInfo, out string)    {}
