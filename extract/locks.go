package main

// Lock facts (property C20): for the structs that carry the library's mutable state, every syntactic access to a
// field, with the mutexes of those structs that are certainly held at that point (intra-procedural must-hold
// analysis, entry locksets propagated over the package's call graph to a fixpoint).

import (
	"fmt"
	"go/ast"
	"go/token"
	"sort"
	"strings"
)

var lockStructs = []string{"kvElection", "disconnectHandler", "natsConnectionMonitor"}

type lockState map[string]int // struct name -> 0 none, 1 read lock, 2 write lock

func (s lockState) clone() lockState {
	c := lockState{}
	for k, v := range s {
		c[k] = v
	}
	return c
}

// mayMode switches the analysis from "certainly held" (intersection at joins) to "possibly held" (union at joins).
var mayMode bool

func join(a, b lockState) lockState {
	c := lockState{}
	for k, v := range a {
		c[k] = v
	}
	for k, v := range b {
		if v > c[k] {
			c[k] = v
		}
	}
	return c
}

func meet(a, b lockState) lockState {
	if mayMode {
		return join(a, b)
	}
	c := lockState{}
	for k, v := range a {
		if w, ok := b[k]; ok {
			if w < v {
				v = w
			}
			if v > 0 {
				c[k] = v
			}
		}
	}
	return c
}

func sameState(a, b lockState) bool {
	if len(a) != len(b) {
		return false
	}
	for k, v := range a {
		if b[k] != v {
			return false
		}
	}
	return true
}

type lockAccess struct {
	Struct, Field, Func string
	Write               bool
	Held                int
	MayHeld             int
	InGo                bool
	Line                int
	File                string
}

// lockEdge: a mutex acquired while another (or the same) one may be held.
type lockEdge struct {
	From, To string
	Func     string
	Line     int
}

// lockWait: a blocking wait (WaitGroup, callback of the application) reached while a mutex may be held.
type lockWait struct {
	Kind, What, Held, Func string
	Line                   int
}

type lockAnalysis struct {
	wgAdds       []lockAccess // Add on a WaitGroup field of the tracked structs, with the locks certainly held
	atomicWrites []lockAccess // Store / Swap / CompareAndSwap / Add on atomic fields of the tracked structs, with the locks certainly held
	nbComm            map[token.Pos]bool // receive / send expressions that are cases of a select with a default clause
	noEdges, noAccess bool // walking a deferred literal at its defer statement (accesses only) / at a return (edges only)
	edges    []lockEdge
	waits    []lockWait
	p        *pkgInfo
	fields   map[string]map[string]string // struct -> field -> type text
	entry    map[string]lockState         // function -> locks held at entry
	top      map[string]bool              // function whose entry state is still "everything" (no call site seen yet)
	callSeen map[string][]lockState
	accesses []lockAccess
	record   bool
}

func typeText(e ast.Expr) string {
	switch t := e.(type) {
	case *ast.Ident:
		return t.Name
	case *ast.StarExpr:
		return "*" + typeText(t.X)
	case *ast.SelectorExpr:
		return typeText(t.X) + "." + t.Sel.Name
	case *ast.FuncType:
		return "func"
	case *ast.ArrayType:
		return "[]" + typeText(t.Elt)
	case *ast.MapType:
		return "map"
	case *ast.InterfaceType:
		return "interface"
	case *ast.ChanType:
		return "chan"
	}
	return "?"
}

// ifaceImpl: the package's own implementation of an interface-typed field (calls through the field reach its methods).
var ifaceImpl = map[string]string{"ConnectionMonitor": "natsConnectionMonitor"}

func (la *lockAnalysis) structOfType(t string) string {
	t = strings.TrimPrefix(t, "*")
	if impl, ok := ifaceImpl[t]; ok {
		t = impl
	}
	for _, s := range lockStructs {
		if t == s {
			return s
		}
	}
	return ""
}

// typeOf resolves an expression to one of the tracked structs ("" otherwise).
func (la *lockAnalysis) typeOf(e ast.Expr, env map[string]string) string {
	switch x := e.(type) {
	case *ast.Ident:
		return env[x.Name]
	case *ast.ParenExpr:
		return la.typeOf(x.X, env)
	case *ast.StarExpr:
		return la.typeOf(x.X, env)
	case *ast.SelectorExpr:
		if s := la.typeOf(x.X, env); s != "" {
			return la.structOfType(la.fields[s][x.Sel.Name])
		}
	}
	return ""
}

type walker struct {
	la   *lockAnalysis
	fn   string
	env  map[string]string
	inGo bool
	defers []*ast.FuncLit // deferred literals seen so far (may mode: re-walked at every exit for the lock order)
}

func terminates(stmts []ast.Stmt) bool {
	if len(stmts) == 0 {
		return false
	}
	switch s := stmts[len(stmts)-1].(type) {
	case *ast.ReturnStmt:
		return true
	case *ast.BranchStmt:
		return s.Tok == token.BREAK || s.Tok == token.CONTINUE || s.Tok == token.GOTO
	case *ast.ExprStmt:
		if c, ok := s.X.(*ast.CallExpr); ok {
			if id, ok := c.Fun.(*ast.Ident); ok && id.Name == "panic" {
				return true
			}
		}
	case *ast.BlockStmt:
		return terminates(s.List)
	}
	return false
}

// lockCall recognises X.mu.Lock() etc. on a tracked struct: returns (struct, new level or -1 for unlock).
func (w *walker) lockCall(c *ast.CallExpr) (string, int, bool) {
	sel, ok := c.Fun.(*ast.SelectorExpr)
	if !ok {
		return "", 0, false
	}
	inner, ok := sel.X.(*ast.SelectorExpr)
	if !ok || inner.Sel.Name != "mu" {
		return "", 0, false
	}
	s := w.la.typeOf(inner.X, w.env)
	if s == "" {
		return "", 0, false
	}
	switch sel.Sel.Name {
	case "Lock":
		return s, 2, true
	case "RLock":
		return s, 1, true
	case "Unlock", "RUnlock":
		return s, -1, true
	}
	return "", 0, false
}

func (w *walker) access(e *ast.SelectorExpr, write bool, st lockState) {
	s := w.la.typeOf(e.X, w.env)
	if s == "" {
		return
	}
	if _, ok := w.la.fields[s][e.Sel.Name]; !ok {
		return // a method
	}
	if !w.la.record || w.la.noAccess {
		return
	}
	pos := w.la.p.fset.Position(e.Pos())
	w.la.accesses = append(w.la.accesses, lockAccess{Struct: s, Field: e.Sel.Name, Func: w.fn, Write: write, Held: st[s], InGo: w.inGo,
		Line: pos.Line, File: shortFile(pos.Filename)})
}

func shortFile(f string) string {
	if i := strings.LastIndex(f, "/"); i >= 0 {
		return f[i+1:]
	}
	return f
}

// expr walks an expression: field reads, calls, function literals.
func (w *walker) expr(e ast.Expr, st lockState) {
	switch x := e.(type) {
	case nil:
	case *ast.SelectorExpr:
		// a field of a tracked struct, or a path through one
		w.access(x, false, st)
		w.expr(x.X, st)
	case *ast.CallExpr:
		w.call(x, st, false)
	case *ast.FuncLit:
		// a function value created here and run by somebody else, later: no lock can be assumed
		sub := &walker{la: w.la, fn: w.fn, env: w.env, inGo: true}
		sub.body(x.Body.List, lockState{})
	case *ast.UnaryExpr:
		if x.Op == token.AND {
			if sel, ok := x.X.(*ast.SelectorExpr); ok {
				w.access(sel, true, st) // address taken: treat as a write
				w.expr(sel.X, st)
				return
			}
		}
		if x.Op == token.ARROW {
			w.noteWait("chan", squash(w.la.p.src(x.X)), st, x.Pos())
		}
		w.expr(x.X, st)
	case *ast.BinaryExpr:
		w.expr(x.X, st)
		w.expr(x.Y, st)
	case *ast.ParenExpr:
		w.expr(x.X, st)
	case *ast.StarExpr:
		w.expr(x.X, st)
	case *ast.IndexExpr:
		w.expr(x.X, st)
		w.expr(x.Index, st)
	case *ast.SliceExpr:
		w.expr(x.X, st)
		w.expr(x.Low, st)
		w.expr(x.High, st)
	case *ast.TypeAssertExpr:
		w.expr(x.X, st)
	case *ast.CompositeLit:
		for _, el := range x.Elts {
			if kv, ok := el.(*ast.KeyValueExpr); ok {
				w.expr(kv.Value, st)
			} else {
				w.expr(el, st)
			}
		}
	case *ast.KeyValueExpr:
		w.expr(x.Value, st)
	}
}

// call handles lock operations, calls of the package's own methods (entry lockset propagation), immediately invoked
// literals and ordinary calls.
func (w *walker) call(c *ast.CallExpr, st lockState, deferred bool) {
	if s, lvl, ok := w.lockCall(c); ok {
		if deferred {
			return // a deferred unlock: the lock stays held to the end of the function
		}
		if lvl < 0 {
			delete(st, s)
		} else {
			if mayMode && w.la.record && !w.la.noEdges {
				for _, t := range lockStructs {
					if st[t] > 0 {
						w.la.edges = append(w.la.edges, lockEdge{t, s, w.fn, w.la.p.fset.Position(c.Pos()).Line})
					}
				}
			}
			st[s] = lvl
		}
		return
	}
	if sel, ok := c.Fun.(*ast.SelectorExpr); ok && !mayMode && w.la.record && !w.la.noAccess {
		switch sel.Sel.Name {
		case "Store", "Swap", "CompareAndSwap", "Add":
			if inner, ok := sel.X.(*ast.SelectorExpr); ok {
				if s := w.la.typeOf(inner.X, w.env); s != "" {
					if t, isField := w.la.fields[s][inner.Sel.Name]; isField && t == "sync.WaitGroup" && sel.Sel.Name == "Add" {
						w.la.wgAdds = append(w.la.wgAdds, lockAccess{Struct: s, Field: inner.Sel.Name, Func: w.fn, Write: true,
							Held: st[s], InGo: w.inGo, Line: w.la.p.fset.Position(c.Pos()).Line, File: shortFile(w.la.p.fset.Position(c.Pos()).Filename)})
					}
					if t, isField := w.la.fields[s][inner.Sel.Name]; isField && strings.HasPrefix(t, "atomic.") {
						w.la.atomicWrites = append(w.la.atomicWrites, lockAccess{Struct: s, Field: inner.Sel.Name, Func: w.fn, Write: true,
							Held: st[s], InGo: w.inGo, Line: w.la.p.fset.Position(c.Pos()).Line, File: shortFile(w.la.p.fset.Position(c.Pos()).Filename)})
					}
				}
			}
		}
	}
	if sel, ok := c.Fun.(*ast.SelectorExpr); ok {
		if inner, ok := sel.X.(*ast.SelectorExpr); ok && inner.Sel.Name == "kv" && w.la.typeOf(inner.X, w.env) != "" {
			w.noteWait("store", sel.Sel.Name, st, c.Pos())
		}
		if id, ok := sel.X.(*ast.Ident); ok && id.Name == "time" && sel.Sel.Name == "Sleep" {
			w.noteWait("sleep", "", st, c.Pos())
		}
	}
	if mayMode && w.la.record && !w.la.noEdges {
		if sel, ok := c.Fun.(*ast.SelectorExpr); ok && sel.Sel.Name == "Wait" {
			if inner, ok := sel.X.(*ast.SelectorExpr); ok && inner.Sel.Name == "wg" {
				for _, t := range lockStructs {
					if st[t] > 0 {
						w.la.waits = append(w.la.waits, lockWait{"wg.Wait", typeText(inner), t, w.fn, w.la.p.fset.Position(c.Pos()).Line})
					}
				}
			}
		}
	}
	for _, a := range c.Args {
		// a method value passed as an argument escapes: it can be called from anywhere
		if sel, ok := a.(*ast.SelectorExpr); ok {
			if s := w.la.typeOf(sel.X, w.env); s != "" {
				if _, isField := w.la.fields[s][sel.Sel.Name]; !isField {
					w.la.noteCall(s+"."+sel.Sel.Name, lockState{})
					continue
				}
			}
		}
		w.expr(a, st)
	}
	switch f := c.Fun.(type) {
	case *ast.FuncLit:
		// immediately invoked: runs here, with what is held here
		sub := &walker{la: w.la, fn: w.fn, env: w.env, inGo: w.inGo}
		sub.body(f.Body.List, st.clone())
	case *ast.SelectorExpr:
		if s := w.la.typeOf(f.X, w.env); s != "" {
			if _, isField := w.la.fields[s][f.Sel.Name]; isField {
				// calling a function-typed field (a callback): a read of the field
				w.access(f, false, st)
				if mayMode && w.la.record && !w.la.noEdges && w.la.fields[s][f.Sel.Name] == "func" {
					for _, t := range lockStructs {
						if st[t] > 0 {
							w.la.waits = append(w.la.waits, lockWait{"callback", s + "." + f.Sel.Name, t, w.fn, w.la.p.fset.Position(c.Pos()).Line})
						}
					}
				}
			} else {
				w.la.noteCall(s+"."+f.Sel.Name, st)
			}
			w.expr(f.X, st)
			return
		}
		w.expr(f.X, st)
	default:
		w.expr(c.Fun, st)
	}
}

// noteWait records a blocking wait reached while a tracked mutex may be held (may mode only).
func (w *walker) noteWait(kind, what string, st lockState, pos token.Pos) {
	if !(mayMode && w.la.record && !w.la.noEdges) || w.la.nbComm[pos] {
		return
	}
	for _, t := range lockStructs {
		if st[t] > 0 {
			w.la.waits = append(w.la.waits, lockWait{kind, what, t, w.fn, w.la.p.fset.Position(pos).Line})
		}
	}
}

func (la *lockAnalysis) noteCall(fn string, st lockState) {
	la.callSeen[fn] = append(la.callSeen[fn], st.clone())
}

func (w *walker) assignTarget(e ast.Expr, st lockState) {
	switch x := e.(type) {
	case *ast.SelectorExpr:
		w.access(x, true, st)
		w.expr(x.X, st)
	case *ast.IndexExpr:
		w.expr(x.X, st)
		w.expr(x.Index, st)
	case *ast.StarExpr:
		w.expr(x.X, st)
	}
}

// body walks a whole function (or literal) body: the statements, then - when control can fall out of the end - the
// deferred literals.
func (w *walker) body(stmts []ast.Stmt, st lockState) {
	out, term := w.block(stmts, st)
	if !term {
		w.runDefers(out)
	}
}

// runDefers (may mode): the deferred literals run at this exit, with what is held here (a deferred Unlock registered
// earlier counts as still held: over-approximation). Only lock-order edges and waits are recorded.
func (w *walker) runDefers(st lockState) {
	if !mayMode || len(w.defers) == 0 {
		return
	}
	saved := w.la.noAccess
	w.la.noAccess = true
	for i := len(w.defers) - 1; i >= 0; i-- {
		sub := &walker{la: w.la, fn: w.fn, env: w.env, inGo: w.inGo}
		sub.body(w.defers[i].Body.List, st.clone())
	}
	w.la.noAccess = saved
}

// block walks a statement list; it returns the state after it and whether control cannot fall out of it.
func (w *walker) block(stmts []ast.Stmt, st lockState) (lockState, bool) {
	for _, s := range stmts {
		st = w.stmt(s, st)
	}
	return st, terminates(stmts)
}

func (w *walker) stmt(s ast.Stmt, st lockState) lockState {
	switch x := s.(type) {
	case *ast.ExprStmt:
		if c, ok := x.X.(*ast.CallExpr); ok {
			w.call(c, st, false)
		} else {
			w.expr(x.X, st)
		}
	case *ast.AssignStmt:
		for _, r := range x.Rhs {
			w.expr(r, st)
		}
		for _, l := range x.Lhs {
			w.assignTarget(l, st)
		}
		// local aliases of tracked structs: `h := e.disconnectHandler`
		if len(x.Lhs) == len(x.Rhs) {
			for i, l := range x.Lhs {
				if id, ok := l.(*ast.Ident); ok {
					if t := w.la.typeOf(x.Rhs[i], w.env); t != "" {
						w.env[id.Name] = t
					}
				}
			}
		}
	case *ast.IncDecStmt:
		w.assignTarget(x.X, st)
	case *ast.DeclStmt:
		if gd, ok := x.Decl.(*ast.GenDecl); ok {
			for _, sp := range gd.Specs {
				if vs, ok := sp.(*ast.ValueSpec); ok {
					for _, v := range vs.Values {
						w.expr(v, st)
					}
				}
			}
		}
	case *ast.ReturnStmt:
		for _, r := range x.Results {
			w.expr(r, st)
		}
		w.runDefers(st)
	case *ast.GoStmt:
		// a new goroutine: holds nothing
		if f, ok := x.Call.Fun.(*ast.FuncLit); ok {
			for _, a := range x.Call.Args {
				w.expr(a, st)
			}
			sub := &walker{la: w.la, fn: w.fn, env: w.env, inGo: true}
			sub.body(f.Body.List, lockState{})
		} else {
			sub := &walker{la: w.la, fn: w.fn, env: w.env, inGo: true}
			sub.call(x.Call, lockState{}, false)
		}
	case *ast.DeferStmt:
		if f, ok := x.Call.Fun.(*ast.FuncLit); ok {
			// runs at return: a lock taken with a deferred unlock *before* this statement is still held then; one that is
			// released explicitly is not.  Without tracking which is which, assume nothing.
			sub := &walker{la: w.la, fn: w.fn, env: w.env, inGo: w.inGo}
			if mayMode {
				// accesses: whatever is held here may still be held at return; lock order: re-walked at every exit
				w.defers = append(w.defers, f)
				savedNE := w.la.noEdges
				w.la.noEdges = true
				sub.block(f.Body.List, st.clone())
				w.la.noEdges = savedNE
			} else {
				sub.block(f.Body.List, lockState{})
			}
		} else {
			w.call(x.Call, st, true)
		}
	case *ast.BlockStmt:
		st, _ = w.block(x.List, st)
	case *ast.IfStmt:
		if x.Init != nil {
			st = w.stmt(x.Init, st)
		}
		w.expr(x.Cond, st)
		thenSt, thenTerm := w.block(x.Body.List, st.clone())
		var elseSt lockState
		elseTerm := false
		if x.Else != nil {
			elseSt = w.stmt(x.Else, st.clone())
			if b, ok := x.Else.(*ast.BlockStmt); ok {
				elseTerm = terminates(b.List)
			}
		} else {
			elseSt = st
		}
		switch {
		case thenTerm && elseTerm:
			// unreachable after; keep anything
			st = elseSt
		case thenTerm:
			st = elseSt
		case elseTerm:
			st = thenSt
		default:
			st = meet(thenSt, elseSt)
		}
	case *ast.ForStmt:
		if x.Init != nil {
			st = w.stmt(x.Init, st)
		}
		w.expr(x.Cond, st)
		bodySt, bodyTerm := w.block(x.Body.List, st.clone())
		if !bodyTerm {
			st = meet(st, bodySt)
		}
	case *ast.RangeStmt:
		w.expr(x.X, st)
		bodySt, bodyTerm := w.block(x.Body.List, st.clone())
		if !bodyTerm {
			st = meet(st, bodySt)
		}
	case *ast.SwitchStmt:
		if x.Init != nil {
			st = w.stmt(x.Init, st)
		}
		w.expr(x.Tag, st)
		st = w.clauses(x.Body.List, st)
	case *ast.TypeSwitchStmt:
		st = w.clauses(x.Body.List, st)
	case *ast.SelectStmt:
		blocking := true
		for _, c := range x.Body.List {
			if cc, ok := c.(*ast.CommClause); ok && cc.Comm == nil {
				blocking = false // a default clause: the select does not wait
			}
		}
		if blocking {
			w.noteWait("select", "", st, x.Pos())
		} else {
			// the receives (and sends) in the cases of a select with a default clause do not wait
			if w.la.nbComm == nil {
				w.la.nbComm = map[token.Pos]bool{}
			}
			for _, c := range x.Body.List {
				if cc, ok := c.(*ast.CommClause); ok && cc.Comm != nil {
					ast.Inspect(cc.Comm, func(n ast.Node) bool {
						if u, ok := n.(*ast.UnaryExpr); ok && u.Op == token.ARROW {
							w.la.nbComm[u.Pos()] = true
						}
						if sd, ok := n.(*ast.SendStmt); ok {
							w.la.nbComm[sd.Pos()] = true
						}
						return true
					})
				}
			}
		}
		st = w.clauses(x.Body.List, st)
	case *ast.LabeledStmt:
		st = w.stmt(x.Stmt, st)
	case *ast.SendStmt:
		w.noteWait("send", squash(w.la.p.src(x.Chan)), st, x.Pos())
		w.expr(x.Chan, st)
		w.expr(x.Value, st)
	}
	return st
}

func (w *walker) clauses(list []ast.Stmt, st lockState) lockState {
	out := st
	first := true
	for _, c := range list {
		var body []ast.Stmt
		in := st.clone()
		switch cc := c.(type) {
		case *ast.CaseClause:
			for _, e := range cc.List {
				w.expr(e, in)
			}
			body = cc.Body
		case *ast.CommClause:
			if cc.Comm != nil {
				in = w.stmt(cc.Comm, in)
			}
			body = cc.Body
		}
		bs, term := w.block(body, in)
		if term {
			continue
		}
		if first {
			out = meet(st, bs)
			first = false
		} else {
			out = meet(out, bs)
		}
	}
	return out
}

func isExported(name string) bool { return name != "" && name[0] >= 'A' && name[0] <= 'Z' }

func genLocks(p *pkgInfo, out string) {
	la := &lockAnalysis{p: p, fields: map[string]map[string]string{}, entry: map[string]lockState{}, top: map[string]bool{}}
	// struct definitions
	for _, f := range p.files {
		for _, d := range f.Decls {
			gd, ok := d.(*ast.GenDecl)
			if !ok {
				continue
			}
			for _, sp := range gd.Specs {
				ts, ok := sp.(*ast.TypeSpec)
				if !ok {
					continue
				}
				st, ok := ts.Type.(*ast.StructType)
				if !ok {
					continue
				}
				for _, want := range lockStructs {
					if ts.Name.Name == want {
						m := map[string]string{}
						for _, fl := range st.Fields.List {
							for _, n := range fl.Names {
								m[n.Name] = typeText(fl.Type)
							}
						}
						la.fields[want] = m
					}
				}
			}
		}
	}
	for _, s := range lockStructs {
		if la.fields[s] == nil {
			fail("struct %s not found", s)
		}
		if _, ok := la.fields[s]["mu"]; !ok {
			fail("struct %s has no field mu", s)
		}
	}
	// methods of the tracked structs
	var methods []string
	for name, fd := range p.funcs {
		if fd.Recv == nil || fd.Body == nil {
			continue
		}
		if la.structOfType(recvName(fd.Recv.List[0].Type)) != "" {
			methods = append(methods, name)
		}
	}
	sort.Strings(methods)
	all := lockState{}
	for _, s := range lockStructs {
		all[s] = 2
	}
	for _, m := range methods {
		short := m[strings.Index(m, ".")+1:]
		if isExported(short) {
			la.entry[m] = lockState{}
		} else {
			la.entry[m] = all.clone()
			la.top[m] = true
		}
	}
	run := func(record bool) {
		la.record = record
		la.accesses = nil
		la.atomicWrites = nil
		la.wgAdds = nil
		la.edges = nil
		la.waits = nil
		la.callSeen = map[string][]lockState{}
		for _, m := range methods {
			fd := p.funcs[m]
			env := map[string]string{}
			if len(fd.Recv.List[0].Names) == 1 {
				env[fd.Recv.List[0].Names[0].Name] = la.structOfType(recvName(fd.Recv.List[0].Type))
			}
			w := &walker{la: la, fn: m, env: env}
			w.body(fd.Body.List, la.entry[m].clone())
		}
		// plain functions (constructors, helpers) can call methods too: with nothing held
		for name, fd := range p.funcs {
			if fd.Recv != nil || fd.Body == nil {
				continue
			}
			env := map[string]string{}
			// locals of a tracked struct type created by composite literals are recognised by `x := &T{...}`
			ast.Inspect(fd.Body, func(n ast.Node) bool {
				as, ok := n.(*ast.AssignStmt)
				if !ok || len(as.Lhs) != len(as.Rhs) {
					return true
				}
				for i, r := range as.Rhs {
					if u, ok := r.(*ast.UnaryExpr); ok && u.Op == token.AND {
						r = u.X
					}
					if cl, ok := r.(*ast.CompositeLit); ok {
						if s := la.structOfType(typeText(cl.Type)); s != "" {
							if id, ok := as.Lhs[i].(*ast.Ident); ok {
								env[id.Name] = s
							}
						}
					}
				}
				return true
			})
			if len(env) == 0 {
				continue
			}
			saved := la.record
			la.record = false // the object is not shared yet: accesses in constructors are not recorded
			w := &walker{la: la, fn: name, env: env}
			w.body(fd.Body.List, lockState{})
			la.record = saved
		}
	}
	for iter := 0; iter < 20; iter++ {
		run(false)
		changed := false
		for _, m := range methods {
			short := m[strings.Index(m, ".")+1:]
			if isExported(short) {
				continue
			}
			sites := la.callSeen[m]
			var ns lockState
			if len(sites) == 0 {
				ns = lockState{} // never called directly (used as a value, or dead): assume nothing
			} else {
				ns = sites[0]
				for _, s := range sites[1:] {
					ns = meet(ns, s)
				}
			}
			if !sameState(ns, la.entry[m]) {
				la.entry[m] = ns
				changed = true
			}
		}
		if !changed {
			break
		}
		if iter == 19 {
			fail("lock analysis did not reach a fixpoint")
		}
	}
	run(true)
	must := la.accesses
	mustAtomic := la.atomicWrites
	mustWg := la.wgAdds

	// second pass: which locks are *possibly* held (union at joins, entry = union over call sites)
	mayMode = true
	for _, m := range methods {
		la.entry[m] = lockState{}
	}
	for iter := 0; iter < 30; iter++ {
		run(false)
		changed := false
		for _, m := range methods {
			// (exported methods too: besides the application, holding nothing, the package itself calls some of them)
			ns := lockState{}
			for _, st := range la.callSeen[m] {
				ns = join(ns, st)
			}
			if !sameState(ns, la.entry[m]) {
				la.entry[m] = ns
				changed = true
			}
		}
		if !changed {
			break
		}
		if iter == 29 {
			fail("may-hold lock analysis did not reach a fixpoint")
		}
	}
	run(true)
	may := la.accesses
	mayEdges, mayWaits := la.edges, la.waits
	mayMode = false
	if len(may) != len(must) {
		fail("lock analysis: the two passes saw different accesses (%d vs %d)", len(must), len(may))
	}
	for i := range must {
		if must[i].Line != may[i].Line || must[i].Field != may[i].Field || must[i].Func != may[i].Func {
			fail("lock analysis: the two passes disagree on access %d", i)
		}
		must[i].MayHeld = may[i].Held
	}
	la.accesses = must

	// field classes
	writes := map[string]bool{}
	for _, a := range la.accesses {
		if a.Write {
			writes[a.Struct+"."+a.Field] = true
		}
	}
	var b strings.Builder
	b.WriteString("namespace NLE.Gen\n\n")
	b.WriteString("/-- One syntactic access to a field of the library's shared state. `held`: 0 = the struct's mutex is not known to be held, 1 = read lock, 2 = write lock (certainly held); `mayHeld`: the same for locks possibly held on some path. -/\n")
	b.WriteString("structure LockAccess where\n  struct : String\n  field : String\n  fn : String\n  write : Bool\n  held : Nat\n  mayHeld : Nat\n  inGo : Bool\n  file : String\n  line : Nat\n  deriving Repr, DecidableEq\n\n")
	b.WriteString("/-- Fields of the tracked structs: (struct, field, class) with class sync (atomic / sync types, safe by themselves), init (never written after construction), mutable. -/\n")
	b.WriteString("def lockFields : List (String × String × String) := [\n")
	var rows []string
	for _, s := range lockStructs {
		for _, f := range sortedKeys(la.fields[s]) {
			t := la.fields[s][f]
			class := "mutable"
			if strings.HasPrefix(t, "atomic.") || strings.HasPrefix(t, "sync.") {
				class = "sync"
			} else if !writes[s+"."+f] {
				class = "init"
			}
			rows = append(rows, fmt.Sprintf("  (%s, %s, %s)", leanStr(s), leanStr(f), leanStr(class)))
		}
	}
	b.WriteString(strings.Join(rows, ",\n"))
	b.WriteString("]\n\n")
	b.WriteString("/-- Locks certainly held on entry of the package's unexported methods (meet over all call sites; fixpoint). -/\n")
	b.WriteString("def lockEntry : List (String × List (String × Nat)) := [\n")
	rows = nil
	for _, m := range methods {
		var hs []string
		for _, s := range lockStructs {
			if v := la.entry[m][s]; v > 0 {
				hs = append(hs, fmt.Sprintf("(%s, %d)", leanStr(s), v))
			}
		}
		rows = append(rows, fmt.Sprintf("  (%s, [%s])", leanStr(m), strings.Join(hs, ", ")))
	}
	b.WriteString(strings.Join(rows, ",\n"))
	b.WriteString("]\n\n")
	b.WriteString("/-- Lock order: (held, acquired, function, line) for every mutex acquisition reached while a mutex of a tracked struct may be held (union over paths and call sites; goroutines and stored function values start with nothing held). -/\n")
	b.WriteString("def lockOrder : List (String × String × String × Nat) := [\n")
	rows = nil
	sort.SliceStable(mayEdges, func(i, j int) bool {
		a, c := mayEdges[i], mayEdges[j]
		if a.Func != c.Func {
			return a.Func < c.Func
		}
		return a.Line < c.Line
	})
	seenE := map[string]bool{}
	for _, e := range mayEdges {
		r := fmt.Sprintf("  (%s, %s, %s, %d)", leanStr(e.From), leanStr(e.To), leanStr(e.Func), e.Line)
		if !seenE[r] {
			seenE[r] = true
			rows = append(rows, r)
		}
	}
	b.WriteString(strings.Join(rows, ",\n"))
	b.WriteString("]\n\n")
	b.WriteString("/-- Blocking waits reached while a mutex may be held: (kind, what, mutex held, function, line); kind wg.Wait = waiting for background goroutines, callback = calling a function-typed field (application callback). -/\n")
	b.WriteString("def lockWaits : List (String × String × String × String × Nat) := [\n")
	rows = nil
	seenE = map[string]bool{}
	for _, e := range mayWaits {
		r := fmt.Sprintf("  (%s, %s, %s, %s, %d)", leanStr(e.Kind), leanStr(e.What), leanStr(e.Held), leanStr(e.Func), e.Line)
		if !seenE[r] {
			seenE[r] = true
			rows = append(rows, r)
		}
	}
	b.WriteString(strings.Join(rows, ",\n"))
	b.WriteString("]\n\n")
	b.WriteString("/-- Every `Add` on a WaitGroup of the three structs: (struct.field, function, lock of that struct certainly held: 0 none / 1 shared / 2 exclusive, inside a `go` closure). -/\n")
	b.WriteString("def wgAdds : List (String × String × Nat × Bool) := [\n")
	rows = nil
	sort.SliceStable(mustWg, func(i, j int) bool {
		a, c := mustWg[i], mustWg[j]
		if a.File != c.File {
			return a.File < c.File
		}
		return a.Line < c.Line
	})
	seenW := map[string]bool{}
	for _, a := range mustWg {
		r := fmt.Sprintf("  (%s, %s, %d, %v)", leanStr(a.Struct+"."+a.Field), leanStr(a.Func), a.Held, a.InGo)
		if !seenW[r] {
			seenW[r] = true
			rows = append(rows, r)
		}
	}
	b.WriteString(strings.Join(rows, ",\n"))
	b.WriteString("]\n\n")
	b.WriteString("/-- Writes (Store / Swap / CompareAndSwap / Add) to the atomic fields that make up a status snapshot, with the election's mutex certainly held (2 = exclusively): (field, function, held, line). -/\n")
	b.WriteString("def atomicWrites : List (String × String × Nat × Nat) := [\n")
	rows = nil
	sort.SliceStable(mustAtomic, func(i, j int) bool {
		a, c := mustAtomic[i], mustAtomic[j]
		if a.File != c.File {
			return a.File < c.File
		}
		return a.Line < c.Line
	})
	for _, a := range mustAtomic {
		if a.Struct != "kvElection" || a.Func == "newKVElection" {
			continue
		}
		switch a.Field {
		case "isLeader", "state", "token", "leaderID":
			rows = append(rows, fmt.Sprintf("  (%s, %s, %d, %d)", leanStr(a.Field), leanStr(a.Func), a.Held, a.Line))
		}
	}
	b.WriteString(strings.Join(rows, ",\n"))
	b.WriteString("]\n\n")
	b.WriteString("def lockAccesses : List LockAccess := [\n")
	rows = nil
	sort.SliceStable(la.accesses, func(i, j int) bool {
		a, c := la.accesses[i], la.accesses[j]
		if a.File != c.File {
			return a.File < c.File
		}
		return a.Line < c.Line
	})
	for _, a := range la.accesses {
		t := la.fields[a.Struct][a.Field]
		if strings.HasPrefix(t, "atomic.") || strings.HasPrefix(t, "sync.") {
			continue
		}
		if !writes[a.Struct+"."+a.Field] {
			continue
		}
		rows = append(rows, fmt.Sprintf("  ⟨%s, %s, %s, %v, %d, %d, %v, %s, %d⟩", leanStr(a.Struct), leanStr(a.Field), leanStr(a.Func), a.Write, a.Held, a.MayHeld, a.InGo, leanStr(a.File), a.Line))
	}
	b.WriteString(strings.Join(rows, ",\n"))
	b.WriteString("]\n\nend NLE.Gen\n")
	writeFile(out, "Locks.lean", b.String())
}
