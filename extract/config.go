package main

import (
	"fmt"
	"go/ast"
	"go/token"
	"strings"
)

var intFields = map[string]string{
	"TTL": "ttl", "HeartbeatInterval": "hb", "ValidationInterval": "val",
	"DisconnectGracePeriod": "grace", "MaxConsecutiveFailures": "maxFail", "Priority": "prio",
}
var strFields = map[string]string{"Bucket": "bucket", "Group": "group", "InstanceID": "id"}
var boolFields = map[string]string{"AllowPriorityTakeover": "takeover"}

type cfgTr struct {
	p     *pkgInfo
	env   map[string]string // local -> IExp (Lean text)
	rules []string
}

func cfgField(e ast.Expr) (string, bool) {
	sel, ok := e.(*ast.SelectorExpr)
	if !ok {
		return "", false
	}
	id, ok := sel.X.(*ast.Ident)
	if !ok || id.Name != "cfg" {
		return "", false
	}
	return sel.Sel.Name, true
}

func (t *cfgTr) iexp(e ast.Expr) string {
	switch x := e.(type) {
	case *ast.ParenExpr:
		return t.iexp(x.X)
	case *ast.BasicLit:
		if x.Kind == token.INT {
			return fmt.Sprintf("(.lit %s)", x.Value)
		}
	case *ast.Ident:
		if v, ok := t.env[x.Name]; ok {
			return v
		}
	case *ast.SelectorExpr:
		if f, ok := cfgField(x); ok {
			if lf, ok := intFields[f]; ok {
				return fmt.Sprintf("(.field .%s)", lf)
			}
		}
	case *ast.BinaryExpr:
		switch x.Op {
		case token.MUL:
			return fmt.Sprintf("(.mul %s %s)", t.iexp(x.X), t.iexp(x.Y))
		case token.ADD:
			return fmt.Sprintf("(.add %s %s)", t.iexp(x.X), t.iexp(x.Y))
		}
	}
	fail("validateConfig: unsupported integer expression at %s", t.p.pos(e))
	return ""
}

func (t *cfgTr) cond(e ast.Expr) string {
	switch x := e.(type) {
	case *ast.ParenExpr:
		return t.cond(x.X)
	case *ast.UnaryExpr:
		if x.Op == token.NOT {
			return fmt.Sprintf("(.not %s)", t.cond(x.X))
		}
	case *ast.SelectorExpr:
		if f, ok := cfgField(x); ok {
			if lf, ok := boolFields[f]; ok {
				return fmt.Sprintf("(.flag .%s)", lf)
			}
		}
	case *ast.BinaryExpr:
		switch x.Op {
		case token.LAND:
			return fmt.Sprintf("(.and %s %s)", t.cond(x.X), t.cond(x.Y))
		case token.LOR:
			return fmt.Sprintf("(.or %s %s)", t.cond(x.X), t.cond(x.Y))
		case token.EQL, token.NEQ:
			// string emptiness test?
			if f, ok := cfgField(x.X); ok {
				if lf, ok := strFields[f]; ok {
					if lit, ok := x.Y.(*ast.BasicLit); ok && lit.Kind == token.STRING && lit.Value == `""` {
						c := fmt.Sprintf("(.strEmpty .%s)", lf)
						if x.Op == token.NEQ {
							c = fmt.Sprintf("(.not %s)", c)
						}
						return c
					}
					fail("validateConfig: unsupported string comparison at %s", t.p.pos(e))
				}
			}
			op := "eq"
			if x.Op == token.NEQ {
				op = "ne"
			}
			return fmt.Sprintf("(.%s %s %s)", op, t.iexp(x.X), t.iexp(x.Y))
		case token.LSS, token.LEQ, token.GTR, token.GEQ:
			op := map[token.Token]string{token.LSS: "lt", token.LEQ: "le", token.GTR: "gt", token.GEQ: "ge"}[x.Op]
			return fmt.Sprintf("(.%s %s %s)", op, t.iexp(x.X), t.iexp(x.Y))
		}
	}
	fail("validateConfig: unsupported condition at %s", t.p.pos(e))
	return ""
}

// validationErrorField returns the field name if s is `return NewValidationError("F", ...)`.
func validationErrorField(s ast.Stmt) (string, bool) {
	r, ok := s.(*ast.ReturnStmt)
	if !ok || len(r.Results) != 1 {
		return "", false
	}
	call, ok := r.Results[0].(*ast.CallExpr)
	if !ok {
		return "", false
	}
	id, ok := call.Fun.(*ast.Ident)
	if !ok || id.Name != "NewValidationError" || len(call.Args) < 1 {
		return "", false
	}
	lit, ok := call.Args[0].(*ast.BasicLit)
	if !ok || lit.Kind != token.STRING {
		return "", false
	}
	return strings.Trim(lit.Value, `"`), true
}

func (t *cfgTr) block(stmts []ast.Stmt, guards []string, top bool) {
	for i, s := range stmts {
		switch x := s.(type) {
		case *ast.AssignStmt:
			if x.Tok != token.DEFINE || len(x.Lhs) != 1 || len(x.Rhs) != 1 {
				fail("validateConfig: unsupported assignment at %s", t.p.pos(s))
			}
			id, ok := x.Lhs[0].(*ast.Ident)
			if !ok {
				fail("validateConfig: unsupported assignment at %s", t.p.pos(s))
			}
			t.env[id.Name] = t.iexp(x.Rhs[0])
		case *ast.IfStmt:
			if x.Init != nil || x.Else != nil {
				fail("validateConfig: if with init/else at %s", t.p.pos(s))
			}
			c := t.cond(x.Cond)
			if len(x.Body.List) == 1 {
				if f, ok := validationErrorField(x.Body.List[0]); ok {
					t.rules = append(t.rules, fmt.Sprintf("  { guards := [%s], cond := %s, field := %s }",
						strings.Join(guards, ", "), c, leanStr(f)))
					continue
				}
			}
			t.block(x.Body.List, append(append([]string{}, guards...), c), false)
		case *ast.ReturnStmt:
			if top && i == len(stmts)-1 && len(x.Results) == 1 {
				if id, ok := x.Results[0].(*ast.Ident); ok && id.Name == "nil" {
					continue
				}
			}
			fail("validateConfig: unexpected return at %s", t.p.pos(s))
		default:
			fail("validateConfig: unsupported statement at %s", t.p.pos(s))
		}
	}
}

func genConfigRules(p *pkgInfo, out string) {
	fd := p.fn("validateConfig")
	t := &cfgTr{p: p, env: map[string]string{}}
	t.block(fd.Body.List, nil, true)
	last := fd.Body.List[len(fd.Body.List)-1]
	if _, ok := last.(*ast.ReturnStmt); !ok {
		fail("validateConfig: does not end in `return nil`")
	}
	var b strings.Builder
	b.WriteString("import NLE.Model.Config\nnamespace NLE.Gen\nopen NLE.Config\n\n")
	b.WriteString("/-- `validateConfig` of leader/validation.go, statement by statement. -/\n")
	b.WriteString("def configRules : List Rule := [\n")
	b.WriteString(strings.Join(t.rules, ",\n"))
	b.WriteString("\n]\n\n")
	// Is validateConfig the first thing the constructor does?
	first := "false"
	nk := p.fn("newKVElection")
	if len(nk.Body.List) > 0 {
		if ifs, ok := nk.Body.List[0].(*ast.IfStmt); ok && ifs.Init != nil {
			if as, ok := ifs.Init.(*ast.AssignStmt); ok && len(as.Rhs) == 1 {
				if call, ok := as.Rhs[0].(*ast.CallExpr); ok {
					if id, ok := call.Fun.(*ast.Ident); ok && id.Name == "validateConfig" {
						// body must return the error
						if len(ifs.Body.List) == 1 {
							if _, ok := ifs.Body.List[0].(*ast.ReturnStmt); ok {
								first = "true"
							}
						}
					}
				}
			}
		}
	}
	fmt.Fprintf(&b, "/-- `newKVElection` starts with `if err := validateConfig(cfg); err != nil { return nil, err }`. -/\n")
	fmt.Fprintf(&b, "def constructorValidatesFirst : Bool := %s\n\n", first)
	// NewElection must delegate directly to newKVElection
	deleg := "false"
	ne := p.fn("NewElection")
	if len(ne.Body.List) == 1 {
		if r, ok := ne.Body.List[0].(*ast.ReturnStmt); ok && len(r.Results) == 1 {
			if call, ok := r.Results[0].(*ast.CallExpr); ok {
				if id, ok := call.Fun.(*ast.Ident); ok && id.Name == "newKVElection" {
					deleg = "true"
				}
			}
		}
	}
	fmt.Fprintf(&b, "def newElectionDelegates : Bool := %s\n\nend NLE.Gen\n", deleg)
	writeFile(out, "ConfigRules.lean", b.String())
}
