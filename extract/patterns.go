package main

import (
	"fmt"
	"go/ast"
	"go/token"
	"strconv"
	"strings"
)

func exprName(e ast.Expr) string {
	switch x := e.(type) {
	case *ast.Ident:
		return x.Name
	case *ast.SelectorExpr:
		return exprName(x.X) + "." + x.Sel.Name
	}
	return "?"
}

func boolLit(e ast.Expr) (string, bool) {
	if id, ok := e.(*ast.Ident); ok && (id.Name == "true" || id.Name == "false") {
		return id.Name, true
	}
	return "", false
}

// retBool: block is exactly `return <bool literal>`
func retBool(b *ast.BlockStmt) (string, bool) {
	if len(b.List) != 1 {
		return "", false
	}
	r, ok := b.List[0].(*ast.ReturnStmt)
	if !ok || len(r.Results) != 1 {
		return "", false
	}
	return boolLit(r.Results[0])
}

func isCall(e ast.Expr, name string) (*ast.CallExpr, bool) {
	c, ok := e.(*ast.CallExpr)
	if !ok {
		return nil, false
	}
	return c, exprName(c.Fun) == name
}

func classifierSteps(p *pkgInfo, fname string) []string {
	fd := p.fn(fname)
	var steps []string
	lowered := map[string]bool{}     // variables holding strings.ToLower(err.Error())
	slices := map[string][]string{}  // pattern slices
	timeoutVars := map[string]bool{} // var x *TimeoutError
	bad := func(n ast.Node, what string) {
		fail("%s: unsupported %s at %s", fname, what, p.pos(n))
	}
	for _, s := range fd.Body.List {
		switch x := s.(type) {
		case *ast.DeclStmt:
			gd, ok := x.Decl.(*ast.GenDecl)
			if !ok || gd.Tok != token.VAR {
				bad(s, "declaration")
			}
			for _, sp := range gd.Specs {
				vs := sp.(*ast.ValueSpec)
				st, ok := vs.Type.(*ast.StarExpr)
				if !ok || exprName(st.X) != "TimeoutError" || len(vs.Values) != 0 {
					bad(s, "var declaration")
				}
				for _, n := range vs.Names {
					timeoutVars[n.Name] = true
				}
			}
		case *ast.AssignStmt:
			if x.Tok != token.DEFINE || len(x.Lhs) != 1 || len(x.Rhs) != 1 {
				bad(s, "assignment")
			}
			name := exprName(x.Lhs[0])
			if c, ok := isCall(x.Rhs[0], "strings.ToLower"); ok && len(c.Args) == 1 {
				if c2, ok := isCall(c.Args[0], "err.Error"); ok && len(c2.Args) == 0 {
					lowered[name] = true
					continue
				}
			}
			if cl, ok := x.Rhs[0].(*ast.CompositeLit); ok {
				if at, ok := cl.Type.(*ast.ArrayType); ok && at.Len == nil && exprName(at.Elt) == "string" {
					var ps []string
					for _, el := range cl.Elts {
						bl, ok := el.(*ast.BasicLit)
						if !ok || bl.Kind != token.STRING {
							bad(el, "pattern element")
						}
						v, err := strconv.Unquote(bl.Value)
						if err != nil {
							bad(el, "pattern literal")
						}
						ps = append(ps, v)
					}
					slices[name] = ps
					continue
				}
			}
			bad(s, "assignment")
		case *ast.IfStmt:
			if x.Else != nil {
				bad(s, "if/else")
			}
			ret, ok := retBool(x.Body)
			if !ok {
				bad(s, "if body (expected `return true|false`)")
			}
			if x.Init != nil {
				// _, ok := err.(*TimeoutError); ok
				as, ok := x.Init.(*ast.AssignStmt)
				if !ok || len(as.Rhs) != 1 {
					bad(s, "if init")
				}
				ta, ok := as.Rhs[0].(*ast.TypeAssertExpr)
				if !ok || exprName(ta.X) != "err" {
					bad(s, "if init")
				}
				st, ok := ta.Type.(*ast.StarExpr)
				if !ok || exprName(st.X) != "TimeoutError" || exprName(x.Cond) != "ok" {
					bad(s, "type assertion")
				}
				steps = append(steps, fmt.Sprintf(".topTimeout %s", ret))
				continue
			}
			// err == nil
			if be, ok := x.Cond.(*ast.BinaryExpr); ok && be.Op == token.EQL && exprName(be.X) == "err" && exprName(be.Y) == "nil" {
				steps = append(steps, fmt.Sprintf(".nilRet %s", ret))
				continue
			}
			if c, ok := isCall(x.Cond, "errors.Is"); ok && len(c.Args) == 2 && exprName(c.Args[0]) == "err" {
				steps = append(steps, fmt.Sprintf(".isTarget %s %s", leanStr(exprName(c.Args[1])), ret))
				continue
			}
			if c, ok := isCall(x.Cond, "errors.As"); ok && len(c.Args) == 2 && exprName(c.Args[0]) == "err" {
				if u, ok := c.Args[1].(*ast.UnaryExpr); ok && u.Op == token.AND && timeoutVars[exprName(u.X)] {
					steps = append(steps, fmt.Sprintf(".asTimeout %s", ret))
					continue
				}
				bad(s, "errors.As target")
			}
			if c, ok := isCall(x.Cond, "IsPermanentError"); ok && len(c.Args) == 1 && exprName(c.Args[0]) == "err" {
				steps = append(steps, fmt.Sprintf(".callPermanent %s", ret))
				continue
			}
			bad(s, "condition")
		case *ast.RangeStmt:
			// for _, pattern := range <slice> { if strings.Contains(<lowered>, pattern) { return b } }
			ps, ok := slices[exprName(x.X)]
			if !ok || x.Value == nil || len(x.Body.List) != 1 {
				bad(s, "range loop")
			}
			ifs, ok := x.Body.List[0].(*ast.IfStmt)
			if !ok || ifs.Init != nil || ifs.Else != nil {
				bad(s, "range body")
			}
			c, ok := isCall(ifs.Cond, "strings.Contains")
			if !ok || len(c.Args) != 2 || !lowered[exprName(c.Args[0])] || exprName(c.Args[1]) != exprName(x.Value) {
				bad(s, "range condition")
			}
			ret, ok := retBool(ifs.Body)
			if !ok {
				bad(s, "range body return")
			}
			var q []string
			for _, pp := range ps {
				q = append(q, leanStr(pp))
			}
			steps = append(steps, fmt.Sprintf(".patterns [%s] %s", strings.Join(q, ", "), ret))
		case *ast.ReturnStmt:
			if len(x.Results) != 1 {
				bad(s, "return")
			}
			b, ok := boolLit(x.Results[0])
			if !ok {
				bad(s, "return value")
			}
			steps = append(steps, fmt.Sprintf(".final %s", b))
		default:
			bad(s, "statement")
		}
	}
	return steps
}

func genPatterns(p *pkgInfo, out string) {
	var b strings.Builder
	b.WriteString("import NLE.Model.Classify\nnamespace NLE.Gen\nopen NLE.Classify\n\n")
	for _, f := range []struct{ fn, def string }{{"IsPermanentError", "permanentSteps"}, {"IsTransientError", "transientSteps"}} {
		steps := classifierSteps(p, f.fn)
		fmt.Fprintf(&b, "/-- `%s` of leader/error.go, statement by statement. -/\ndef %s : List Step := [\n  %s\n]\n\n",
			f.fn, f.def, strings.Join(steps, ",\n  "))
	}
	// library sentinels: var ( ErrX = errors.New("...") )
	var sent []string
	f := p.files["error.go"]
	if f == nil {
		fail("error.go not found")
	}
	for _, d := range f.Decls {
		gd, ok := d.(*ast.GenDecl)
		if !ok || gd.Tok != token.VAR {
			continue
		}
		for _, sp := range gd.Specs {
			vs := sp.(*ast.ValueSpec)
			if len(vs.Names) != 1 || len(vs.Values) != 1 {
				continue
			}
			if c, ok := isCall(vs.Values[0], "errors.New"); ok && len(c.Args) == 1 {
				if bl, ok := c.Args[0].(*ast.BasicLit); ok {
					v, _ := strconv.Unquote(bl.Value)
					sent = append(sent, fmt.Sprintf("(%s, %s)", leanStr(vs.Names[0].Name), leanStr(v)))
				}
			}
		}
	}
	fmt.Fprintf(&b, "/-- The library's sentinel errors: variable name and `Error()` text. -/\ndef sentinels : List (String × String) := [\n  %s\n]\n\nend NLE.Gen\n",
		strings.Join(sent, ",\n  "))
	writeFile(out, "Patterns.lean", b.String())
}
