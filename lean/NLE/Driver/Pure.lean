import NLE.Driver.Parse
import NLE.Model.Config
import NLE.Model.Classify
import NLE.Model.Backoff
import NLE.Model.Validate
import NLE.Gen.ConfigRules
import NLE.Gen.Patterns
/-
  Line protocol for the pure models.  One request per line, one answer per line.
  Anything the driver cannot parse is answered with `bad-op` (never defaulted).
-/
namespace NLE.Driver
open NLE

/-! cfg <bucketLen> <groupLen> <idLen> <ttl> <hb> <val> <grace> <maxFail> <prio> <takeover> -/
def opCfg : List String → Option String
  | [b, g, i, ttl, hb, val, gr, mf, pr, tk] => do
    let c : Config.Cfg := {
      bucket := List.replicate (← parseNat b) 'x', group := List.replicate (← parseNat g) 'x',
      id := List.replicate (← parseNat i) 'x',
      ttl := ← parseInt ttl, hb := ← parseInt hb, val := ← parseInt val, grace := ← parseInt gr,
      maxFail := ← parseInt mf, prio := ← parseInt pr, takeover := ← parseBool tk }
    let doc := decide (Config.Documented c)
    -- every field that really breaks a documented rule (the implementation's error must name one of them)
    let offenders := ["Bucket", "Group", "InstanceID", "TTL", "HeartbeatInterval", "ValidationInterval", "DisconnectGracePeriod",
                      "MaxConsecutiveFailures", "Priority"].filter fun f => decide (Config.Offends c f)
    let offs := if offenders.isEmpty then "-" else ",".intercalate offenders
    match Config.validate Gen.configRules c with
    | none => pure s!"ok doc={boolStr doc} offenders={offs}"
    | some f => pure s!"err {f} doc={boolStr doc} offends={boolStr (decide (Config.Offends c f))} offenders={offs}"
  | _ => none

/-- "nil" ↦ none, otherwise a hex string ("-" = empty). -/
def parseOptHex (s : String) : Option (Option (List Char)) :=
  if s == "nil" then some none else some <$> parseHexStr s

/-! Error expressions, prefix notation. -/
partial def parseErr : List String → Option (Classify.Err × List String)
  | "leaf" :: t :: ids :: rest => do
    let t ← parseHexStr t
    let ids := if ids == "-" then [] else ids.splitOn ","
    pure (.leaf t ids, rest)
  | "api" :: code :: d :: rest => do
    pure (.api (← parseNat code) (← parseHexStr d), rest)
  | "wrap" :: a :: b :: rest => do
    let (e, rest') ← parseErr rest
    pure (.wrap (← parseHexStr a) (← parseHexStr b) e, rest')
  | "wrap2" :: a :: b :: c :: rest => do
    let (e1, rest1) ← parseErr rest
    let (e2, rest2) ← parseErr rest1
    pure (.wrap2 (← parseHexStr a) (← parseHexStr b) (← parseHexStr c) e1 e2, rest2)
  | "to0" :: a :: b :: rest => do pure (.timeout0 (← parseHexStr a) (← parseHexStr b), rest)
  | "to1" :: a :: b :: rest => do
    let (e, rest') ← parseErr rest
    pure (.timeout1 (← parseHexStr a) (← parseHexStr b) e, rest')
  | "el0" :: a :: b :: c :: rest => do
    pure (.election0 (← parseHexStr a) (← parseHexStr b) (← parseHexStr c), rest)
  | "el1" :: a :: b :: c :: rest => do
    let (e, rest') ← parseErr rest
    pure (.election1 (← parseHexStr a) (← parseHexStr b) (← parseHexStr c) e, rest')
  | "tv0" :: a :: b :: c :: rest => do
    pure (.tokval0 (← parseHexStr a) (← parseHexStr b) (← parseHexStr c), rest)
  | "tv1" :: a :: b :: c :: rest => do
    let (e, rest') ← parseErr rest
    pure (.tokval1 (← parseHexStr a) (← parseHexStr b) (← parseHexStr c) e, rest')
  | "va0" :: a :: b :: c :: rest => do
    pure (.validation0 (← parseHexStr a) (← parseOptHex b) (← parseHexStr c), rest)
  | "va1" :: a :: b :: c :: rest => do
    let (e, rest') ← parseErr rest
    pure (.validation1 (← parseHexStr a) (← parseOptHex b) (← parseHexStr c) e, rest')
  | _ => none

def isPermanent (e : Option Classify.Err) : Bool := Classify.classify (fun _ => false) Gen.permanentSteps e
def isTransient (e : Option Classify.Err) : Bool :=
  Classify.classify (fun x => isPermanent (some x)) Gen.transientSteps e

/-! cls nil | cls <err>  →  <perm> <trans> <text hex> -/
def opCls : List String → Option String
  | ["nil"] => pure s!"{boolStr (isPermanent none)} {boolStr (isTransient none)} -"
  | ws => do
    let (e, rest) ← parseErr ws
    if !rest.isEmpty then none
    pure s!"{boolStr (isPermanent (some e))} {boolStr (isTransient (some e))} {charsToHex e.text}"

/-! lowertable → every code point whose model lower-case differs from itself, as `cp:lower` pairs -/
def opLowerTable : String := Id.run do
  let mut out : Array String := #[]
  for n in [0:0x110000] do
    if (n < 0xD800 ∨ n > 0xDFFF) then
      let c := Char.ofNat n
      let l := Text.lowerChar c
      if l ≠ c then out := out.push s!"{n}:{l.toNat}"
  return " ".intercalate out.toList

def mkRat (n d : Int) : Rat := (n : Rat) / (d : Rat)

/-! bo <init> <max> <multNum> <multDen> <jitNum> <jitDen> <n>  →  <lo> <hi> <wf> -/
def opBackoff : List String → Option String
  | [i, m, mn, md, jn, jd, n] => do
    let c : Backoff.BackoffCfg := {
      init := ← parseInt i, max := ← parseInt m,
      mult := mkRat (← parseInt mn) (← parseInt md), jitter := mkRat (← parseInt jn) (← parseInt jd) }
    let n ← parseNat n
    let wf := decide (0 ≤ c.init) && decide (0 ≤ c.max) && decide (0 ≤ c.mult) && decide (0 ≤ c.jitter) &&
      decide (c.jitter ≤ 1)
    pure s!"{Backoff.backoffLo c n} {Backoff.backoffHi c n} {boolStr wf}"
  | _ => none

def parseOutcome : String → Option Backoff.Outcome
  | "ok" => some .ok | "perm" => some .perm | "trans" => some .trans | "open" => some .breakerOpen
  | "transc" => some .transCancel
  | _ => none

def resultStr : Backoff.RetryResult → String
  | .ok => "ok" | .permanent => "permanent" | .maxExceeded => "max" | .cancelled => "cancelled"
  | .breakerOpen => "open" | .exhausted => "exhausted"

/-! retry <max> <tc|-> <start> <o:d:tie>...  →  <result> <call times...> -/
def opRetry : List String → Option String
  | m :: tc :: st :: script => do
    let m ← parseInt m
    let tc ← if tc == "-" then pure none else (some <$> parseNat tc)
    let st ← parseNat st
    let sc ← script.mapM fun w =>
      match w.splitOn ":" with
      | [o, d, t] => do pure ((← parseOutcome o), (← parseNat d), (← parseBool t))
      | _ => none
    let r := Backoff.retry m tc st sc
    pure (" ".intercalate (resultStr r.result :: r.calls.map toString))
  | _ => none

def cstateStr : Backoff.CState → String
  | .closed => "closed" | .opened => "open" | .halfOpen => "half"

/-! brk <threshold> <cooldown> <t:succ>...  →  per call `<invoked><state>` -/
def opBreaker : List String → Option String
  | th :: cd :: evs => do
    let mut b : Backoff.Breaker := { threshold := ← parseInt th, cooldown := ← parseInt cd,
                                     lastFailure := -9223372036854775808 }
    let mut out : List String := []
    for w in evs do
      match w.splitOn ":" with
      | [t, s] =>
        let (b', inv) := b.call (← parseInt t) (← parseBool s)
        b := b'
        out := s!"{boolStr inv}{cstateStr b'.state}" :: out
      | [t, s, d] =>
        let t0 ← parseInt t
        let (b', inv) := b.callD t0 (t0 + (← parseInt d)) (← parseBool s)
        b := b'
        out := s!"{boolStr inv}{cstateStr b'.state}" :: out
      | _ => none
    pure (" ".intercalate out.reverse)
  | _ => none

def parseJField : String → Option Validate.JField
  | "absent" => some .absent
  | "other" => some .other
  | s => if s.startsWith "s" then (.str <$> (s.drop 1).toNat?) else none

/-! val <isLeader> <localTok> <me> <ctxEntry> <ctxWins> (err | nil | entry <ok> <tok> <id>) <isLeaderAfter>
    → <verdict> <demotePath> -/
def opValidate : List String → Option String
  | l :: lt :: me :: ce :: cw :: rest => do
    let (g, rest') ← (match rest with
      | "err" :: r => some (Validate.GetRes.err, r)
      | "nil" :: r => some (Validate.GetRes.nilEntry, r)
      | "entry" :: ok :: t :: i :: r => do
        pure (Validate.GetRes.entry ⟨← parseBool ok, ← parseJField t, ← parseJField i⟩, r)
      | _ => none)
    match rest' with
    | [la] =>
      let c : Validate.Call := ⟨← parseNat lt, ← parseNat me, ← parseBool ce, ← parseBool cw, g⟩
      let (v, d) := Validate.validateOrDemote (← parseBool l) c (← parseBool la)
      pure s!"{boolStr v} {boolStr d}"
    | _ => none
  | _ => none

def handlePure (ws : List String) : Option String :=
  match ws with
  | "cfg" :: r => opCfg r
  | "cls" :: r => opCls r
  | ["lowertable"] => some opLowerTable
  | "bo" :: r => opBackoff r
  | "retry" :: r => opRetry r
  | "brk" :: r => opBreaker r
  | "val" :: r => opValidate r
  | _ => none

end NLE.Driver
