import NLE.Driver.TraceParse
import NLE.Model.Monitors
import NLE.Model.Own
import NLE.Model.Life
import NLE.Model.HB
import NLE.Model.Conn
import NLE.Model.ValAcc
import NLE.Model.Lease
import NLE.Model.Cand
/-
  `trace-begin` … lines … `trace-end`: parse a harness trace, run the world model and the monitors,
  answer one line:  `T <events> <parse-error-line|0> <store-mismatches> <fails>` followed by tab-separated
  `prop|clause|line|detail` items (store mismatches are reported as prop `STORE`).
-/
namespace NLE.Driver
open NLE

structure TraceAcc where
  views : Views := []
  evs : Array TEv := #[]
  badLine : Nat := 0
  n : Nat := 0

def TraceAcc.add (a : TraceAcc) (line : String) : TraceAcc :=
  let n := a.n + 1
  match parseLine a.views (words line) with
  | some (vs, some e) => { a with views := vs, evs := a.evs.push e, n := n }
  | some (vs, none) => { a with views := vs, n := n }
  | none => { a with n := n, badLine := if a.badLine = 0 then n else a.badLine }

/-- Run an implementation model over the events up to `end`; `some (k, why)` = rejected at event k. -/
def accOwn (evs : List TEv) : Option (Nat × String) :=
  let rec go (s : Own.State) (k : Nat) : List TEv → Option (Nat × String)
    | [] => none
    | e :: es =>
      match Own.step s e with
      | .ok s' => go s' (k + 1) es
      | .error msg => some (k, msg)
  go {} 1 evs

def accLife (evs : List TEv) : Option (Nat × String) :=
  let rec go (s : Life.Sys) (k : Nat) : List TEv → Option (Nat × String)
    | [] => none
    | e :: es =>
      match Life.step s e with
      | .ok s' => go s' (k + 1) es
      | .error msg => some (k, msg)
  go {} 1 evs

def accHB (evs : List TEv) : Option (Nat × String) :=
  let rec go (s : HB.State) (k : Nat) : List TEv → Option (Nat × String)
    | [] => none
    | e :: es =>
      match HB.step s e with
      | .ok s' => go s' (k + 1) es
      | .error msg => some (k, msg)
  go {} 1 evs

def accConn (evs : List TEv) : Option (Nat × String) :=
  let rec go (s : Conn.State) (k : Nat) : List TEv → Option (Nat × String)
    | [] => none
    | e :: es =>
      match Conn.step s e with
      | .ok s' => go s' (k + 1) es
      | .error msg => some (k, msg)
  go {} 1 evs

def accVal (evs : List TEv) : Option (Nat × String) :=
  let rec go (s : ValAcc.State) (k : Nat) : List TEv → Option (Nat × String)
    | [] => none
    | e :: es =>
      match ValAcc.step s e with
      | .ok s' => go s' (k + 1) es
      | .error msg => some (k, msg)
  go {} 1 evs

/-- The lease model speaks about scenarios whose generator promised: responsive store, no outside writer, no preemption. -/
def accLease (evs : List TEv) : Option (Nat × String) :=
  let promised := evs.any fun e => match e.ev with | .hyp r o p _ _ _ _ => r && o && p | _ => false
  if !promised then none else
  let rec go (s : Lease.State) (k : Nat) : List TEv → Option (Nat × String)
    | [] => none
    | e :: es =>
      match Lease.step s e with
      | .ok s' => go s' (k + 1) es
      | .error msg => some (k, msg)
  go {} 1 evs

def accCand (evs : List TEv) : Option (Nat × String) :=
  let rec go (s : Cand.State) (k : Nat) : List TEv → Option (Nat × String)
    | [] => none
    | e :: es =>
      match Cand.step s e with
      | .ok s' => go s' (k + 1) es
      | .error msg => some (k, msg)
  go {} 1 evs

def accPrompt (evs : List TEv) : Option (Nat × String) :=
  let rec go (s : PromptAcc.State) (k : Nat) : List TEv → Option (Nat × String)
    | [] => none
    | e :: es =>
      match PromptAcc.step s e with
      | .ok s' => go s' (k + 1) es
      | .error msg => some (k, msg)
  go {} 1 evs

def sanitize (s : String) : String :=
  String.ofList (s.toList.map fun c => if c == '\t' || c == '\n' || c == '|' then ' ' else c)

/-- Clauses that say *when* something happens (bounds, deadlines, exact instants): they assume code that takes no time
    and are not applied to a trace recorded with a log sink that takes its time. -/
def timedClause (prop clause : String) : Bool :=
  prop == "C03" || prop == "C06" || prop == "C11" || prop == "C17" || prop == "HYP" ||
  clause == "stop-exceeds-its-timeout" || clause == "takeover-not-prompt" || clause == "health-demotion-missing" ||
  clause == "not-re-elected-after-health-demotion" || clause == "follower-leaderid-not-converged" || clause == "leader-demoted-fault-free" ||
  -- ("quiescent" means every goroutine is blocked - also one that sleeps in the sink between lowering the flag and the callback)
  clause == "callbacks-do-not-mirror-leadership" || clause == "callbacks-unbalanced-at-the-end" || clause == "gauge-stale"

def TraceAcc.finish (a : TraceAcc) : String :=
  let m := Mon.run a.evs.toList
  let kept := m.w.fails.reverse.filter fun f => !(m.slow && timedClause f.prop f.clause)
  let fails := kept.map fun f => s!"{f.prop}|{f.clause}|{f.line}|{sanitize f.detail}"
  let store := m.w.storeMismatch.reverse.map fun s => s!"STORE|store-model|0|{sanitize s}"
  let cov := m.w.cov.map fun (k, n) => s!"COV|{k}|{n}|"
  -- implementation models: does the model accept (= can it produce) this trace?
  -- (a trace recorded with a log sink that takes its time is checked by the models that speak about order only: the ones
  --  that speak about when something happens assume code that takes no time)
  let slow := a.evs.toList.any fun e => match e.ev with | .slowSink => true | _ => false
  let lifeEvs := if slow then a.evs.toList.filter (fun e => match e.ev with | .status .. => false | _ => true) else a.evs.toList
  let acc := [("Own", accOwn a.evs.toList), ("Life", accLife lifeEvs)] ++
    (if slow then [] else [("HB", accHB a.evs.toList), ("Conn", accConn a.evs.toList), ("Val", accVal a.evs.toList), ("Lease", accLease a.evs.toList), ("Cand", accCand a.evs.toList), ("Prompt", accPrompt a.evs.toList)])
  let accItems := acc.map fun (name, r) =>
    match r with
    | none => s!"ACC|{name}|0|ok"
    | some (n, msg) => s!"ACC|{name}|{n}|{sanitize msg}"
  let items := store ++ fails ++ cov ++ accItems
  "\t".intercalate (s!"T {a.evs.size} {a.badLine} {store.length} {fails.length}" :: items)

end NLE.Driver
