/-
  Line-protocol helpers for the driver (core Lean only).
-/
namespace NLE.Driver

def hexVal (c : Char) : Option Nat :=
  if '0' ≤ c ∧ c ≤ '9' then some (c.toNat - '0'.toNat)
  else if 'a' ≤ c ∧ c ≤ 'f' then some (c.toNat - 'a'.toNat + 10)
  else if 'A' ≤ c ∧ c ≤ 'F' then some (c.toNat - 'A'.toNat + 10)
  else none

def hexToBytes : List Char → Option (List UInt8)
  | [] => some []
  | [_] => none
  | a :: b :: rest => do
    let x ← hexVal a
    let y ← hexVal b
    let r ← hexToBytes rest
    pure (UInt8.ofNat (x * 16 + y) :: r)

/-- "-" is the empty string; otherwise hex of the UTF-8 bytes. -/
def parseHexStr (s : String) : Option (List Char) :=
  if s == "-" then some []
  else do
    let bs ← hexToBytes s.toList
    let ba := ByteArray.mk bs.toArray
    let str ← String.fromUTF8? ba
    pure str.toList

def hexDigit (n : Nat) : Char :=
  if n < 10 then Char.ofNat ('0'.toNat + n) else Char.ofNat ('a'.toNat + n - 10)

def bytesToHex (bs : ByteArray) : String :=
  String.ofList (bs.toList.flatMap fun b => [hexDigit (b.toNat / 16), hexDigit (b.toNat % 16)])

def charsToHex (cs : List Char) : String :=
  if cs.isEmpty then "-" else bytesToHex (String.ofList cs).toUTF8

def parseInt (s : String) : Option Int := s.toInt?
def parseNat (s : String) : Option Nat := s.toNat?
def parseBool (s : String) : Option Bool :=
  if s == "1" || s == "true" then some true
  else if s == "0" || s == "false" then some false
  else none

def boolStr (b : Bool) : String := if b then "1" else "0"

def words (line : String) : List String :=
  (line.splitOn " ").filter (· ≠ "")

end NLE.Driver
