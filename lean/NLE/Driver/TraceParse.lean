import NLE.Driver.Parse
import NLE.Model.Trace
/-
  Parser for the harness's trace lines.  `view` lines declare raw views and are resolved here, so the
  event list handed to the models is self-contained.
-/
namespace NLE.Driver
open NLE

def parseErrKind : String → Option ErrKind
  | "exists" => some .exists_ | "wrongseq" => some .wrongseq | "notfound" => some .notfound
  | "timeout" => some .timeout | "noresponders" => some .noresponders | "closed" => some .closed
  | "other" => some .other | _ => none

abbrev Views := List (Nat × View)

def parseVal (views : Views) : List String → Option (Val × List String)
  | "own" :: i :: t :: p :: rest => do pure (.own (← parseNat i) (← parseNat t) (← parseInt p), rest)
  | "raw" :: n :: _ :: _ :: rest => do
    let n ← parseNat n
    let v ← views.lookup n
    pure (.raw v, rest)
  | "empty" :: _ :: _ :: _ :: rest => some (.empty, rest)
  | _ => none

def parseApiRes : List String → Option ApiRes
  | ["ok"] => some .ok
  | ["already-started"] => some .alreadyStarted
  | ["already-stopped"] => some .alreadyStopped
  | ["not-leader"] => some .notLeader
  | ["err"] => some .err
  | ["val", "true", tok] => do pure (.verdict true (← parseNat tok) true)
  | ["val", "false", tok, "not-leader"] => do pure (.verdict false (← parseNat tok) false)
  | ["val", "false", tok, _] => do pure (.verdict false (← parseNat tok) true)
  | ["vod", v, tok, il] => do pure (.verdict (← parseBool v) (← parseNat tok) (← parseBool il))
  | _ => none

/-- Parse one line; returns the possibly extended view table and the event (none for `view` lines). -/
def parseLine (views : Views) (ws : List String) : Option (Views × Option TEv) :=
  match ws with
  | t :: rest => do
    let t ← parseNat t
    let ev (e : Ev) : Option (Views × Option TEv) := some (views, some ⟨t, e⟩)
    match rest with
    | ["view", n, sok, sid, stok, sprio, mok, mid, mtok] =>
      let v : View := ⟨← parseBool sok, ← parseNat sid, ← parseNat stok, ← parseInt sprio, ← parseBool mok,
                       ← parseInt mid, ← parseInt mtok⟩
      some ((← parseNat n, v) :: views, none)
    | ["inst", i, key, prio, tk, h, ttl, val, gr, mf, hh, cm, sttl, cb] =>
      ev (.inst ⟨← parseNat i, key, ← parseInt prio, ← parseBool tk, ← parseNat h, ← parseNat ttl, ← parseNat val,
                 ← parseNat gr, ← parseNat mf, ← parseBool hh, ← parseBool cm, ← parseNat sttl, ← parseBool cb⟩)
    | ["hyp", a, b, c, d, f, ml, fe] =>
      ev (.hyp (← parseBool a) (← parseBool b) (← parseBool c) (← parseBool d) (← parseBool f) (← parseNat ml) (← parseNat fe))
    | "call" :: op :: i :: "create" :: key :: vs => do
      let (v, r) ← parseVal views vs
      if !r.isEmpty then none
      ev (.call (← parseNat op) (← parseNat i) .create key 0 v)
    | "call" :: op :: i :: "update" :: key :: exp :: vs => do
      let (v, r) ← parseVal views vs
      if !r.isEmpty then none
      ev (.call (← parseNat op) (← parseNat i) .update key (← parseNat exp) v)
    | ["call", op, i, "get", key] => ev (.call (← parseNat op) (← parseNat i) .get key 0 .empty)
    | ["call", op, i, "delete", key] => ev (.call (← parseNat op) (← parseNat i) .delete key 0 .empty)
    | ["call", op, i, "watch", key] => ev (.call (← parseNat op) (← parseNat i) .watch key 0 .empty)
    | ["apply", op, "ok", rev] => ev (.apply (← parseNat op) (.ok (← parseNat rev)))
    | ["apply", op, "fail", k] => ev (.apply (← parseNat op) (.fail (← parseErrKind k)))
    | ["apply", op, "fault"] => ev (.apply (← parseNat op) .fault)
    | ["apply", op, "dropped"] => ev (.apply (← parseNat op) .dropped)
    | ["ret", op, "ok", rev] => ev (.ret (← parseNat op) (.ok (← parseNat rev) none))
    | "ret" :: op :: "ok" :: rev :: vs => do
      let (v, r) ← parseVal views vs
      if !r.isEmpty then none
      ev (.ret (← parseNat op) (.ok (← parseNat rev) (some v)))
    | ["ret", op, "err", k] => ev (.ret (← parseNat op) (.err (← parseErrKind k)))
    | ["expire", key, rev] => ev (.expire key (← parseNat rev))
    | ["texpire", key, rev] => ev (.texpire key (← parseNat rev))
    | "ext" :: "put" :: key :: rev :: vs => do
      let (v, r) ← parseVal views vs
      if !r.isEmpty then none
      ev (.extPut key (← parseNat rev) v)
    | ["ext", "delete", key, rev] => ev (.extDelete key (← parseNat rev))
    | ["wev", w, i, _, "nil", _, _, _] => ev (.wev (← parseNat w) (← parseNat i) 0 none)
    | "wev" :: w :: i :: rev :: vs => do
      let (v, r) ← parseVal views vs
      if !r.isEmpty then none
      ev (.wev (← parseNat w) (← parseNat i) (← parseNat rev) (some v))
    | ["wdrop", w, i, rev] => ev (.wdrop (← parseNat w) (← parseNat i) (← parseNat rev))
    | ["flag", i, b, il, tok, lid] =>
      ev (.flag (← parseNat i) (← parseBool b) (← parseBool il) (← parseNat tok) (← parseNat lid))
    | ["trans", i, f, to] => ev (.trans (← parseNat i) (← parseNat f) (← parseNat to))
    | ["promote", i, tok, cid, d] => ev (.promote (← parseNat i) (← parseNat tok) (← parseNat cid) (← parseBool d))
    | ["promote-ret", i, cid] => ev (.promoteRet (← parseNat i) (← parseNat cid))
    | ["ctxdone", i, cid] => ev (.ctxDone (← parseNat i) (← parseNat cid))
    | ["demote", i] => ev (.demote (← parseNat i))
    | ["api", n, i, "start"] => ev (.api (← parseNat n) (← parseNat i) .start)
    | ["api", n, i, "stop"] => ev (.api (← parseNat n) (← parseNat i) .stop)
    | ["api", n, i, "stopctx", d, w, to, cto] =>
      ev (.api (← parseNat n) (← parseNat i) (.stopctx (← parseBool d) (← parseBool w) (← parseNat to) (← parseNat cto)))
    | ["api", n, i, "validate", cto] => ev (.api (← parseNat n) (← parseNat i) (.validate (← parseNat cto)))
    | ["api", n, i, "validate-or-demote", cto] => ev (.api (← parseNat n) (← parseNat i) (.validateOrDemote (← parseNat cto)))
    | "apiret" :: n :: i :: res => ev (.apiRet (← parseNat n) (← parseNat i) (← parseApiRes res))
    | ["status", i, st, il, lid, tok, rev, il2] =>
      ev (.status (← parseNat i) (← parseNat st) (← parseBool il) (← parseNat lid) (← parseNat tok) (← parseNat rev) (← parseBool il2))
    | ["observe", i] => ev (.observe (← parseNat i))
    | ["wleft", n] => ev (.wleft (← parseNat n))
    | ["slowsink"] => ev .slowSink
    | ["promgauge", i, v] => ev (.promGauge (← parseNat i) (← parseInt v))
    | ["promtrans", i, n] => ev (.promTrans (← parseNat i) (← parseNat n))
    | ["mpanic", i, m] => ev (.metricsPanic (← parseNat i) m)
    | ["snap", i, st, il, lid, tok] =>
      ev (.snap (← parseNat i) (← parseNat st) (← parseBool il) (← parseNat lid) (← parseNat tok))
    | ["health", i, k, r, rem] => ev (.health (← parseNat i) (← parseNat k) (← parseBool r) (← parseInt rem))
    | ["conn", i, "disconnect"] => ev (.conn (← parseNat i) .disconnect)
    | ["conn", i, "reconnect"] => ev (.conn (← parseNat i) .reconnect)
    | ["conn", i, "closed"] => ev (.conn (← parseNat i) .closed)
    | ["crash", i] => ev (.crash (← parseNat i))
    | ["partition", i, b] => ev (.partition (← parseNat i) (← parseBool b))
    | ["watchfail", i, n] => ev (.watchFail (← parseNat i) (← parseNat n))
    | ["panic", i, _] => ev (.panic (← parseNat i))
    | ["newerr", i] => ev (.newErr (← parseNat i))
    | ["end"] => ev .end_
    | ["gor", n] => ev (.gor (← parseNat n))
    | ["site", op, fn] => ev (.site (← parseNat op) fn)
    | ["cancelctx", i] => ev (.cancelCtx (← parseNat i))
    | _ => none
  | [] => none

end NLE.Driver
