import NLE.Model.Own
/-
  Invariants of the ownership model `Own` and their preservation by every step.
-/
namespace NLE.Own
open State

/-- `r` is what key `key` held after some successful mutation in the history. -/
def Historical (s : State) (key : String) (r : Rec) : Prop :=
  ∃ m ∈ s.hist, m.key = key ∧ m.after = some r

/-- Instance `i` wrote `own i tok _` on `key` at revision `rev`. -/
def OwnWrite (s : State) (i : Nat) (key : String) (rev tok : Nat) : Prop :=
  ∃ prio, Historical s key { val := .own i tok prio, rev := rev, writer := i }

/-- The legitimate kinds of change (C01) for a mutation made by an instance with configuration `c`:
    creation while no live record exists; a refresh by the writer of the previous version against
    exactly that revision, republishing the same identity and token; a revision-checked replacement
    with takeover enabled and strictly higher priority than the stored one.  Deletions are treated
    separately (`Theorems/C01.lean`). -/
def Legit (c : InstCfg) (m : Mut) : Prop :=
  m.key = c.key ∧
  match m.kind with
  | .create => m.before = none ∧ ∃ tok, ∃ r, m.after = some r ∧ r.val = .own c.id tok c.prio
  | .refresh => ∃ old tok p r, m.before = some old ∧ old.rev = m.exp ∧ old.writer = c.id ∧ old.val = .own c.id tok p ∧
                  m.after = some r ∧ r.val = .own c.id tok c.prio
  | .takeover => ∃ old tok r, m.before = some old ∧ old.rev = m.exp ∧ c.takeover = true ∧ outranks c.prio old.val = true ∧
                  m.after = some r ∧ r.val = .own c.id tok c.prio
  | _ => True

structure Inv (s : State) : Prop where
  idOK : ∀ i x, s.insts i = some x → x.cfg.id = i
  revLe : ∀ m ∈ s.hist, ∀ r, m.after = some r → r.rev ≤ s.seq
  liveHist : ∀ key r, s.store key = some r → Historical s key r
  revUniq : ∀ m1 ∈ s.hist, ∀ m2 ∈ s.hist, ∀ r1 r2, m1.after = some r1 → m2.after = some r2 → r1.rev = r2.rev →
              r1 = r2 ∧ m1.key = m2.key
  leadOwn : ∀ i x tok, s.insts i = some x → x.lead = some tok → OwnWrite s i x.cfg.key x.hbRev tok
  ackOwn : ∀ i x tok rev, s.insts i = some x → (tok, rev) ∈ x.acked → OwnWrite s i x.cfg.key rev tok
  seenHist : ∀ i x rev v, s.insts i = some x → (rev, v) ∈ x.seen → ∃ r, Historical s x.cfg.key r ∧ r.rev = rev ∧ r.val = v
  opInst : ∀ p ∈ s.ops, p.purpose ≠ .other → ∃ x, s.insts p.inst = some x ∧ p.key = x.cfg.key ∧
              (p.purpose ≠ .delete → ∃ tok, p.val = .own p.inst tok x.cfg.prio)
  hbOps : ∀ p ∈ s.ops, p.purpose = .heartbeat → ∃ tok prio, p.val = .own p.inst tok prio ∧ OwnWrite s p.inst p.key p.exp tok
  tkOps : ∀ p ∈ s.ops, p.purpose = .takeover → ∃ x, s.insts p.inst = some x ∧ x.cfg.takeover = true ∧
              ∃ r, Historical s p.key r ∧ r.rev = p.exp ∧ outranks x.cfg.prio r.val = true
  appliedOk : ∀ p ∈ s.ops, ∀ rev, p.applied = some (some rev) → (p.purpose = .create ∨ p.purpose = .takeover ∨ p.purpose = .heartbeat) →
              ∃ tok, valTok p.val = some tok ∧ OwnWrite s p.inst p.key rev tok
  histLegit : ∀ m ∈ s.hist, m.who ≠ 0 → ∃ x, s.insts m.who = some x ∧ Legit x.cfg m

/-! ### Monotonicity of the ghost history -/

theorem Historical.mono {s s' : State} {key r} (h : Historical s key r) (hsub : ∀ m ∈ s.hist, m ∈ s'.hist) :
    Historical s' key r := by
  obtain ⟨m, hm, hk, ha⟩ := h
  exact ⟨m, hsub m hm, hk, ha⟩

theorem OwnWrite.mono {s s' : State} {i key rev tok} (h : OwnWrite s i key rev tok) (hsub : ∀ m ∈ s.hist, m ∈ s'.hist) :
    OwnWrite s' i key rev tok := by
  obtain ⟨p, hp⟩ := h
  exact ⟨p, hp.mono hsub⟩

/-- Two historical records of the same revision are the same record. -/
theorem Inv.hist_eq_of_rev {s : State} (inv : Inv s) {k1 k2 r1 r2} (h1 : Historical s k1 r1) (h2 : Historical s k2 r2)
    (hr : r1.rev = r2.rev) : r1 = r2 := by
  obtain ⟨m1, hm1, _, ha1⟩ := h1
  obtain ⟨m2, hm2, _, ha2⟩ := h2
  exact (inv.revUniq m1 hm1 m2 hm2 r1 r2 ha1 ha2 hr).1

/-! ### The initial state -/

theorem inv_init : Inv ({} : State) where
  idOK := by intro i x h; simp at h
  revLe := by intro m hm; simp at hm
  liveHist := by intro k r h; simp at h
  revUniq := by intro m hm; simp at hm
  leadOwn := by intro i x tok h; simp at h
  ackOwn := by intro i x tok rev h; simp at h
  seenHist := by intro i x rev v h; simp at h
  opInst := by intro p hp; simp at hp
  hbOps := by intro p hp; simp at hp
  tkOps := by intro p hp; simp at hp
  appliedOk := by intro p hp; simp at hp
  histLegit := by intro m hm; simp at hm

/-! ### Frame lemmas: steps that leave history, store and sequence alone -/

/-- A step that changes neither history, store nor sequence number, and keeps the instance table's
    configurations, only has to re-establish the instance/operation clauses. -/
structure SameWorld (s s' : State) : Prop where
  hist : s'.hist = s.hist
  store : s'.store = s.store
  seq : s'.seq = s.seq

theorem Historical.same {s s' : State} (h : SameWorld s s') {key r} : Historical s' key r ↔ Historical s key r := by
  unfold Historical; rw [h.hist]

theorem OwnWrite.same {s s' : State} (h : SameWorld s s') {i key rev tok} : OwnWrite s' i key rev tok ↔ OwnWrite s i key rev tok := by
  unfold OwnWrite; simp [Historical.same h]

end NLE.Own

namespace NLE.Own
open State

@[simp] theorem setInst_hist (s : State) (x : Inst) : (s.setInst x).hist = s.hist := rfl
@[simp] theorem setInst_store (s : State) (x : Inst) : (s.setInst x).store = s.store := rfl
@[simp] theorem setInst_seq (s : State) (x : Inst) : (s.setInst x).seq = s.seq := rfl
@[simp] theorem setInst_ops (s : State) (x : Inst) : (s.setInst x).ops = s.ops := rfl
@[simp] theorem setInst_insts (s : State) (x : Inst) (i : Nat) :
    (s.setInst x).insts i = if i = x.cfg.id then some x else s.insts i := rfl
@[simp] theorem addOp_hist (s : State) (p : POp) : (s.addOp p).hist = s.hist := rfl
@[simp] theorem addOp_store (s : State) (p : POp) : (s.addOp p).store = s.store := rfl
@[simp] theorem addOp_seq (s : State) (p : POp) : (s.addOp p).seq = s.seq := rfl
@[simp] theorem addOp_insts (s : State) (p : POp) : (s.addOp p).insts = s.insts := rfl
@[simp] theorem addOp_ops (s : State) (p : POp) : (s.addOp p).ops = p :: s.ops := rfl
@[simp] theorem markOp_hist (s : State) (o : Nat) (r) : (s.markOp o r).hist = s.hist := rfl
@[simp] theorem markOp_store (s : State) (o : Nat) (r) : (s.markOp o r).store = s.store := rfl
@[simp] theorem markOp_seq (s : State) (o : Nat) (r) : (s.markOp o r).seq = s.seq := rfl
@[simp] theorem markOp_insts (s : State) (o : Nat) (r) : (s.markOp o r).insts = s.insts := rfl
@[simp] theorem dropOp_hist (s : State) (o : Nat) : (s.dropOp o).hist = s.hist := rfl
@[simp] theorem dropOp_store (s : State) (o : Nat) : (s.dropOp o).store = s.store := rfl
@[simp] theorem dropOp_seq (s : State) (o : Nat) : (s.dropOp o).seq = s.seq := rfl
@[simp] theorem dropOp_insts (s : State) (o : Nat) : (s.dropOp o).insts = s.insts := rfl

theorem mem_dropOp {s : State} {o : Nat} {p : POp} (h : p ∈ (s.dropOp o).ops) : p ∈ s.ops := by
  simp [dropOp] at h; exact h.1

/-- Every operation of `markOp` comes from one of `s` with the same fields except `applied`. -/
theorem mem_markOp {s : State} {o : Nat} {r} {p : POp} (h : p ∈ (s.markOp o r).ops) :
    ∃ q ∈ s.ops, p.id = q.id ∧ p.inst = q.inst ∧ p.purpose = q.purpose ∧ p.key = q.key ∧ p.exp = q.exp ∧ p.val = q.val ∧
      (p.applied = q.applied ∨ (q.id = o ∧ p.applied = some r)) := by
  simp only [markOp, List.mem_map] at h
  obtain ⟨q, hq, rfl⟩ := h
  refine ⟨q, hq, ?_⟩
  split <;> simp_all

theorem op?_mem {s : State} {o : Nat} {p : POp} (h : s.op? o = some p) : p ∈ s.ops ∧ p.id = o := by
  unfold op? at h
  have h1 := List.mem_of_find?_eq_some h
  have h2 := List.find?_some h
  exact ⟨h1, by simpa using h2⟩

/-- Updating one instance's local variables (same configuration) preserves the invariant, provided the
    new local variables satisfy the per-instance clauses. -/
theorem inv_setInst {s : State} (inv : Inv s) {i : Nat} {x x' : Inst} (hx : s.insts i = some x) (hcfg : x'.cfg = x.cfg)
    (hlead : ∀ tok, x'.lead = some tok → OwnWrite s i x.cfg.key x'.hbRev tok)
    (hack : ∀ tok rev, (tok, rev) ∈ x'.acked → OwnWrite s i x.cfg.key rev tok)
    (hseen : ∀ rev v, (rev, v) ∈ x'.seen → ∃ r, Historical s x.cfg.key r ∧ r.rev = rev ∧ r.val = v) :
    Inv (s.setInst x') := by
  have hid : x.cfg.id = i := inv.idOK i x hx
  have hid' : x'.cfg.id = i := by rw [hcfg]; exact hid
  have sw : SameWorld s (s.setInst x') := ⟨rfl, rfl, rfl⟩
  -- instance lookup in the new state
  have look : ∀ j y, (s.setInst x').insts j = some y → (j = i ∧ y = x') ∨ (j ≠ i ∧ s.insts j = some y) := by
    intro j y h
    simp only [setInst_insts, hid'] at h
    by_cases hj : j = i
    · simp [hj] at h; exact Or.inl ⟨hj, h.symm⟩
    · simp [hj] at h; exact Or.inr ⟨hj, h⟩
  have keep : ∀ j y, s.insts j = some y → ∃ y', (s.setInst x').insts j = some y' ∧ y'.cfg = y.cfg := by
    intro j y h
    by_cases hj : j = i
    · subst hj; rw [hx] at h; cases h
      exact ⟨x', by simp [hid'], hcfg⟩
    · exact ⟨y, by simp [hid', hj, h], rfl⟩
  constructor
  · intro j y h
    rcases look j y h with ⟨rfl, rfl⟩ | ⟨_, h'⟩
    · exact hid'
    · exact inv.idOK j y h'
  · exact inv.revLe
  · intro k r h; exact (Historical.same sw).mpr (inv.liveHist k r h)
  · exact inv.revUniq
  · intro j y tok h hl
    rcases look j y h with ⟨rfl, rfl⟩ | ⟨_, h'⟩
    · rw [hcfg]; exact (OwnWrite.same sw).mpr (hlead tok hl)
    · exact (OwnWrite.same sw).mpr (inv.leadOwn j y tok h' hl)
  · intro j y tok rev h ha
    rcases look j y h with ⟨rfl, rfl⟩ | ⟨_, h'⟩
    · rw [hcfg]; exact (OwnWrite.same sw).mpr (hack tok rev ha)
    · exact (OwnWrite.same sw).mpr (inv.ackOwn j y tok rev h' ha)
  · intro j y rev v h hs
    rcases look j y h with ⟨rfl, rfl⟩ | ⟨_, h'⟩
    · rw [hcfg]
      obtain ⟨r, hr, h1, h2⟩ := hseen rev v hs
      exact ⟨r, (Historical.same sw).mpr hr, h1, h2⟩
    · obtain ⟨r, hr, h1, h2⟩ := inv.seenHist j y rev v h' hs
      exact ⟨r, (Historical.same sw).mpr hr, h1, h2⟩
  · intro p hp hne
    obtain ⟨y, hy, hk, hv⟩ := inv.opInst p hp hne
    obtain ⟨y', hy', hc⟩ := keep p.inst y hy
    exact ⟨y', hy', by rw [hc]; exact hk, by rw [hc]; exact hv⟩
  · intro p hp hpu
    obtain ⟨tok, prio, hv, ho⟩ := inv.hbOps p hp hpu
    exact ⟨tok, prio, hv, (OwnWrite.same sw).mpr ho⟩
  · intro p hp hpu
    obtain ⟨y, hy, ht, r, hr, h1, h2⟩ := inv.tkOps p hp hpu
    obtain ⟨y', hy', hc⟩ := keep p.inst y hy
    exact ⟨y', hy', by rw [hc]; exact ht, r, (Historical.same sw).mpr hr, h1, by rw [hc]; exact h2⟩
  · intro p hp rev ha hpu
    obtain ⟨tok, hv, ho⟩ := inv.appliedOk p hp rev ha hpu
    exact ⟨tok, hv, (OwnWrite.same sw).mpr ho⟩
  · intro m hm hw
    obtain ⟨y, hy, hl⟩ := inv.histLegit m hm hw
    obtain ⟨y', hy', hc⟩ := keep m.who y hy
    exact ⟨y', hy', by rw [hc]; exact hl⟩

/-- Replacing the list of pending operations preserves the invariant if the new operations satisfy the
    operation clauses. -/
theorem inv_setOps {s : State} (inv : Inv s) (ops' : List POp)
    (h1 : ∀ p ∈ ops', p.purpose ≠ .other → ∃ x, s.insts p.inst = some x ∧ p.key = x.cfg.key ∧
              (p.purpose ≠ .delete → ∃ tok, p.val = .own p.inst tok x.cfg.prio))
    (h2 : ∀ p ∈ ops', p.purpose = .heartbeat → ∃ tok prio, p.val = .own p.inst tok prio ∧ OwnWrite s p.inst p.key p.exp tok)
    (h3 : ∀ p ∈ ops', p.purpose = .takeover → ∃ x, s.insts p.inst = some x ∧ x.cfg.takeover = true ∧
              ∃ r, Historical s p.key r ∧ r.rev = p.exp ∧ outranks x.cfg.prio r.val = true)
    (h4 : ∀ p ∈ ops', ∀ rev, p.applied = some (some rev) → (p.purpose = .create ∨ p.purpose = .takeover ∨ p.purpose = .heartbeat) →
              ∃ tok, valTok p.val = some tok ∧ OwnWrite s p.inst p.key rev tok) :
    Inv { s with ops := ops' } where
  idOK := inv.idOK
  revLe := inv.revLe
  liveHist := inv.liveHist
  revUniq := inv.revUniq
  leadOwn := inv.leadOwn
  ackOwn := inv.ackOwn
  seenHist := inv.seenHist
  opInst := h1
  hbOps := h2
  tkOps := h3
  appliedOk := h4
  histLegit := inv.histLegit

end NLE.Own

namespace NLE.Own
open State

/-! ### Preservation, handler by handler -/

theorem inv_stepFlag {s s' : State} (inv : Inv s) {i il tok} (h : stepFlag s i il tok = .ok s') : Inv s' := by
  unfold stepFlag at h
  split at h
  · cases h; exact inv
  · rename_i x hx
    split at h
    · split at h
      · cases h; exact inv
      · split at h
        · rename_i tk rev hfind
          split at h
          · cases h
          · cases h
            have hmem : (tk, rev) ∈ x.acked := List.mem_of_find?_eq_some hfind
            have htk : tk = tok := by simpa using List.find?_some hfind
            subst htk
            apply inv_setInst inv hx
            · rfl
            · intro t ht; simp at ht; subst ht
              exact inv.ackOwn i x tk rev hx hmem
            · intro t r hm
              simp at hm
              exact inv.ackOwn i x t r hx hm.1
            · intro r v hm; exact inv.seenHist i x r v hx hm
        · cases h
    · cases h
      apply inv_setInst inv hx
      · rfl
      · intro t ht; simp at ht
      · intro t r hm; exact inv.ackOwn i x t r hx hm
      · intro r v hm; exact inv.seenHist i x r v hx hm

theorem inv_stepCall {s s' : State} (inv : Inv s) {t op i kind key exp val}
    (h : stepCall s t op i kind key exp val = .ok s') : Inv s' := by
  unfold stepCall at h
  split at h
  · cases h
  · rename_i x hx
    split at h
    · cases h
    split at h
    · cases h
    · rename_i hkey
      have hkey : key = x.cfg.key := by simpa using hkey
      have hid := inv.idOK i x hx
      cases kind with
      | create =>
        simp only at h
        split at h
        · rename_i id tok prio
          split at h
          · cases h
          · rename_i hg
            simp only [not_or, Decidable.not_not] at hg
            obtain ⟨hid1, hprio, _⟩ := hg
            split at h
            · cases h
            · cases h
              -- only ops and usedToks change
              have := inv_setOps inv ({ id := op, inst := i, purpose := .create, key := key, exp := 0, val := .own id tok prio, issued := t } :: s.ops)
                (by
                  intro p hp hne
                  simp at hp
                  rcases hp with rfl | hp
                  · exact ⟨x, hx, hkey, fun _ => ⟨tok, by simp [hid1, hprio]⟩⟩
                  · exact inv.opInst p hp hne)
                (by
                  intro p hp hpu
                  simp at hp
                  rcases hp with rfl | hp
                  · simp at hpu
                  · exact inv.hbOps p hp hpu)
                (by
                  intro p hp hpu
                  simp at hp
                  rcases hp with rfl | hp
                  · simp at hpu
                  · exact inv.tkOps p hp hpu)
                (by
                  intro p hp rev ha hpu
                  simp at hp
                  rcases hp with rfl | hp
                  · simp at ha
                  · exact inv.appliedOk p hp rev ha hpu)
              exact ⟨this.idOK, this.revLe, this.liveHist, this.revUniq, this.leadOwn, this.ackOwn, this.seenHist,
                     this.opInst, this.hbOps, this.tkOps, this.appliedOk, this.histLegit⟩
        · cases h
      | update =>
        simp only at h
        split at h
        · rename_i id tok prio
          split at h
          · cases h
          · rename_i hg
            simp only [not_or, Decidable.not_not] at hg
            obtain ⟨hid1, hprio, _⟩ := hg
            split at h
            · rename_i hlead
              split at h
              · rename_i hexp
                cases h
                have := inv_setOps inv ({ id := op, inst := i, purpose := .heartbeat, key := key, exp := exp, val := .own id tok prio, issued := t } :: s.ops)
                  (by
                    intro p hp hne
                    simp at hp
                    rcases hp with rfl | hp
                    · exact ⟨x, hx, hkey, fun _ => ⟨tok, by simp [hid1, hprio]⟩⟩
                    · exact inv.opInst p hp hne)
                  (by
                    intro p hp hpu
                    simp at hp
                    rcases hp with rfl | hp
                    · refine ⟨tok, prio, by simp [hid1], ?_⟩
                      simp only
                      rw [hexp, hkey]
                      exact inv.leadOwn i x tok hx hlead
                    · exact inv.hbOps p hp hpu)
                  (by
                    intro p hp hpu
                    simp at hp
                    rcases hp with rfl | hp
                    · simp at hpu
                    · exact inv.tkOps p hp hpu)
                  (by
                    intro p hp rev ha hpu
                    simp at hp
                    rcases hp with rfl | hp
                    · simp at ha
                    · exact inv.appliedOk p hp rev ha hpu)
                exact this
              · cases h
            · split at h
              · cases h
              split at h
              · rename_i hg2
                obtain ⟨_, _, htk⟩ := hg2
                cases h
                -- what the takeover guard gives
                simp only [takeoverAllowed, Bool.and_eq_true, decide_eq_true_eq, List.any_eq_true] at htk
                obtain ⟨⟨htko, _⟩, ⟨rv, hrv, hrv2⟩⟩ := htk
                simp only [Bool.and_eq_true, beq_iff_eq] at hrv2
                obtain ⟨r, hr, hr1, hr2⟩ := inv.seenHist i x rv.1 rv.2 hx hrv
                have := inv_setOps inv ({ id := op, inst := i, purpose := .takeover, key := key, exp := exp, val := .own id tok prio, issued := t } :: s.ops)
                  (by
                    intro p hp hne
                    simp at hp
                    rcases hp with rfl | hp
                    · exact ⟨x, hx, hkey, fun _ => ⟨tok, by simp [hid1, hprio]⟩⟩
                    · exact inv.opInst p hp hne)
                  (by
                    intro p hp hpu
                    simp at hp
                    rcases hp with rfl | hp
                    · simp at hpu
                    · exact inv.hbOps p hp hpu)
                  (by
                    intro p hp hpu
                    simp at hp
                    rcases hp with rfl | hp
                    · refine ⟨x, hx, htko, r, ?_, ?_, ?_⟩
                      · show Historical s key r; rw [hkey]; exact hr
                      · show r.rev = exp; rw [hr1]; exact hrv2.1
                      · show outranks x.cfg.prio r.val = true; rw [hr2]; exact hrv2.2
                    · exact inv.tkOps p hp hpu)
                  (by
                    intro p hp rev ha hpu
                    simp at hp
                    rcases hp with rfl | hp
                    · simp at ha
                    · exact inv.appliedOk p hp rev ha hpu)
                exact ⟨this.idOK, this.revLe, this.liveHist, this.revUniq, this.leadOwn, this.ackOwn, this.seenHist,
                       this.opInst, this.hbOps, this.tkOps, this.appliedOk, this.histLegit⟩
              · cases h
        · cases h
      | delete =>
        simp only at h
        split at h
        · cases h
          have := inv_setOps inv ({ id := op, inst := i, purpose := .delete, key := key, exp := 0, val := .empty, issued := t } :: s.ops)
            (by
              intro p hp hne
              simp at hp
              rcases hp with rfl | hp
              · exact ⟨x, hx, hkey, fun h => absurd rfl h⟩
              · exact inv.opInst p hp hne)
            (by
              intro p hp hpu
              simp at hp
              rcases hp with rfl | hp
              · simp at hpu
              · exact inv.hbOps p hp hpu)
            (by
              intro p hp hpu
              simp at hp
              rcases hp with rfl | hp
              · simp at hpu
              · exact inv.tkOps p hp hpu)
            (by
              intro p hp rev ha hpu
              simp at hp
              rcases hp with rfl | hp
              · simp at ha
              · exact inv.appliedOk p hp rev ha hpu)
          exact this
        · cases h
      | get | watch =>
        simp only at h
        cases h
        have := inv_setOps inv ({ id := op, inst := i, purpose := .other, key := key, exp := 0, val := .empty, issued := t } :: s.ops)
          (by
            intro p hp hne
            simp at hp
            rcases hp with rfl | hp
            · simp at hne
            · exact inv.opInst p hp hne)
          (by
            intro p hp hpu
            simp at hp
            rcases hp with rfl | hp
            · simp at hpu
            · exact inv.hbOps p hp hpu)
          (by
            intro p hp hpu
            simp at hp
            rcases hp with rfl | hp
            · simp at hpu
            · exact inv.tkOps p hp hpu)
          (by
            intro p hp rev ha hpu
            simp at hp
            rcases hp with rfl | hp
            · simp at ha
            · exact inv.appliedOk p hp rev ha hpu)
        exact this

end NLE.Own

namespace NLE.Own
open State

theorem inv_dropOp {s : State} (inv : Inv s) (o : Nat) : Inv (s.dropOp o) := by
  have := inv_setOps inv (s.ops.filter (·.id ≠ o))
    (fun p hp => inv.opInst p (List.mem_filter.mp hp).1)
    (fun p hp => inv.hbOps p (List.mem_filter.mp hp).1)
    (fun p hp => inv.tkOps p (List.mem_filter.mp hp).1)
    (fun p hp => inv.appliedOk p (List.mem_filter.mp hp).1)
  exact this

theorem inv_stepRet {s s' : State} (inv : Inv s) {t op r} (h : stepRet s t op r = .ok s') : Inv s' := by
  unfold stepRet at h
  split at h
  · cases h
  · rename_i p hp
    obtain ⟨hpm, _⟩ := op?_mem hp
    have inv1 := inv_dropOp inv op
    simp only at h
    split at h
    · cases h; exact inv1
    · rename_i x hx
      have hx0 : s.insts p.inst = some x := by simpa using hx
      -- facts about an acquiring / refreshing write that was applied ok
      have applied : ∀ rev, p.applied = some (some rev) → (p.purpose = .create ∨ p.purpose = .takeover ∨ p.purpose = .heartbeat) →
          ∃ tok, valTok p.val = some tok ∧ OwnWrite (s.dropOp op) p.inst x.cfg.key rev tok := by
        intro rev ha hpu
        obtain ⟨tok, hv, ho⟩ := inv.appliedOk p hpm rev ha hpu
        have hne : p.purpose ≠ .other := by rcases hpu with h | h | h <;> simp [h]
        obtain ⟨y, hy, hk, _⟩ := inv.opInst p hpm hne
        rw [hx0] at hy; cases hy
        exact ⟨tok, hv, by rw [← hk]; exact ho⟩
      have keepLead : ∀ tok, x.lead = some tok → OwnWrite (s.dropOp op) p.inst x.cfg.key x.hbRev tok :=
        fun tok hl => inv1.leadOwn p.inst x tok hx hl
      have keepAck : ∀ tok rev, (tok, rev) ∈ x.acked → OwnWrite (s.dropOp op) p.inst x.cfg.key rev tok :=
        fun tok rev hm => inv1.ackOwn p.inst x tok rev hx hm
      have keepSeen : ∀ rev v, (rev, v) ∈ x.seen → ∃ r, Historical (s.dropOp op) x.cfg.key r ∧ r.rev = rev ∧ r.val = v :=
        fun rev v hm => inv1.seenHist p.inst x rev v hx hm
      split at h
      · -- create, ok
        rename_i rev _ hpu
        split at h
        · cases h
        · rename_i happ
          simp only [ne_eq, Decidable.not_not] at happ
          obtain ⟨tok, hv, ho⟩ := applied rev happ (Or.inl hpu)
          rw [hv] at h
          cases h
          apply inv_setInst inv1 hx
          · rfl
          · exact keepLead
          · intro t' r' hm
            simp at hm
            rcases hm with ⟨rfl, rfl⟩ | hm
            · exact ho
            · exact keepAck t' r' hm
          · exact keepSeen
      · -- takeover, ok
        rename_i rev _ hpu
        split at h
        · cases h
        · rename_i happ
          simp only [ne_eq, Decidable.not_not] at happ
          obtain ⟨tok, hv, ho⟩ := applied rev happ (Or.inr (Or.inl hpu))
          rw [hv] at h
          cases h
          apply inv_setInst inv1 hx
          · rfl
          · exact keepLead
          · intro t' r' hm
            simp at hm
            rcases hm with ⟨rfl, rfl⟩ | hm
            · exact ho
            · exact keepAck t' r' hm
          · exact keepSeen
      · -- heartbeat, ok
        rename_i rev _ hpu
        split at h
        · cases h
        · rename_i happ
          simp only [ne_eq, Decidable.not_not] at happ
          obtain ⟨tok, hv, ho⟩ := applied rev happ (Or.inr (Or.inr hpu))
          split at h
          · rename_i hl
            cases h
            apply inv_setInst inv1 hx
            · rfl
            · intro t' ht'
              simp only at ht' ⊢
              rw [hl.1, hv] at ht'
              cases ht'
              exact ho
            · exact keepAck
            · exact keepSeen
          · cases h; exact inv1
      · -- a read that returned a value
        rename_i rev v hpu
        split at h
        · rename_i hg
          obtain ⟨hk, hany⟩ := hg
          cases h
          apply inv_setInst inv1 hx
          · rfl
          · exact keepLead
          · exact keepAck
          · intro r' v' hm
            simp at hm
            rcases hm with ⟨rfl, rfl⟩ | hm
            · simp only [List.any_eq_true, Bool.and_eq_true, beq_iff_eq] at hany
              obtain ⟨m, hm, hmk, hma⟩ := hany
              cases hafter : m.after with
              | none => simp [hafter] at hma
              | some rr =>
                simp only [hafter, Bool.and_eq_true, beq_iff_eq] at hma
                exact ⟨rr, ⟨m, hm, by rw [hmk, hk], hafter⟩, hma.1, hma.2⟩
            · exact keepSeen r' v' hm
        · cases h
      · cases h; exact inv1

end NLE.Own

namespace NLE.Own
open State

/-- Operation ids are unique among the pending operations. -/
def OpsUniq (s : State) : Prop := ∀ p ∈ s.ops, ∀ q ∈ s.ops, p.id = q.id → p = q

theorem op?_none_not_mem {s : State} {o : Nat} (h : (s.op? o).isSome = false) : ∀ p ∈ s.ops, p.id ≠ o := by
  intro p hp hid
  unfold op? at h
  have : (s.ops.find? (·.id = o)).isSome = true := by
    rw [List.find?_isSome]
    exact ⟨p, hp, by simpa using hid⟩
  rw [this] at h; cases h

/-- Writing a record: the general preservation lemma behind `Create`, heartbeat and takeover. -/
theorem inv_applyWrite {s : State} (inv : Inv s) (uq : OpsUniq s) {op : Nat} {p : POp} (hp : p ∈ s.ops) (hpid : p.id = op)
    {rev : Nat} (hrev : rev = s.seq + 1) {x : Inst} (hx : s.insts p.inst = some x) (hkey : p.key = x.cfg.key)
    {tok : Nat} (hval : p.val = .own p.inst tok x.cfg.prio) {kind : MKind} {before : Option Rec}
    (hlegit : Legit x.cfg { who := p.inst, kind := kind, key := p.key, exp := p.exp, before := before,
                            after := some { val := p.val, rev := rev, writer := p.inst } }) :
    Inv (applyWrite s op p rev kind before) := by
  let r : Rec := { val := p.val, rev := rev, writer := p.inst }
  let m : Mut := { who := p.inst, kind := kind, key := p.key, exp := p.exp, before := before, after := some r }
  have hhist : (applyWrite s op p rev kind before).hist = m :: s.hist := rfl
  have hstore : ∀ k, (applyWrite s op p rev kind before).store k = if k = p.key then some r else s.store k := fun _ => rfl
  have hseq : (applyWrite s op p rev kind before).seq = rev := rfl
  have hinsts : (applyWrite s op p rev kind before).insts = s.insts := rfl
  have sub : ∀ m' ∈ s.hist, m' ∈ (applyWrite s op p rev kind before).hist := by
    intro m' hm'; rw [hhist]; exact List.mem_cons_of_mem _ hm'
  have newHist : Historical (applyWrite s op p rev kind before) p.key r := ⟨m, by rw [hhist]; exact List.mem_cons_self .., rfl, rfl⟩
  have hops : ∀ q ∈ (applyWrite s op p rev kind before).ops,
      ∃ q0 ∈ s.ops, q.id = q0.id ∧ q.inst = q0.inst ∧ q.purpose = q0.purpose ∧ q.key = q0.key ∧ q.exp = q0.exp ∧ q.val = q0.val ∧
        (q.applied = q0.applied ∨ (q0.id = op ∧ q.applied = some (some rev))) := by
    intro q hq
    exact mem_markOp (s := { ((s.setKey p.key (some r)).addMut m) with seq := rev, usedToks := valToks p.val ++ s.usedToks }) hq
  constructor
  · rw [hinsts]; exact inv.idOK
  · intro m' hm' r' ha
    rw [hhist] at hm'
    rw [hseq]
    rcases List.mem_cons.mp hm' with rfl | hm'
    · cases ha; exact Nat.le_refl _
    · have := inv.revLe m' hm' r' ha; omega
  · intro k r' hk
    rw [hstore] at hk
    by_cases hkk : k = p.key
    · simp [hkk] at hk; subst hk; rw [hkk]; exact newHist
    · simp [hkk] at hk; exact (inv.liveHist k r' hk).mono sub
  · intro m1 hm1 m2 hm2 r1 r2 h1 h2 hr
    rw [hhist] at hm1 hm2
    rcases List.mem_cons.mp hm1 with rfl | hm1 <;> rcases List.mem_cons.mp hm2 with rfl | hm2
    · cases h1; cases h2; exact ⟨rfl, rfl⟩
    · cases h1
      have := inv.revLe m2 hm2 r2 h2
      have hrr : r.rev = s.seq + 1 := hrev
      omega
    · cases h2
      have := inv.revLe m1 hm1 r1 h1
      have hrr : r.rev = s.seq + 1 := hrev
      omega
    · exact inv.revUniq m1 hm1 m2 hm2 r1 r2 h1 h2 hr
  · intro i y t hy hl
    rw [hinsts] at hy
    exact (inv.leadOwn i y t hy hl).mono sub
  · intro i y t rv hy hm
    rw [hinsts] at hy
    exact (inv.ackOwn i y t rv hy hm).mono sub
  · intro i y rv v hy hm
    rw [hinsts] at hy
    obtain ⟨r', hr', h1, h2⟩ := inv.seenHist i y rv v hy hm
    exact ⟨r', hr'.mono sub, h1, h2⟩
  · intro q hq hne
    obtain ⟨q0, hq0, _, hi, hpu, hk, _, hv, _⟩ := hops q hq
    rw [hpu] at hne
    obtain ⟨y, hy, hk', hv'⟩ := inv.opInst q0 hq0 hne
    refine ⟨y, by rw [hinsts, hi]; exact hy, by rw [hk]; exact hk', ?_⟩
    intro hnd
    rw [hpu] at hnd
    obtain ⟨t, ht⟩ := hv' hnd
    exact ⟨t, by rw [hv, hi]; exact ht⟩
  · intro q hq hpu
    obtain ⟨q0, hq0, _, hi, hpu0, hk, he, hv, _⟩ := hops q hq
    rw [hpu0] at hpu
    obtain ⟨t, pr, hv', ho⟩ := inv.hbOps q0 hq0 hpu
    exact ⟨t, pr, by rw [hv, hi]; exact hv', by rw [hi, hk, he]; exact ho.mono sub⟩
  · intro q hq hpu
    obtain ⟨q0, hq0, _, hi, hpu0, hk, he, _, _⟩ := hops q hq
    rw [hpu0] at hpu
    obtain ⟨y, hy, ht, r', hr', h1, h2⟩ := inv.tkOps q0 hq0 hpu
    exact ⟨y, by rw [hinsts, hi]; exact hy, ht, r', by rw [hk]; exact hr'.mono sub, by rw [he]; exact h1, h2⟩
  · intro q hq rv ha hpu
    obtain ⟨q0, hq0, _, hi, hpu0, hk, _, hv, happ⟩ := hops q hq
    rw [hpu0] at hpu
    rcases happ with happ | ⟨hid0, happ⟩
    · rw [happ] at ha
      obtain ⟨t, hv', ho⟩ := inv.appliedOk q0 hq0 rv ha hpu
      exact ⟨t, by rw [hv]; exact hv', by rw [hi, hk]; exact ho.mono sub⟩
    · -- the operation that has just been applied
      have : q0 = p := uq q0 hq0 p hp (by rw [hid0, hpid])
      subst this
      rw [happ] at ha
      cases ha
      refine ⟨tok, by rw [hv, hval]; rfl, ?_⟩
      rw [hi, hk]
      refine ⟨x.cfg.prio, ?_⟩
      have : ({ val := .own q0.inst tok x.cfg.prio, rev := rev, writer := q0.inst } : Rec) = r := by
        simp only [r, hval]
      rw [this]
      exact newHist
  · intro m' hm' hw
    rw [hhist] at hm'
    rw [hinsts]
    rcases List.mem_cons.mp hm' with rfl | hm'
    · exact ⟨x, hx, hlegit⟩
    · exact inv.histLegit m' hm' hw

theorem uniq_applyWrite {s : State} (uq : OpsUniq s) (op : Nat) (p : POp) (rev : Nat) (kind : MKind) (before : Option Rec) :
    OpsUniq (applyWrite s op p rev kind before) := by
  intro a ha b hb hab
  have hops : (applyWrite s op p rev kind before).ops = s.ops.map fun q => if q.id = op then { q with applied := some (some rev) } else q := rfl
  rw [hops] at ha hb
  obtain ⟨a0, ha0, rfl⟩ := List.mem_map.mp ha
  obtain ⟨b0, hb0, rfl⟩ := List.mem_map.mp hb
  have : a0.id = b0.id := by
    by_cases h1 : a0.id = op <;> by_cases h2 : b0.id = op <;> simp [h1, h2] at hab <;> simp_all
  have := uq a0 ha0 b0 hb0 this
  subst this; rfl

theorem uniq_markOp {s : State} (uq : OpsUniq s) (op : Nat) (r : Option Nat) : OpsUniq (s.markOp op r) := by
  intro a ha b hb hab
  simp only [markOp] at ha hb
  obtain ⟨a0, ha0, rfl⟩ := List.mem_map.mp ha
  obtain ⟨b0, hb0, rfl⟩ := List.mem_map.mp hb
  have : a0.id = b0.id := by
    by_cases h1 : a0.id = op <;> by_cases h2 : b0.id = op <;> simp [h1, h2] at hab <;> simp_all
  have := uq a0 ha0 b0 hb0 this
  subst this; rfl

end NLE.Own

namespace NLE.Own
open State

/-- Marking an operation (without a write) preserves the invariant as long as the mark is not "applied ok"
    for an acquiring or refreshing write. -/
theorem inv_markOp {s : State} (inv : Inv s) (uq : OpsUniq s) {op : Nat} {p : POp} (hp : p ∈ s.ops) (hpid : p.id = op)
    (r : Option Nat) (hr : r = none ∨ p.purpose = .other ∨ p.purpose = .delete) : Inv (s.markOp op r) := by
  have := inv_setOps inv (s.markOp op r).ops
    (by
      intro q hq hne
      obtain ⟨q0, hq0, _, hi, hpu, hk, _, hv, _⟩ := mem_markOp hq
      rw [hpu] at hne
      obtain ⟨y, hy, hk', hv'⟩ := inv.opInst q0 hq0 hne
      refine ⟨y, by rw [hi]; exact hy, by rw [hk]; exact hk', ?_⟩
      intro hnd; rw [hpu] at hnd
      obtain ⟨t, ht⟩ := hv' hnd
      exact ⟨t, by rw [hv, hi]; exact ht⟩)
    (by
      intro q hq hpu
      obtain ⟨q0, hq0, _, hi, hpu0, hk, he, hv, _⟩ := mem_markOp hq
      rw [hpu0] at hpu
      obtain ⟨t, pr, hv', ho⟩ := inv.hbOps q0 hq0 hpu
      exact ⟨t, pr, by rw [hv, hi]; exact hv', by rw [hi, hk, he]; exact ho⟩)
    (by
      intro q hq hpu
      obtain ⟨q0, hq0, _, hi, hpu0, hk, he, _, _⟩ := mem_markOp hq
      rw [hpu0] at hpu
      obtain ⟨y, hy, ht, r', hr', h1, h2⟩ := inv.tkOps q0 hq0 hpu
      exact ⟨y, by rw [hi]; exact hy, ht, r', by rw [hk]; exact hr', by rw [he]; exact h1, h2⟩)
    (by
      intro q hq rv ha hpu
      obtain ⟨q0, hq0, _, hi, hpu0, hk, _, hv, happ⟩ := mem_markOp hq
      rw [hpu0] at hpu
      rcases happ with happ | ⟨hid0, happ⟩
      · rw [happ] at ha
        obtain ⟨t, hv', ho⟩ := inv.appliedOk q0 hq0 rv ha hpu
        exact ⟨t, by rw [hv]; exact hv', by rw [hi, hk]; exact ho⟩
      · have : q0 = p := uq q0 hq0 p hp (by rw [hid0, hpid])
        subst this
        rw [happ] at ha
        rcases hr with hr | hr | hr
        · subst hr; cases ha
        · rw [hr] at hpu; simp at hpu
        · rw [hr] at hpu; simp at hpu)
  exact this

theorem inv_stepApply {s s' : State} (inv : Inv s) (uq : OpsUniq s) {op a} (h : stepApply s op a = .ok s') : Inv s' := by
  unfold stepApply at h
  split at h
  · cases h
  · rename_i p hp
    obtain ⟨hpm, hpid⟩ := op?_mem hp
    split at h
    · cases h
    cases a with
    | fail k => simp only at h; cases h; exact inv_markOp inv uq hpm hpid none (Or.inl rfl)
    | fault => simp only at h; cases h; exact inv_markOp inv uq hpm hpid none (Or.inl rfl)
    | dropped => simp only at h; cases h; exact inv_markOp inv uq hpm hpid none (Or.inl rfl)
    | ok rev =>
      simp only at h
      unfold stepApplyOk at h
      split at h
      · -- other
        rename_i hpu
        cases h
        exact inv_markOp inv uq hpm hpid (some rev) (Or.inr (Or.inl hpu))
      · -- create
        rename_i hpu
        split at h
        · cases h
        · rename_i hlive
          split at h
          · cases h
          · rename_i hrev
            simp only [ne_eq, Decidable.not_not] at hrev
            cases h
            obtain ⟨x, hx, hk, hv⟩ := inv.opInst p hpm (by rw [hpu]; simp)
            obtain ⟨tok, hval⟩ := hv (by rw [hpu]; simp)
            have hid := inv.idOK p.inst x hx
            apply inv_applyWrite inv uq hpm hpid hrev hx hk hval
            refine ⟨hk, ?_⟩
            dsimp only
            refine ⟨rfl, tok, _, rfl, ?_⟩
            simp only [hval, hid]
      · -- heartbeat
        rename_i hpu
        split at h
        · cases h
        · rename_i old hold
          split at h
          · cases h
          · rename_i hexp
            simp only [ne_eq, Decidable.not_not] at hexp
            split at h
            · cases h
            · rename_i hrev
              simp only [ne_eq, Decidable.not_not] at hrev
              cases h
              obtain ⟨x, hx, hk, hv⟩ := inv.opInst p hpm (by rw [hpu]; simp)
              obtain ⟨tok, hval⟩ := hv (by rw [hpu]; simp)
              have hid := inv.idOK p.inst x hx
              obtain ⟨tok', prio', hval', ⟨pr, how⟩⟩ := inv.hbOps p hpm hpu
              have htok : tok' = tok := by rw [hval] at hval'; cases hval'; rfl
              subst htok
              -- the live record at the presented revision is the own write
              have hlive := inv.liveHist p.key old hold
              have heq := inv.hist_eq_of_rev hlive how (by simp [hexp])
              apply inv_applyWrite inv uq hpm hpid hrev hx hk hval
              refine ⟨hk, ?_⟩
              dsimp only
              refine ⟨old, tok', pr, _, rfl, hexp, ?_, ?_, rfl, ?_⟩
              · rw [heq, hid]
              · rw [heq, hid]
              · simp only [hval, hid]
      · -- takeover
        rename_i hpu
        split at h
        · cases h
        · rename_i old hold
          split at h
          · cases h
          · rename_i hexp
            simp only [ne_eq, Decidable.not_not] at hexp
            split at h
            · cases h
            · rename_i hrev
              simp only [ne_eq, Decidable.not_not] at hrev
              cases h
              obtain ⟨x, hx, hk, hv⟩ := inv.opInst p hpm (by rw [hpu]; simp)
              obtain ⟨tok, hval⟩ := hv (by rw [hpu]; simp)
              have hid := inv.idOK p.inst x hx
              obtain ⟨x', hx', htk, r', hr', hr1, hr2⟩ := inv.tkOps p hpm hpu
              rw [hx] at hx'; cases hx'
              have hlive := inv.liveHist p.key old hold
              have heq := inv.hist_eq_of_rev hlive hr' (by rw [hexp, hr1])
              apply inv_applyWrite inv uq hpm hpid hrev hx hk hval
              refine ⟨hk, ?_⟩
              dsimp only
              refine ⟨old, tok, _, rfl, hexp, htk, ?_, rfl, ?_⟩
              · rw [heq]; exact hr2
              · simp only [hval, hid]
      · -- delete
        rename_i hpu
        split at h
        · cases h
        · rename_i hrev
          simp only [ne_eq, Decidable.not_not] at hrev
          cases h
          obtain ⟨x, hx, hk, _⟩ := inv.opInst p hpm (by rw [hpu]; simp)
          -- first the world change, then the mark
          let m : Mut := { who := p.inst, kind := .delete, key := p.key, exp := 0, before := s.store p.key, after := none }
          let s1 : State := { ((s.setKey p.key none).addMut m) with seq := rev }
          have sub : ∀ m' ∈ s.hist, m' ∈ s1.hist := fun m' hm' => List.mem_cons_of_mem _ hm'
          have inv1 : Inv s1 := by
            constructor
            · exact inv.idOK
            · intro m' hm' r' ha
              rcases List.mem_cons.mp hm' with rfl | hm'
              · cases ha
              · have := inv.revLe m' hm' r' ha
                show r'.rev ≤ rev
                omega
            · intro k r' hk'
              have : s1.store k = if k = p.key then none else s.store k := rfl
              rw [this] at hk'
              by_cases hkk : k = p.key
              · simp [hkk] at hk'
              · simp [hkk] at hk'; exact (inv.liveHist k r' hk').mono sub
            · intro m1 hm1 m2 hm2 r1 r2 h1 h2 hr
              rcases List.mem_cons.mp hm1 with rfl | hm1
              · cases h1
              · rcases List.mem_cons.mp hm2 with rfl | hm2
                · cases h2
                · exact inv.revUniq m1 hm1 m2 hm2 r1 r2 h1 h2 hr
            · intro i y t hy hl; exact (inv.leadOwn i y t hy hl).mono sub
            · intro i y t rv hy hm; exact (inv.ackOwn i y t rv hy hm).mono sub
            · intro i y rv v hy hm
              obtain ⟨r', hr', h1, h2⟩ := inv.seenHist i y rv v hy hm
              exact ⟨r', hr'.mono sub, h1, h2⟩
            · exact inv.opInst
            · intro q hq hpu'
              obtain ⟨t, pr, hv', ho⟩ := inv.hbOps q hq hpu'
              exact ⟨t, pr, hv', ho.mono sub⟩
            · intro q hq hpu'
              obtain ⟨y, hy, ht, r', hr', h1, h2⟩ := inv.tkOps q hq hpu'
              exact ⟨y, hy, ht, r', hr'.mono sub, h1, h2⟩
            · intro q hq rv ha hpu'
              obtain ⟨t, hv', ho⟩ := inv.appliedOk q hq rv ha hpu'
              exact ⟨t, hv', ho.mono sub⟩
            · intro m' hm' hw
              rcases List.mem_cons.mp hm' with rfl | hm'
              · exact ⟨x, hx, hk, trivial⟩
              · exact inv.histLegit m' hm' hw
          have uq1 : OpsUniq s1 := uq
          exact inv_markOp (s := s1) inv1 uq1 hpm hpid (some rev) (Or.inr (Or.inr hpu))

end NLE.Own

namespace NLE.Own
open State

/-- A change of the world that is not an instance's write (outside writer, expiry): key `key` now holds
    `newRec` (fresh revision `seq'` if any), recorded as mutation `m` by nobody. -/
theorem inv_worldChange {s : State} (inv : Inv s) (key : String) (newRec : Option Rec) (m : Mut) (seq' : Nat) (u : List Nat)
    (hafter : m.after = newRec) (hkey : m.key = key) (hwho : m.who = 0) (hseq : s.seq ≤ seq')
    (hnew : ∀ r, newRec = some r → r.rev = seq' ∧ s.seq < seq') :
    Inv { ((s.setKey key newRec).addMut m) with seq := seq', usedToks := u } := by
  have sub : ∀ m' ∈ s.hist, m' ∈ ({ ((s.setKey key newRec).addMut m) with seq := seq', usedToks := u } : State).hist :=
    fun m' hm' => List.mem_cons_of_mem _ hm'
  constructor
  · exact inv.idOK
  · intro m' hm' r' ha
    rcases List.mem_cons.mp hm' with rfl | hm'
    · rw [hafter] at ha
      have := (hnew r' ha).1
      show r'.rev ≤ seq'
      omega
    · have := inv.revLe m' hm' r' ha
      show r'.rev ≤ seq'
      omega
  · intro k r' hk'
    have : ({ ((s.setKey key newRec).addMut m) with seq := seq', usedToks := u } : State).store k = if k = key then newRec else s.store k := rfl
    rw [this] at hk'
    by_cases hkk : k = key
    · simp [hkk] at hk'
      exact ⟨m, List.mem_cons_self .., by rw [hkey, hkk], by rw [hafter, hk']⟩
    · simp [hkk] at hk'; exact (inv.liveHist k r' hk').mono sub
  · intro m1 hm1 m2 hm2 r1 r2 h1 h2 hr
    have e1 := List.mem_cons.mp hm1
    have e2 := List.mem_cons.mp hm2
    rcases e1 with e1 | e1
    · rcases e2 with e2 | e2
      · rw [e1] at h1; rw [e2] at h2; rw [h1] at h2; cases h2; exact ⟨rfl, by rw [e1, e2]⟩
      · rw [e1, hafter] at h1
        have := hnew r1 h1
        have := inv.revLe m2 e2 r2 h2
        omega
    · rcases e2 with e2 | e2
      · rw [e2, hafter] at h2
        have := hnew r2 h2
        have := inv.revLe m1 e1 r1 h1
        omega
      · exact inv.revUniq m1 e1 m2 e2 r1 r2 h1 h2 hr
  · intro i y t hy hl; exact (inv.leadOwn i y t hy hl).mono sub
  · intro i y t rv hy hm'; exact (inv.ackOwn i y t rv hy hm').mono sub
  · intro i y rv v hy hm'
    obtain ⟨r', hr', h1, h2⟩ := inv.seenHist i y rv v hy hm'
    exact ⟨r', hr'.mono sub, h1, h2⟩
  · exact inv.opInst
  · intro q hq hpu'
    obtain ⟨t, pr, hv', ho⟩ := inv.hbOps q hq hpu'
    exact ⟨t, pr, hv', ho.mono sub⟩
  · intro q hq hpu'
    obtain ⟨y, hy, ht, r', hr', h1, h2⟩ := inv.tkOps q hq hpu'
    exact ⟨y, hy, ht, r', hr'.mono sub, h1, h2⟩
  · intro q hq rv ha hpu'
    obtain ⟨t, hv', ho⟩ := inv.appliedOk q hq rv ha hpu'
    exact ⟨t, hv', ho.mono sub⟩
  · intro m' hm' hw
    rcases List.mem_cons.mp hm' with rfl | hm'
    · exact absurd hwho hw
    · exact inv.histLegit m' hm' hw

theorem inv_stepExpire {s s' : State} (inv : Inv s) {key rev} (h : stepExpire s key rev = .ok s') : Inv s' := by
  unfold stepExpire at h
  split at h
  · rename_i old hold
    split at h
    · cases h
      exact inv_worldChange inv key none _ s.seq s.usedToks rfl rfl rfl (Nat.le_refl _) (by intro r hr; cases hr)
    · cases h
  · cases h

theorem inv_stepExtPut {s s' : State} (inv : Inv s) {key rev val} (h : stepExtPut s key rev val = .ok s') : Inv s' := by
  unfold stepExtPut at h
  split at h
  · cases h
  · rename_i hrev
    simp only [ne_eq, Decidable.not_not] at hrev
    split at h
    · cases h
    cases h
    exact inv_worldChange inv key (some { val := val, rev := rev, writer := 0 }) _ rev _ rfl rfl rfl (by omega)
      (by intro r hr; cases hr; exact ⟨rfl, by omega⟩)

theorem inv_stepExtDelete {s s' : State} (inv : Inv s) {key rev} (h : stepExtDelete s key rev = .ok s') : Inv s' := by
  unfold stepExtDelete at h
  split at h
  · cases h
  · rename_i hrev
    simp only [ne_eq, Decidable.not_not] at hrev
    cases h
    exact inv_worldChange inv key none _ rev s.usedToks rfl rfl rfl (by omega) (by intro r hr; cases hr)

/-- Declaring a new instance. -/
theorem inv_addInst {s : State} (inv : Inv s) (c : InstCfg) (hfree : s.insts c.id = none) :
    Inv { s with insts := fun i => if i = c.id then some { cfg := c } else s.insts i } := by
  have look : ∀ j y, (if j = c.id then some ({ cfg := c } : Inst) else s.insts j) = some y →
      (j = c.id ∧ y = { cfg := c }) ∨ (j ≠ c.id ∧ s.insts j = some y) := by
    intro j y h
    by_cases hj : j = c.id
    · simp [hj] at h; exact Or.inl ⟨hj, h.symm⟩
    · simp [hj] at h; exact Or.inr ⟨hj, h⟩
  have keep : ∀ j y, s.insts j = some y → (if j = c.id then some ({ cfg := c } : Inst) else s.insts j) = some y := by
    intro j y h
    by_cases hj : j = c.id
    · subst hj; rw [hfree] at h; cases h
    · simp [hj, h]
  constructor
  · intro j y h
    rcases look j y h with ⟨rfl, rfl⟩ | ⟨_, h'⟩
    · rfl
    · exact inv.idOK j y h'
  · exact inv.revLe
  · exact inv.liveHist
  · exact inv.revUniq
  · intro j y t h hl
    rcases look j y h with ⟨rfl, rfl⟩ | ⟨_, h'⟩
    · simp at hl
    · exact inv.leadOwn j y t h' hl
  · intro j y t rv h hm
    rcases look j y h with ⟨rfl, rfl⟩ | ⟨_, h'⟩
    · simp at hm
    · exact inv.ackOwn j y t rv h' hm
  · intro j y rv v h hm
    rcases look j y h with ⟨rfl, rfl⟩ | ⟨_, h'⟩
    · simp at hm
    · exact inv.seenHist j y rv v h' hm
  · intro p hp hne
    obtain ⟨y, hy, hk, hv⟩ := inv.opInst p hp hne
    exact ⟨y, keep _ _ hy, hk, hv⟩
  · exact inv.hbOps
  · intro p hp hpu
    obtain ⟨y, hy, ht, rest⟩ := inv.tkOps p hp hpu
    exact ⟨y, keep _ _ hy, ht, rest⟩
  · exact inv.appliedOk
  · intro m hm hw
    obtain ⟨y, hy, hl⟩ := inv.histLegit m hm hw
    exact ⟨y, keep _ _ hy, hl⟩

/-- Replacing an instance by one with the same term, revision field and reads, and no new acknowledged writes. -/
theorem inv_setInst_book {s : State} (inv : Inv s) {i : Nat} {x x' : Inst} (hx : s.insts i = some x) (hcfg : x'.cfg = x.cfg)
    (hl : x'.lead = x.lead) (hr : x'.hbRev = x.hbRev) (ha : ∀ m, m ∈ x'.acked → m ∈ x.acked) (hs : x'.seen = x.seen) :
    Inv (s.setInst x') := by
  apply inv_setInst inv hx hcfg
  · intro t ht; rw [hr]; exact inv.leadOwn _ x t hx (by rw [← hl]; exact ht)
  · intro t r hm; exact inv.ackOwn _ x t r hx (ha _ hm)
  · intro r v hm; exact inv.seenHist _ x r v hx (by rw [← hs]; exact hm)

/-- Every step preserves the invariant. -/
theorem inv_step {s s' : State} (inv : Inv s) (uq : OpsUniq s) {e : TEv} (h : step s e = .ok s') : Inv s' := by
  unfold step at h
  split at h
  · -- inst
    rename_i c
    split at h
    · cases h
    · rename_i hfree
      cases h
      exact inv_addInst inv _ (by simpa using hfree)
  · exact inv_stepCall inv h
  · exact inv_stepApply inv uq h
  · exact inv_stepRet inv h
  · exact inv_stepExpire inv h
  · exact inv_stepExtPut inv h
  · exact inv_stepExtDelete inv h
  · exact inv_stepFlag inv h
  · -- api stopctx
    rename_i n i del _ _ _
    split at h
    · rename_i x hx
      split at h
      · cases h
        exact inv_setInst_book inv hx rfl rfl rfl (fun _ hm => hm) rfl
      · cases h
        exact inv_setInst_book inv hx rfl rfl rfl (fun _ hm => hm) rfl
    · cases h; exact inv
  · -- api stop
    split at h
    · rename_i x hx
      cases h
      exact inv_setInst_book inv hx rfl rfl rfl (fun _ hm => hm) rfl
    · cases h; exact inv
  · -- context cancelled
    split at h
    · rename_i x hx
      cases h
      exact inv_setInst_book inv hx rfl rfl rfl (fun _ hm => hm) rfl
    · cases h; exact inv
  · -- api start
    split at h
    · rename_i x hx
      cases h
      exact inv_setInst_book inv hx rfl rfl rfl (fun _ hm => hm) rfl
    · cases h; exact inv
  · -- api return
    split at h
    · rename_i x hx
      split at h
      · cases h
        exact inv_setInst_book inv hx rfl rfl rfl (fun _ hm => hm) rfl
      · split at h
        · cases h
          split
          · exact inv_setInst_book inv hx rfl rfl rfl (fun _ hm => hm) rfl
          · exact inv_setInst_book inv hx rfl rfl rfl (fun _ hm => hm) rfl
        · cases h; exact inv
    · cases h; exact inv
  · cases h; exact inv

end NLE.Own

namespace NLE.Own
open State

theorem uniq_of_ops_eq {s s' : State} (uq : OpsUniq s) (h : s'.ops = s.ops) : OpsUniq s' := by
  unfold OpsUniq; rw [h]; exact uq

theorem uniq_cons {s : State} (uq : OpsUniq s) (p : POp) (hfresh : ∀ q ∈ s.ops, q.id ≠ p.id) {s' : State}
    (h : s'.ops = p :: s.ops) : OpsUniq s' := by
  unfold OpsUniq; rw [h]
  intro a ha b hb hab
  have e1 := List.mem_cons.mp ha
  have e2 := List.mem_cons.mp hb
  rcases e1 with e1 | e1
  · rcases e2 with e2 | e2
    · rw [e1, e2]
    · rw [e1] at hab; exact absurd hab.symm (hfresh b e2)
  · rcases e2 with e2 | e2
    · rw [e2] at hab; exact absurd hab (hfresh a e1)
    · exact uq a e1 b e2 hab

theorem uniq_filter {s : State} (uq : OpsUniq s) (f : POp → Bool) {s' : State} (h : s'.ops = s.ops.filter f) : OpsUniq s' := by
  unfold OpsUniq; rw [h]
  intro a ha b hb hab
  exact uq a (List.mem_filter.mp ha).1 b (List.mem_filter.mp hb).1 hab

theorem uniq_stepCall {s s' : State} (uq : OpsUniq s) {t op i kind key exp val}
    (h : stepCall s t op i kind key exp val = .ok s') : OpsUniq s' := by
  unfold stepCall at h
  split at h
  · cases h
  · split at h
    · cases h
    · rename_i hfree
      have hfresh : ∀ q ∈ s.ops, q.id ≠ op := op?_none_not_mem (by simpa using hfree)
      split at h
      · cases h
      · cases kind <;> simp only at h
        · split at h
          · split at h
            · cases h
            · split at h
              · cases h
              · cases h; exact uniq_cons uq _ hfresh rfl
          · cases h
        · split at h
          · split at h
            · cases h
            · split at h
              · split at h
                · cases h; exact uniq_cons uq _ hfresh rfl
                · cases h
              · split at h
                · cases h
                · split at h
                  · cases h; exact uniq_cons uq _ hfresh rfl
                  · cases h
          · cases h
        · cases h; exact uniq_cons uq _ hfresh rfl
        · split at h
          · cases h; exact uniq_cons uq _ hfresh rfl
          · cases h
        · cases h; exact uniq_cons uq _ hfresh rfl

theorem uniq_stepApply {s s' : State} (uq : OpsUniq s) {op a} (h : stepApply s op a = .ok s') : OpsUniq s' := by
  unfold stepApply at h
  split at h
  · cases h
  · rename_i p _
    split at h
    · cases h
    cases a with
    | fail k => simp only at h; cases h; exact uniq_markOp uq op none
    | fault => simp only at h; cases h; exact uniq_markOp uq op none
    | dropped => simp only at h; cases h; exact uniq_markOp uq op none
    | ok rev =>
      simp only at h
      unfold stepApplyOk at h
      split at h
      · cases h; exact uniq_markOp uq op _
      · split at h
        · cases h
        · split at h
          · cases h
          · cases h; exact uniq_applyWrite uq op p rev _ _
      · split at h
        · cases h
        · split at h
          · cases h
          · split at h
            · cases h
            · cases h; exact uniq_applyWrite uq op p rev _ _
      · split at h
        · cases h
        · split at h
          · cases h
          · split at h
            · cases h
            · cases h; exact uniq_applyWrite uq op p rev _ _
      · split at h
        · cases h
        · cases h
          exact uniq_markOp (s := { ((s.setKey p.key none).addMut _) with seq := rev }) uq op _

theorem uniq_stepRet {s s' : State} (uq : OpsUniq s) {t op r} (h : stepRet s t op r = .ok s') : OpsUniq s' := by
  have base : OpsUniq (s.dropOp op) := uniq_filter uq _ rfl
  unfold stepRet at h
  split at h
  · cases h
  · simp only at h
    split at h
    · cases h; exact base
    · split at h
      · split at h
        · cases h
        · split at h <;> (cases h; exact base)
      · split at h
        · cases h
        · split at h <;> (cases h; exact base)
      · split at h
        · cases h
        · split at h <;> (cases h; exact base)
      · split at h
        · cases h; exact base
        · cases h
      · cases h; exact base

theorem uniq_step {s s' : State} (uq : OpsUniq s) {e : TEv} (h : step s e = .ok s') : OpsUniq s' := by
  unfold step at h
  split at h
  · split at h
    · cases h
    · cases h; exact uq
  · exact uniq_stepCall uq h
  · exact uniq_stepApply uq h
  · exact uniq_stepRet uq h
  · unfold stepExpire at h
    split at h
    · split at h
      · cases h; exact uq
      · cases h
    · cases h
  · unfold stepExtPut at h
    split at h
    · cases h
    · split at h
      · cases h
      · cases h; exact uq
  · unfold stepExtDelete at h
    split at h
    · cases h
    · cases h; exact uq
  · unfold stepFlag at h
    split at h
    · cases h; exact uq
    · split at h
      · split at h
        · cases h; exact uq
        · split at h
          · split at h
            · cases h
            · cases h; exact uq
          · cases h
      · cases h; exact uq
  · split at h
    · split at h <;> (cases h; exact uq)
    · cases h; exact uq
  · split at h <;> (cases h; exact uq)
  · split at h <;> (cases h; exact uq)
  · split at h <;> (cases h; exact uq)
  · split at h
    · split at h
      · cases h; exact uq
      · split at h
        · cases h; split <;> exact uq
        · cases h; exact uq
    · cases h; exact uq
  · cases h; exact uq

/-- Every state the model can reach satisfies the invariant. -/
theorem run_inv {s s' : State} (inv : Inv s) (uq : OpsUniq s) (evs : List TEv) (h : run s evs = .ok s') :
    Inv s' ∧ OpsUniq s' := by
  induction evs generalizing s with
  | nil => simp [run, pure, Except.pure] at h; subst h; exact ⟨inv, uq⟩
  | cons e es ih =>
    simp only [run, bind, Except.bind] at h
    split at h
    · cases h
    · rename_i s1 h1
      exact ih (inv_step inv uq h1) (uniq_step uq h1) h

theorem reachable_inv {s : State} {evs : List TEv} (h : run {} evs = .ok s) : Inv s :=
  (run_inv inv_init (by intro p hp; simp at hp) evs h).1

end NLE.Own
