import NLE.Model.Life
/-
  Invariants of the lifecycle model `Life`, per instance.
-/
namespace NLE.Life

def b2n (b : Bool) : Nat := if b then 1 else 0
def o2n {α} (o : Option α) : Nat := if o.isSome then 1 else 0

/-- Per-instance invariant. -/
structure LInv (x : Inst) : Prop where
  /-- outside critical sections the flag is raised exactly in state LEADER -/
  coherent : x.pendingFlag = none → x.stopPendingTrans = false → (x.flag = true ↔ x.state = 2)
  /-- inside the critical section of a promotion the flag is still down; in the one of a demotion the state already changed -/
  pendTrue : x.pendingFlag = some true → x.flag = false ∧ x.state = 2
  pendFalse : x.pendingFlag = some false → (x.state = 3 ∧ (x.running = true ∨ x.ctxCancelled = true)) ∨ x.state = 5
  /-- documented states only -/
  states : x.state = 0 ∨ x.state = 1 ∨ x.state = 2 ∨ x.state = 3 ∨ x.state = 5
  /-- callback bookkeeping: promotions started or owed = demotions started or owed + (flag raised) -/
  balance : x.callbacks = true → x.promotes + o2n x.promoOwed = x.demotes + x.demoteOwed + x.stopDemoteOwed + b2n x.flag
  noCb : x.callbacks = false → x.promoOwed = none ∧ x.demoteOwed = 0 ∧ x.stopDemoteOwed = 0
  /-- at most one demotion is owed, and none while the flag is raised -/
  atMostOne : x.demoteOwed + x.stopDemoteOwed + b2n x.flag ≤ 1
  /-- a raised flag (or a promotion in progress) needs a running election -/
  leadRunning : (x.flag = true ∨ x.pendingFlag = some true) → x.running = true ∨ x.stopPendingTrans = true ∨ x.pendingFlag = some false ∨ x.ctxCancelled = true
  /-- after a stop call's critical section, until the next Start: STOPPED and not leader -/
  stopped : x.everStopped = true → x.stopPendingTrans = false → x.pendingFlag = none → x.state = 5 ∧ x.flag = false
  stopNotRunning : x.everStopped = true → x.running = false
  pendingStop : x.stopPendingTrans = true → x.pendingFlag = none ∧ x.running = false ∧ x.stops ≠ []
  /-- while a promotion callback is owed, its term is either in progress or its demotion is owed -/
  owedTerm : x.promoOwed.isSome = true → x.demoteOwed + x.stopDemoteOwed + b2n x.flag = 1
  /-- a promotion context whose term is not over belongs to the term in progress -/
  ctxLive : ∀ c ∈ x.ctxs, c.termOver = false → x.flag = true ∧ x.termTok = c.tok
  /-- a run whose context was cancelled by the caller is neither running nor stopped by a stop call -/
  cancelled : x.ctxCancelled = true → x.everStopped = false ∧ x.running = false ∧ x.stopPendingTrans = false

theorem linv_init (id : Nat) (cb : Bool) : LInv { id := id, callbacks := cb } where
  coherent := by intro _ _; simp
  pendTrue := by intro h; simp at h
  pendFalse := by intro h; simp at h
  states := Or.inl rfl
  balance := by intro _; simp [o2n, b2n]
  noCb := by intro _; simp
  atMostOne := by simp [b2n]
  leadRunning := by intro h; simp at h
  stopped := by intro h; simp at h
  stopNotRunning := by intro h; simp at h
  pendingStop := by intro h; simp at h
  owedTerm := by intro h; simp at h
  ctxLive := by intro c hc; simp at hc
  cancelled := by intro h; simp at h



theorem clearFlag_inv {x : Inst} (inv : LInv x) (h : x.pendingFlag = some false ∨ (x.pendingFlag = none ∧ ¬ (x.flag = true ∧ (x.running = true ∨ x.ctxCancelled = true)))) :
    LInv (clearFlag x) := by
  obtain ⟨c1, c2, c3, c4, c5, c6, c7, c8, c9, c10, c11, c12, c13, c14⟩ := inv
  unfold clearFlag
  constructor
  case ctxLive =>
    intro c hc hto
    simp only at hc hto ⊢
    split at hc
    · simp only [List.mem_map] at hc
      obtain ⟨c0, _, rfl⟩ := hc
      simp at hto
    · rename_i hf
      have := c13 c hc hto
      exact absurd this.1 hf
  all_goals (
    cases hf : x.flag <;> cases hc : x.callbacks <;> by_cases hs : x.state = 5 <;>
      simp_all [b2n, o2n] <;> try omega)
  all_goals (rcases h with h | h <;> simp_all <;> try omega)
  all_goals (try (cases he : x.everStopped <;> cases hcc : x.ctxCancelled <;> cases hr : x.running <;> cases hsp : x.stopPendingTrans <;> simp_all <;> done))

theorem stepTrans_inv {x x' : Inst} {f t : Nat} (inv : LInv x) (h : stepTrans x f t = .ok x') : LInv x' := by
  obtain ⟨c1, c2, c3, c4, c5, c6, c7, c8, c9, c10, c11, c12, c13, c14⟩ := inv
  have hsp : (x.running = true ∨ x.ctxCancelled = true) → x.stopPendingTrans = false := by
    intro hh
    cases hs : x.stopPendingTrans with
    | false => rfl
    | true =>
      rcases hh with hh | hh
      · have := (c11 hs).2.1; rw [hh] at this; cases this
      · have := (c14 hh).2.2; rw [hs] at this; cases this
  unfold stepTrans at h
  repeat' split at h
  all_goals first
    | (cases h; done)
    | (cases h
       constructor <;> simp_all [b2n, o2n] <;> (try omega) <;>
         (try (cases he : x.everStopped <;> cases hcc : x.ctxCancelled <;> cases hr : x.running <;> cases hsp : x.stopPendingTrans <;> simp_all <;> done)))

theorem stepFlag_inv {x x' : Inst} {b il : Bool} {tok lid : Nat} (inv : LInv x) (h : stepFlag x b il tok lid = .ok x') : LInv x' := by
  unfold stepFlag at h
  split at h
  · cases h
  · split at h
    · rename_i want hw
      split at h
      · cases h
      · split at h
        · split at h
          · cases h
          · split at h
            · cases h
            · cases h
              obtain ⟨c1, c2, c3, c4, c5, c6, c7, c8, c9, c10, c11, c12, c13, c14⟩ := inv
              constructor
              case ctxLive =>
                intro c hc hto
                have := c13 c hc hto
                simp_all
              all_goals (cases hc : x.callbacks <;> simp_all [b2n, o2n] <;> try omega)
              all_goals (try (cases he : x.everStopped <;> cases hcc : x.ctxCancelled <;> cases hr : x.running <;> cases hsp : x.stopPendingTrans <;> simp_all <;> done))
        · cases h
          apply clearFlag_inv inv
          left
          simp_all
    · split at h
      · cases h
      · split at h
        · cases h
        · rename_i hn _ hg
          cases h
          exact clearFlag_inv inv (Or.inr ⟨hn, hg⟩)

theorem stepPromote_inv {x x' : Inst} {tok cid : Nat} {dn : Bool} (inv : LInv x) (h : stepPromote x tok cid dn = .ok x') : LInv x' := by
  obtain ⟨c1, c2, c3, c4, c5, c6, c7, c8, c9, c10, c11, c12, c13, c14⟩ := inv
  unfold stepPromote at h
  repeat' split at h
  all_goals first
    | (cases h; done)
    | (cases h
       constructor
       case ctxLive =>
         intro c hc hto
         simp only [List.mem_cons] at hc
         rcases hc with rfl | hc
         · simp at hto
           simp only
           exact ⟨hto.1.1.1, hto.1.1.2⟩
         · exact c13 c hc hto
       all_goals (cases hc : x.callbacks <;> simp_all [b2n, o2n] <;> try omega))

theorem stepDemote_inv {x x' : Inst} (inv : LInv x) (h : stepDemote x = .ok x') : LInv x' := by
  obtain ⟨c1, c2, c3, c4, c5, c6, c7, c8, c9, c10, c11, c12, c13, c14⟩ := inv
  unfold stepDemote at h
  repeat' split at h
  all_goals first
    | (cases h; done)
    | (cases h
       constructor <;> cases hc : x.callbacks <;> simp_all [b2n, o2n] <;> try omega)

theorem ctxs_map_inv {x : Inst} (inv : LInv x) (g : Ctx → Ctx) (hg : ∀ c, (g c).termOver = c.termOver ∧ (g c).tok = c.tok) :
    LInv { x with ctxs := x.ctxs.map g } := by
  obtain ⟨c1, c2, c3, c4, c5, c6, c7, c8, c9, c10, c11, c12, c13, c14⟩ := inv
  constructor
  case ctxLive =>
    intro c hc hto
    simp only [List.mem_map] at hc
    obtain ⟨c0, hc0, rfl⟩ := hc
    rw [(hg c0).1] at hto
    rw [(hg c0).2]
    exact c13 c0 hc0 hto
  all_goals assumption

theorem stepCtxDone_inv {x x' : Inst} {cid : Nat} (inv : LInv x) (h : stepCtxDone x cid = .ok x') : LInv x' := by
  unfold stepCtxDone at h
  split at h
  · split at h
    · cases h
      apply ctxs_map_inv inv
      intro c; split <;> simp
    · cases h
  · cases h

theorem stepInst_inv {x x' : Inst} {e : Ev} (inv : LInv x) (h : stepInst x e = .ok x') : LInv x' := by
  unfold stepInst at h
  split at h
  · exact stepTrans_inv inv h
  · exact stepFlag_inv inv h
  · exact stepPromote_inv inv h
  · cases h
    apply ctxs_map_inv inv
    intro c; split <;> simp
  · exact stepCtxDone_inv inv h
  · exact stepDemote_inv inv h
  · -- the term's duration is reported: a marker only
    cases h
    obtain ⟨c1, c2, c3, c4, c5, c6, c7, c8, c9, c10, c11, c12, c13, c14⟩ := inv
    exact ⟨c1, c2, c3, c4, c5, c6, c7, c8, c9, c10, c11, c12, c13, c14⟩
  · split at h
    · cases h
    · cases h; exact inv
  · cases h; exact inv

end NLE.Life

namespace NLE.Life

/-- A stop call begins (not refused): the election stops running; the call's critical section follows. -/
theorem stopBegin_inv {x : Inst} (inv : LInv x) (hp : x.pendingFlag = none) (n : Nat) :
    LInv { x with stops := { n := n, wasLeader := x.flag } :: x.stops, running := false, everStopped := true, stopPendingTrans := true, startFailed := false, ctxCancelled := false } := by
  obtain ⟨c1, c2, c3, c4, c5, c6, c7, c8, c9, c10, c11, c12, c13, c14⟩ := inv
  constructor
  case ctxLive => exact c13
  all_goals simp_all [b2n, o2n]

/-- A Start that failed half-way changes nothing the invariant speaks about. -/
theorem startFail_inv {x : Inst} (inv : LInv x) : LInv { x with ctxNil := false, startFailed := true } := by
  obtain ⟨c1, c2, c3, c4, c5, c6, c7, c8, c9, c10, c11, c12, c13, c14⟩ := inv
  exact ⟨c1, c2, c3, c4, c5, c6, c7, c8, c9, c10, c11, c12, c13, c14⟩

/-- The caller's context is cancelled: nothing runs any more; a raised flag is about to be cleared by `stepDown`. -/
theorem cancelCtx_inv {x : Inst} (inv : LInv x) (hp : x.pendingFlag = none) (hr : x.running = true) :
    LInv { x with running := false, ctxCancelled := true, ctxs := x.ctxs.map fun c => { c with termOver := true } } := by
  obtain ⟨c1, c2, c3, c4, c5, c6, c7, c8, c9, c10, c11, c12, c13, c14⟩ := inv
  have he : x.everStopped = false := by
    cases he : x.everStopped with
    | false => rfl
    | true => have := c10 he; rw [hr] at this; cases this
  have hs : x.stopPendingTrans = false := by
    cases hs : x.stopPendingTrans with
    | false => rfl
    | true => have := (c11 hs).2.1; rw [hr] at this; cases this
  constructor
  case ctxLive =>
    intro c hc hto
    simp only [List.mem_map] at hc
    obtain ⟨c0, _, rfl⟩ := hc
    simp at hto
  all_goals simp_all [b2n, o2n]

theorem startRet_inv {x : Inst} (inv : LInv x) (hf : x.flag = false) (hp : x.pendingFlag = none) (hs : x.stopPendingTrans = false) :
    LInv { x with running := true, everStopped := false, ctxNil := false, ctxCancelled := false, state := 1 } := by
  obtain ⟨c1, c2, c3, c4, c5, c6, c7, c8, c9, c10, c11, c12, c13, c14⟩ := inv
  constructor
  case ctxLive => exact c13
  all_goals simp_all [b2n, o2n]

theorem stopRet_inv {x : Inst} (inv : LInv x)
    (hs : x.stopPendingTrans = true → ∀ c : StopCall, x.stops.head? = some c → ¬ c.n = n) (d : Bool) :
    LInv { x with stops := x.stops.filter (·.n ≠ n), ctxNil := x.ctxNil || d } := by
  obtain ⟨c1, c2, c3, c4, c5, c6, c7, c8, c9, c10, c11, c12, c13, c14⟩ := inv
  constructor
  case ctxLive => exact c13
  case pendingStop =>
    intro hp
    simp only at hp
    obtain ⟨h1, h2, h3⟩ := c11 hp
    refine ⟨h1, h2, ?_⟩
    simp only
    cases hst : x.stops with
    | nil => exact absurd hst h3
    | cons c rest =>
      have hc := hs hp c (by simp [hst])
      simp [List.filter, hc]
  all_goals simp_all [b2n, o2n]

/-- A stop call that found the election already stopped (e.ctx == nil) did nothing. -/
theorem rollback_inv {x : Inst} (inv : LInv x) (h5 : x.state = 5) (hf : x.flag = false) (hp : x.pendingFlag = none) (n : Nat) :
    LInv { x with stops := x.stops.filter (·.n ≠ n), stopPendingTrans := false } := by
  obtain ⟨c1, c2, c3, c4, c5, c6, c7, c8, c9, c10, c11, c12, c13, c14⟩ := inv
  constructor
  case ctxLive => exact c13
  all_goals simp_all [b2n, o2n]

def SysInv (s : Sys) : Prop := ∀ x ∈ s.st.insts, LInv x

theorem get_mem {st : State} {i : Nat} {x : Inst} (h : st.get i = some x) : x ∈ st.insts :=
  List.mem_of_find?_eq_some h

theorem set_inv {st : State} (h : ∀ x ∈ st.insts, LInv x) {x' : Inst} (hx' : LInv x') : ∀ y ∈ (st.set x').insts, LInv y := by
  intro y hy
  simp only [State.set, List.mem_map] at hy
  obtain ⟨y0, hy0, rfl⟩ := hy
  split
  · exact hx'
  · exact h y0 hy0

theorem sys_init : SysInv {} := by intro x hx; simp at hx

theorem step_inv {s s' : Sys} {e : TEv} (inv : SysInv s) (h : step s e = .ok s') : SysInv s' := by
  unfold step at h
  split at h
  · cases h; exact inv
  · split at h
    · cases h; exact inv
    · -- inst
      cases h
      intro x hx
      simp only [List.mem_append, List.mem_singleton] at hx
      rcases hx with hx | rfl
      · exact inv x hx
      · exact linv_init _ _
    · -- api
      rename_i n i k
      split at h
      · cases h; exact inv
      · rename_i x hx
        have hxi := inv x (get_mem hx)
        split at h
        · cases h
        · rename_i hpf
          have hpn : x.pendingFlag = none := by
            cases hp : x.pendingFlag with
            | none => rfl
            | some _ => simp [hp] at hpf
          split at h
          · -- stop
            split at h
            · cases h; exact inv
            · cases h
              exact set_inv inv (stopBegin_inv hxi hpn _)
          · -- stopctx
            split at h
            · cases h; exact inv
            · cases h
              exact set_inv inv (stopBegin_inv hxi hpn _)
          · cases h; exact inv
    · -- the caller's context is cancelled
      split at h
      · cases h; exact inv
      · rename_i x hx
        have hxi := inv x (get_mem hx)
        split at h
        · cases h
        · rename_i hpf
          have hpn : x.pendingFlag = none := by
            cases hp : x.pendingFlag with
            | none => rfl
            | some _ => simp [hp] at hpf
          split at h
          · rename_i hr
            cases h
            exact set_inv inv (cancelCtx_inv hxi hpn hr)
          · cases h; exact inv
    · -- apiRet
      rename_i n i r
      split at h
      · rename_i k x hc hx
        have hxi := inv x (get_mem hx)
        simp only at h
        split at h
        · -- start ok
          split at h
          · cases h
          · split at h
            · cases h
            · rename_i hg
              simp only [not_or, Bool.not_eq_true] at hg
              cases h
              have hpn : x.pendingFlag = none := by
                cases hp : x.pendingFlag with
                | none => rfl
                | some _ => simp [hp] at hg
              exact set_inv inv (startRet_inv hxi (by simpa using hg.1) hpn (by simpa using hg.2.2))
        · -- start failed
          split at h
          · cases h; exact inv
          · cases h
            exact set_inv inv (startFail_inv hxi)
        · cases h; exact inv
        · -- stop returns
          split at h
          · split at h
            · rename_i hrb
              cases h
              exact set_inv inv (rollback_inv hxi hrb.2.2.1 hrb.2.2.2.1 hrb.2.2.2.2 _)
            · split at h
              · cases h
              · rename_i hg
                simp only [not_or, Bool.not_eq_true] at hg
                cases h
                exact set_inv inv (stopRet_inv hxi (by simpa using hg.2) _)
          · split at h
            · cases h; exact inv
            · cases h
        · split at h
          · split at h
            · rename_i hrb
              cases h
              exact set_inv inv (rollback_inv hxi hrb.2.2.1 hrb.2.2.2.1 hrb.2.2.2.2 _)
            · split at h
              · cases h
              · rename_i hg
                simp only [not_or, Bool.not_eq_true] at hg
                cases h
                exact set_inv inv (stopRet_inv hxi (by simpa using hg.2) _)
          · split at h
            · cases h; exact inv
            · cases h
        · cases h; exact inv
      · cases h; exact inv
    · -- per-instance events
      simp only at h
      split at h
      · cases h; exact inv
      · split at h
        · cases h; exact inv
        · rename_i x hx
          have hxi := inv x (get_mem hx)
          simp only [bind, Except.bind] at h
          split at h
          · cases h
          · rename_i x' hx'
            cases h
            exact set_inv inv (stepInst_inv hxi hx')

theorem run_inv {s s' : Sys} (inv : SysInv s) (evs : List TEv) (h : run s evs = .ok s') : SysInv s' := by
  induction evs generalizing s with
  | nil => simp [run, pure, Except.pure] at h; subst h; exact inv
  | cons e es ih =>
    simp only [run, bind, Except.bind] at h
    split at h
    · cases h
    · rename_i s1 h1
      exact ih (step_inv inv h1) h

end NLE.Life
