import NLE.Model.Prompt
namespace NLE.Prompt

/-- Latest instant by which the follower leads, from the state of the mechanism. -/
def dl (p : Par) (s : St) : Nat :=
  match s.att with
  | some a => a + 3 * p.L
  | none =>
    if s.pend then (if s.known then s.lastHb + p.W + 3 * p.L else s.lastHb + (p.H + p.L) + p.W + 3 * p.L)
    else (if s.known then s.lastHb + (p.H + p.L) + p.W + 3 * p.L else s.lastHb + 2 * (p.H + p.L) + p.W + 3 * p.L)

structure Inv (p : Par) (s : St) : Prop where
  hbLe : s.lastHb ≤ s.now
  hbDue : s.lead = false → s.now ≤ s.lastHb + p.H + p.L
  pendDue : s.lead = false → s.pend = true → s.now ≤ s.lastHb + p.W
  attOK : s.lead = false → ∀ a, s.att = some a → s.lastHb ≤ a ∧ a ≤ s.lastHb + p.W ∧ a ≤ s.now ∧ s.now ≤ a + 3 * p.L ∧ s.pend = false ∧ s.known = true
  clean : s.lead = false → s.att.isSome = true → s.dirty = false
  progress : s.lead = false → dl p s ≤ s.since + bound p

theorem inv_init (p : Par) (t0 hb : Nat) (pend known : Bool) (hhb : hb ≤ t0) (hdue : t0 ≤ hb + p.H + p.L)
    (hp : pend = true → t0 ≤ hb + p.W) : Inv p (init t0 hb pend known) where
  hbLe := hhb
  hbDue := fun _ => hdue
  pendDue := fun _ h => hp h
  attOK := by intro _ a h; simp [init] at h
  clean := by intro _ h; simp [init] at h
  progress := by
    intro _
    simp only [dl, init, bound]
    cases pend <;> cases known <;> simp <;> omega

theorem step_inv {p : Par} (hpar : p.W + 4 * p.L < p.H) {s s' : St} {a : Act} (inv : Inv p s) (h : step p s a = some s') : Inv p s' := by
  obtain ⟨i1, i2, i3, i4, i5, i6⟩ := inv
  cases a with
  | advance t =>
    simp only [step] at h
    split at h
    · rename_i hl
      cases h
      exact ⟨by simp only; omega, by intro h; simp [hl] at h, by intro h; simp [hl] at h, by intro h; simp [hl] at h,
             by intro h; simp [hl] at h, by intro h; simp [hl] at h⟩
    · rename_i hl
      have hl' : s.lead = false := by simpa using hl
      split at h
      · rename_i hc
        cases h
        simp only [canAdvance, Bool.and_eq_true, decide_eq_true_eq, Bool.or_eq_true, Bool.not_eq_true'] at hc
        obtain ⟨⟨⟨c1, c2⟩, c3⟩, c4⟩ := hc
        refine ⟨by simp only; omega, fun _ => c2, ?_, ?_, i5, i6⟩
        · intro _ hpnd
          rcases c3 with c3 | c3
          · simp only at hpnd; rw [c3] at hpnd; cases hpnd
          · exact c3
        · intro _ a ha
          obtain ⟨a1, a2, a3, a4, a5, a6⟩ := i4 hl' a ha
          have ha' : s.att = some a := ha
          rw [ha'] at c4
          simp only [decide_eq_true_eq] at c4
          exact ⟨a1, a2, by simp only; omega, c4, a5, a6⟩
      · cases h
  | hbApply =>
    simp only [step] at h
    split at h
    · cases h; exact ⟨i1, i2, i3, i4, i5, i6⟩
    · rename_i hl
      have hl' : s.lead = false := by simpa using hl
      split at h
      · rename_i hc
        cases h
        -- no attempt can be running, and no notification pending: they would have ended before H - L
        have hatt : s.att = none := by
          cases ha : s.att with
          | none => rfl
          | some a =>
            obtain ⟨_, a2, _, a4, _, _⟩ := i4 hl' a ha
            omega
        have hpend : s.pend = false := by
          cases hp : s.pend with
          | false => rfl
          | true => have := i3 hl' hp; omega
        refine ⟨Nat.le_refl _, fun _ => by simp only; omega, fun _ _ => by simp only; omega, ?_, ?_, ?_⟩
        · intro _ a ha; simp only at ha; rw [hatt] at ha; cases ha
        · intro _ ha; simp only at ha; rw [hatt] at ha; simp at ha
        · intro _
          have := i6 hl'
          have hdue := i2 hl'
          simp only [dl, hatt, hpend] at this ⊢
          simp only [Bool.false_eq_true, if_false, if_true] at this ⊢
          cases hk : s.known <;> simp [hk] at this ⊢ <;> omega
      · cases h
  | deliver =>
    simp only [step] at h
    split at h
    · cases h
    · rename_i hpnd
      have hpnd' : s.pend = true := by simpa using hpnd
      split at h
      · rename_i hk
        have hk' : s.known = false := by simpa using hk
        cases h
        refine ⟨i1, i2, fun _ hp => by simp at hp, ?_, i5, ?_⟩
        · intro hl a ha
          obtain ⟨_, _, _, _, a5, _⟩ := i4 hl a ha
          rw [hpnd'] at a5; cases a5
        · intro hl
          have := i6 hl
          have hatt : s.att = none := by
            cases ha : s.att with
            | none => rfl
            | some a => obtain ⟨_, _, _, _, a5, _⟩ := i4 hl a ha; rw [hpnd'] at a5; cases a5
          simp only [dl, hatt, hpnd', hk'] at this ⊢
          simpa using this
      · rename_i hk
        have hk' : s.known = true := by simpa using hk
        split at h
        · rename_i hatt
          cases h
          refine ⟨i1, i2, fun _ hp => by simp at hp, ?_, fun _ _ => rfl, ?_⟩
          · intro hl a ha
            simp only [Option.some.injEq] at ha
            subst ha
            have := i3 hl hpnd'
            exact ⟨i1, this, Nat.le_refl _, Nat.le_add_right _ _, rfl, hk'⟩
          · intro hl
            have := i6 hl
            have hd := i3 hl hpnd'
            simp only [dl, hatt, hpnd', hk'] at this ⊢
            simp only [if_true] at this
            omega
        · rename_i a hatt
          cases h
          by_cases hl : s.lead = true
          · refine ⟨i1, ?_, ?_, ?_, ?_, ?_⟩ <;> intro h' <;> simp [hl] at h'
          · -- impossible while not leading: an attempt runs only with no notification pending
            exfalso
            have hl' : s.lead = false := by simpa using hl
            obtain ⟨_, _, _, _, a5, _⟩ := i4 hl' a hatt
            rw [hpnd'] at a5; cases a5
  | attemptEnd =>
    simp only [step] at h
    split at h
    · rename_i a hatt
      cases h
      by_cases hl : s.lead = true
      · refine ⟨i1, ?_, ?_, ?_, ?_, ?_⟩ <;> intro h' <;> simp [hl] at h'
      · have hl' : s.lead = false := by simpa using hl
        have hd := i5 hl' (by rw [hatt]; rfl)
        refine ⟨i1, ?_, ?_, ?_, ?_, ?_⟩ <;> intro h' <;> simp [hl', hd] at h'
    · cases h

theorem run_inv {p : Par} (hpar : p.W + 4 * p.L < p.H) {s s' : St} (inv : Inv p s) (as : List Act) (h : run p s as = some s') : Inv p s' := by
  induction as generalizing s with
  | nil => simp [run] at h; subst h; exact inv
  | cons a as ih =>
    simp only [run] at h
    split at h
    · rename_i s1 h1; exact ih (step_inv hpar inv h1) h
    · cases h

/-- While the follower does not lead, the clock has not passed the deadline of the mechanism's current stage. -/
theorem now_le_dl {p : Par} {s : St} (inv : Inv p s) (hl : s.lead = false) : s.now ≤ dl p s := by
  obtain ⟨i1, i2, i3, i4, i5, i6⟩ := inv
  unfold dl
  cases ha : s.att with
  | some a => exact (i4 hl a ha).2.2.2.1
  | none =>
    have := i2 hl
    cases hp : s.pend <;> cases hk : s.known <;> simp
    · omega
    · omega
    · have := i3 hl hp; omega
    · have := i3 hl hp; omega

end NLE.Prompt
