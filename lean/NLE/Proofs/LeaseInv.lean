import NLE.Model.Lease
/-
  The lease invariant: every claimant's record is the live one and will be refreshed before it can expire.
-/
namespace NLE.Lease

structure LInv (s : State) : Prop where
  members : ∀ m ∈ s.members, validCfg m.2 s.ttl
  noMembers : s.members = [] → s.claims = []
  backed : ∀ c ∈ s.claims, ∃ a, s.record = some (c.inst, a) ∧ c.deadline = a + 2 * c.hb ∧ s.now ≤ c.deadline ∧ validCfg c.hb s.ttl

theorem inv_init : LInv {} := ⟨by intro m hm; simp at hm, fun _ => rfl, by intro c hc; simp at hc⟩

theorem hbOf_valid {s : State} (inv : LInv s) {i h : Nat} (hh : s.hbOf i = some h) : validCfg h s.ttl := by
  unfold State.hbOf at hh
  cases hf : s.members.find? (·.1 = i) with
  | none => simp [hf] at hh
  | some m =>
    simp [hf] at hh
    subst hh
    exact inv.members m (List.mem_of_find?_eq_some hf)

theorem advance_inv {s s' : State} {t : Nat} (inv : LInv s) (h : advance s t = .ok s') : LInv s' := by
  unfold advance at h
  split at h; · cases h
  split at h; · cases h
  rename_i hfind
  cases h
  refine ⟨inv.members, inv.noMembers, ?_⟩
  intro c hc
  obtain ⟨a, h1, h2, _, h4⟩ := inv.backed c hc
  refine ⟨a, h1, h2, ?_, h4⟩
  have := List.find?_eq_none.mp hfind c hc
  simpa using this

theorem no_claims_of_vacant {s : State} (inv : LInv s) (hrec : s.record = none) : s.claims = [] := by
  cases hc : s.claims with
  | nil => rfl
  | cons c cs =>
    obtain ⟨a, h1, _⟩ := inv.backed c (by rw [hc]; exact List.mem_cons_self ..)
    rw [hrec] at h1; cases h1

theorem applyCreate_inv {s s' : State} {j : Nat} (inv : LInv s) (h : applyCreate s j = .ok s') : LInv s' := by
  unfold applyCreate at h
  split at h; · cases h
  rename_i hrec
  cases h
  have hnone := no_claims_of_vacant inv hrec
  refine ⟨inv.members, fun _ => hnone, ?_⟩
  intro c hc; simp only at hc; rw [hnone] at hc; cases hc

theorem raise_inv {s s' : State} {j hb : Nat} (inv : LInv s) (hcfg : validCfg hb s.ttl) (hm : s.members ≠ []) (h : raise s j hb = .ok s') : LInv s' := by
  unfold raise at h
  split at h; · cases h
  rename_i a _
  split at h; · cases h
  rename_i hrec
  simp only [ne_eq, Decidable.not_not] at hrec
  split at h; · cases h
  rename_i hlate
  cases h
  refine ⟨inv.members, fun h0 => absurd h0 hm, ?_⟩
  intro c hc
  simp only [List.mem_cons, List.mem_filter] at hc
  rcases hc with rfl | ⟨hc, hne⟩
  · refine ⟨a, hrec, rfl, ?_, hcfg⟩
    show s.now ≤ a + 2 * hb
    omega
  · -- another claimant would own the live record, which is j's
    obtain ⟨a', h1, _⟩ := inv.backed c hc
    rw [hrec] at h1
    have := congrArg (fun o => o.map (·.1)) h1
    simp at this
    simp [this] at hne

theorem applyRefresh_inv {s s' : State} {i : Nat} (inv : LInv s) (h : applyRefresh s i = .ok s') : LInv s' := by
  unfold applyRefresh at h
  split at h
  · rename_i o a hrec
    split at h; · cases h
    rename_i ho
    simp only [ne_eq, Decidable.not_not] at ho
    cases h
    refine ⟨inv.members, fun h0 => by simp [inv.noMembers h0], ?_⟩
    intro c hc
    simp only [List.mem_map] at hc
    obtain ⟨c0, hc0, rfl⟩ := hc
    obtain ⟨a', h1, _, _, h4⟩ := inv.backed c0 hc0
    rw [hrec] at h1
    -- the only possible claimant is the owner of the live record: i
    have hoc : o = c0.inst := by
      have := congrArg (fun o => o.map (·.1)) h1
      simpa using this
    have : c0.inst = i := by rw [← hoc]; exact ho
    simp only [this, if_true]
    exact ⟨s.now, by rw [← this], rfl, by show s.now ≤ s.now + 2 * c0.hb; omega, h4⟩
  · cases h

theorem expire_inv {s s' : State} (inv : LInv s) (h : expire s = .ok s') : LInv s' := by
  unfold expire at h
  split at h
  · rename_i o a hrec
    split at h; · cases h
    rename_i hexp
    cases h
    -- a claimant's record cannot expire: now ≤ a + 2H < a + TTL
    have hnone : s.claims = [] := by
      cases hc : s.claims with
      | nil => rfl
      | cons c cs =>
        obtain ⟨a', h1, h2, h3, hpos, httl⟩ := inv.backed c (by rw [hc]; exact List.mem_cons_self ..)
        rw [hrec] at h1
        have : a = a' := by
          have := congrArg (fun o => o.map (·.2)) h1
          simpa using this
        subst this
        omega
    refine ⟨inv.members, fun _ => hnone, ?_⟩
    intro c hc; simp only at hc; rw [hnone] at hc; cases hc
  · cases h

theorem lower_inv {s : State} (i : Nat) (inv : LInv s) : LInv (lower s i) := by
  refine ⟨inv.members, fun h0 => by simp [lower, inv.noMembers h0], ?_⟩
  intro c hc
  simp only [lower, List.mem_filter] at hc
  exact inv.backed c hc.1

theorem applyDelete_inv {s s' : State} {i : Nat} (inv : LInv s) (h : applyDelete s i = .ok s') : LInv s' := by
  unfold applyDelete at h
  split at h; · cases h
  rename_i hnc
  split at h
  · rename_i o a hrec
    split at h; · cases h
    rename_i ho
    simp only [ne_eq, Decidable.not_not] at ho
    cases h
    have hnone : s.claims = [] := by
      cases hc : s.claims with
      | nil => rfl
      | cons c cs =>
        obtain ⟨a', h1, _⟩ := inv.backed c (by rw [hc]; exact List.mem_cons_self ..)
        rw [hrec] at h1
        have hoc : o = c.inst := by
          have := congrArg (fun o => o.map (·.1)) h1
          simpa using this
        exfalso; apply hnc
        simp [State.claims?, hc, ← hoc, ho]
    refine ⟨inv.members, fun _ => hnone, ?_⟩
    intro c hc; simp only at hc; rw [hnone] at hc; cases hc
  · cases h; exact inv

/-- Bookkeeping of pending operations does not touch the lease. -/
theorem ops_inv {s : State} (inv : LInv s) (ops : List (Nat × Nat × OpKind × Bool)) : LInv { s with ops := ops } :=
  ⟨inv.members, inv.noMembers, inv.backed⟩

theorem advance_fields {s s1 : State} {t : Nat} (hadv : advance s t = .ok s1) :
    s1.members = s.members ∧ s1.ttl = s.ttl ∧ s1.claims = s.claims ∧ s1.record = s.record := by
  unfold advance at hadv
  split at hadv; · cases hadv
  split at hadv; · cases hadv
  cases hadv; exact ⟨rfl, rfl, rfl, rfl⟩

theorem step_inv {s s' : State} {e : TEv} (inv : LInv s) (h : step s e = .ok s') : LInv s' := by
  unfold step at h
  split at h; · cases h; exact inv
  split at h
  · cases h; exact ⟨inv.members, inv.noMembers, inv.backed⟩
  · -- inst
    rename_i c
    split at h
    · rename_i hm
      split at h
      · rename_i hok
        cases h
        have hnone := inv.noMembers hm
        refine ⟨?_, fun _ => hnone, ?_⟩
        · intro m hm'; simp only [List.mem_singleton] at hm'; subst hm'; exact hok
        · intro c' hc'; simp only at hc'; rw [hnone] at hc'; cases hc'
      · cases h
    · split at h; · cases h; exact inv
      split at h
      · rename_i hok
        cases h
        refine ⟨?_, fun h0 => by simp at h0, inv.backed⟩
        intro m hm'
        simp only [List.mem_cons] at hm'
        rcases hm' with rfl | hm'
        · exact hok
        · exact inv.members m hm'
      · cases h
  · cases h; exact inv
  · -- every other event: time advances first
    simp only [bind, Except.bind] at h
    split at h; · cases h
    rename_i hmem
    split at h; · cases h
    rename_i s1 hadv
    have inv1 := advance_inv inv hadv
    have hmem1 : s1.members ≠ [] := by rw [(advance_fields hadv).1]; exact hmem
    split at h
    · split at h
      · cases h; exact inv1
      · cases h; exact ops_inv inv1 _
    · split at h
      · exact applyCreate_inv inv1 h
      · exact applyRefresh_inv inv1 h
      · exact applyDelete_inv inv1 h
      · cases h; exact inv1
    · cases h; exact ops_inv inv1 _
    · split at h
      · exact expire_inv inv1 h
      · cases h; exact inv1
    · split at h
      · cases h; exact inv1
      · rename_i hb hh
        split at h
        · split at h
          · cases h; exact inv1
          · exact raise_inv inv1 (hbOf_valid inv1 hh) hmem1 h
        · cases h; exact lower_inv _ inv1
    · cases h
    · cases h
    · cases h; exact inv1

theorem run_inv {s s' : State} (inv : LInv s) (evs : List TEv) (h : run s evs = .ok s') : LInv s' := by
  induction evs generalizing s with
  | nil => simp [run, pure, Except.pure] at h; subst h; exact inv
  | cons e es ih =>
    simp only [run, bind, Except.bind] at h
    split at h
    · cases h
    · rename_i s1 h1
      exact ih (step_inv inv h1) h

end NLE.Lease
