import NLE.Proofs.OwnInv
/-
  Token freshness in the ownership model (C05): every acquiring write publishes a token that occurs
  in no earlier version of any record.
-/
namespace NLE.Own
open State

def afterToks (m : Mut) : List Nat :=
  match m.after with
  | some r => valToks r.val
  | none => []

def histToks (s : State) : List Nat := s.hist.flatMap afterToks

def Acq (p : POp) : Prop := p.purpose = .create ∨ p.purpose = .takeover
def NotWritten (p : POp) : Prop := p.applied = none ∨ p.applied = some none

/-- Newest-first history: the token of every acquiring write (create, takeover) occurs in no older version. -/
def FreshHist : List Mut → Prop
  | [] => True
  | m :: post => FreshHist post ∧ ((m.kind = .create ∨ m.kind = .takeover) → ∀ t ∈ afterToks m, t ∉ post.flatMap afterToks)

structure TokInv (s : State) : Prop where
  histUsed : ∀ t ∈ histToks s, t ∈ s.usedToks
  acqUsed : ∀ p ∈ s.ops, Acq p → ∀ t, valTok p.val = some t → t ∈ s.usedToks
  acqFresh : ∀ p ∈ s.ops, Acq p → NotWritten p → ∀ t, valTok p.val = some t → t ∉ histToks s
  acqDistinct : ∀ p ∈ s.ops, ∀ q ∈ s.ops, Acq p → Acq q → ∀ t, valTok p.val = some t → valTok q.val = some t → p.id = q.id
  fresh : FreshHist s.hist

theorem tok_init : TokInv ({} : State) where
  histUsed := by intro t ht; simp [histToks] at ht
  acqUsed := by intro p hp; simp at hp
  acqFresh := by intro p hp; simp at hp
  acqDistinct := by intro p hp; simp at hp
  fresh := trivial

/-- The pending operations of `s'` are (possibly re-marked) operations of `s`. -/
def OpsRefine (ops' ops : List POp) : Prop :=
  ∀ p' ∈ ops', ∃ p ∈ ops, p'.id = p.id ∧ p'.purpose = p.purpose ∧ p'.val = p.val ∧ (NotWritten p' → NotWritten p)

theorem tok_refine {s s' : State} (ti : TokInv s) (hops : OpsRefine s'.ops s.ops) (hh : s'.hist = s.hist)
    (hu : s'.usedToks = s.usedToks) : TokInv s' := by
  have hht : histToks s' = histToks s := by unfold histToks; rw [hh]
  constructor
  · intro t ht; rw [hht] at ht; rw [hu]; exact ti.histUsed t ht
  · intro p' hp' ha t hv
    obtain ⟨p, hp, _, hpu, hval, _⟩ := hops p' hp'
    rw [hu]
    exact ti.acqUsed p hp (by unfold Acq at *; rw [← hpu]; exact ha) t (by rw [← hval]; exact hv)
  · intro p' hp' ha hn t hv
    obtain ⟨p, hp, _, hpu, hval, hnw⟩ := hops p' hp'
    rw [hht]
    exact ti.acqFresh p hp (by unfold Acq at *; rw [← hpu]; exact ha) (hnw hn) t (by rw [← hval]; exact hv)
  · intro p' hp' q' hq' ha hb t hv hw
    obtain ⟨p, hp, hid, hpu, hval, _⟩ := hops p' hp'
    obtain ⟨q, hq, hid2, hpu2, hval2, _⟩ := hops q' hq'
    rw [hid, hid2]
    exact ti.acqDistinct p hp q hq (by unfold Acq at *; rw [← hpu]; exact ha) (by unfold Acq at *; rw [← hpu2]; exact hb) t
      (by rw [← hval]; exact hv) (by rw [← hval2]; exact hw)
  · rw [hh]; exact ti.fresh

theorem refine_refl (ops : List POp) : OpsRefine ops ops :=
  fun p hp => ⟨p, hp, rfl, rfl, rfl, id⟩

theorem refine_filter (ops : List POp) (f : POp → Bool) : OpsRefine (ops.filter f) ops :=
  fun p hp => ⟨p, (List.mem_filter.mp hp).1, rfl, rfl, rfl, id⟩

/-- Re-marking operation `op` (which had not been applied) as `r`. -/
theorem refine_mark (ops : List POp) (op : Nat) (r : Option Nat)
    (hnone : ∀ p ∈ ops, p.id = op → p.applied = none) :
    OpsRefine (ops.map fun q => if q.id = op then { q with applied := some r } else q) ops := by
  intro p' hp'
  obtain ⟨q, hq, rfl⟩ := List.mem_map.mp hp'
  refine ⟨q, hq, ?_⟩
  by_cases h : q.id = op
  · rw [if_pos h]
    exact ⟨rfl, rfl, rfl, fun _ => Or.inl (hnone q hq h)⟩
  · rw [if_neg h]
    exact ⟨rfl, rfl, rfl, id⟩

/-- Adding a pending operation that is not an acquiring write. -/
theorem tok_add_plain {s s' : State} (ti : TokInv s) (p : POp) (hp : ¬ Acq p) (hops : s'.ops = p :: s.ops)
    (hh : s'.hist = s.hist) (hu : s'.usedToks = s.usedToks) : TokInv s' := by
  have hht : histToks s' = histToks s := by unfold histToks; rw [hh]
  constructor
  · intro t ht; rw [hht] at ht; rw [hu]; exact ti.histUsed t ht
  · intro q hq ha t hv
    rw [hops] at hq
    rcases List.mem_cons.mp hq with rfl | hq
    · exact absurd ha hp
    · rw [hu]; exact ti.acqUsed q hq ha t hv
  · intro q hq ha hn t hv
    rw [hops] at hq
    rcases List.mem_cons.mp hq with rfl | hq
    · exact absurd ha hp
    · rw [hht]; exact ti.acqFresh q hq ha hn t hv
  · intro a ha b hb h1 h2 t hv hw
    rw [hops] at ha hb
    rcases List.mem_cons.mp ha with rfl | ha
    · exact absurd h1 hp
    · rcases List.mem_cons.mp hb with rfl | hb
      · exact absurd h2 hp
      · exact ti.acqDistinct a ha b hb h1 h2 t hv hw
  · rw [hh]; exact ti.fresh

/-- Adding a pending acquiring write with a token that has never been used. -/
theorem tok_add_acq {s s' : State} (ti : TokInv s) (p : POp) (tok : Nat) (hv : valTok p.val = some tok)
    (hfresh : tok ∉ s.usedToks) (hops : s'.ops = p :: s.ops) (hh : s'.hist = s.hist)
    (hu : s'.usedToks = tok :: s.usedToks) : TokInv s' := by
  have hht : histToks s' = histToks s := by unfold histToks; rw [hh]
  constructor
  · intro t ht; rw [hht] at ht; rw [hu]; exact List.mem_cons_of_mem _ (ti.histUsed t ht)
  · intro q hq ha t hvq
    rw [hops] at hq; rw [hu]
    rcases List.mem_cons.mp hq with rfl | hq
    · rw [hv] at hvq; cases hvq; exact List.mem_cons_self ..
    · exact List.mem_cons_of_mem _ (ti.acqUsed q hq ha t hvq)
  · intro q hq ha hn t hvq
    rw [hops] at hq; rw [hht]
    rcases List.mem_cons.mp hq with rfl | hq
    · rw [hv] at hvq; cases hvq
      intro hmem; exact hfresh (ti.histUsed _ hmem)
    · exact ti.acqFresh q hq ha hn t hvq
  · intro a ha b hb h1 h2 t hva hvb
    rw [hops] at ha hb
    have e1 := List.mem_cons.mp ha
    have e2 := List.mem_cons.mp hb
    rcases e1 with e1 | e1
    · rcases e2 with e2 | e2
      · rw [e1, e2]
      · rw [e1, hv] at hva; cases hva
        exact absurd (ti.acqUsed b e2 h2 _ hvb) hfresh
    · rcases e2 with e2 | e2
      · rw [e2, hv] at hvb; cases hvb
        exact absurd (ti.acqUsed a e1 h1 _ hva) hfresh
      · exact ti.acqDistinct a e1 b e2 h1 h2 t hva hvb
  · rw [hh]; exact ti.fresh

/-- A change of the world whose new version carries no tokens that matter (deletion, expiry). -/
theorem tok_world_none {s s' : State} (ti : TokInv s) (m : Mut) (hm : m.after = none) (hops : s'.ops = s.ops)
    (hh : s'.hist = m :: s.hist) (hu : s'.usedToks = s.usedToks) : TokInv s' := by
  have hat : afterToks m = [] := by simp [afterToks, hm]
  have hht : histToks s' = histToks s := by unfold histToks; rw [hh]; simp [hat]
  constructor
  · intro t ht; rw [hht] at ht; rw [hu]; exact ti.histUsed t ht
  · intro q hq ha t hvq; rw [hops] at hq; rw [hu]; exact ti.acqUsed q hq ha t hvq
  · intro q hq ha hn t hvq; rw [hops] at hq; rw [hht]; exact ti.acqFresh q hq ha hn t hvq
  · intro a ha b hb; rw [hops] at ha hb; exact ti.acqDistinct a ha b hb
  · rw [hh]
    refine ⟨ti.fresh, ?_⟩
    intro _ t ht; rw [hat] at ht; cases ht

theorem valToks_own (i t : Nat) (p : Int) : valToks (.own i t p) = [t] := rfl

theorem valTok_some_own {v : Val} {t : Nat} (h : valTok v = some t) : ∃ i p, v = .own i t p := by
  cases v with
  | own i t' p => simp [valTok] at h; subst h; exact ⟨i, p, rfl⟩
  | raw _ => simp [valTok] at h
  | empty => simp [valTok] at h

end NLE.Own

namespace NLE.Own
open State

theorem applyWrite_hist (s : State) (op : Nat) (p : POp) (rev : Nat) (kind : MKind) (before : Option Rec) :
    (applyWrite s op p rev kind before).hist =
      { who := p.inst, kind := kind, key := p.key, exp := p.exp, before := before,
        after := some { val := p.val, rev := rev, writer := p.inst } } :: s.hist := rfl
theorem applyWrite_used (s : State) (op : Nat) (p : POp) (rev : Nat) (kind : MKind) (before : Option Rec) :
    (applyWrite s op p rev kind before).usedToks = valToks p.val ++ s.usedToks := rfl
theorem applyWrite_ops (s : State) (op : Nat) (p : POp) (rev : Nat) (kind : MKind) (before : Option Rec) :
    (applyWrite s op p rev kind before).ops = s.ops.map fun q => if q.id = op then { q with applied := some (some rev) } else q := rfl

/-- An instance's write is applied: token bookkeeping. -/
theorem tok_applyWrite {s : State} (ti : TokInv s) {op : Nat} {p : POp} (hp : p ∈ s.ops) (hpid : p.id = op)
    (hnone : p.applied = none) {tok : Nat} {i : Nat} {prio : Int} (hval : p.val = .own i tok prio)
    {rev : Nat} {kind : MKind} {before : Option Rec}
    (hk : (kind = .create ∨ kind = .takeover) → Acq p)
    (hhb : ¬ Acq p → tok ∈ histToks s) :
    TokInv (applyWrite s op p rev kind before) := by
  have hvt : valTok p.val = some tok := by rw [hval]; rfl
  have hvts : valToks p.val = [tok] := by rw [hval]; rfl
  have hhist := applyWrite_hist s op p rev kind before
  have hused := applyWrite_used s op p rev kind before
  have hops := applyWrite_ops s op p rev kind before
  have hht : histToks (applyWrite s op p rev kind before) = tok :: histToks s := by
    unfold histToks; rw [hhist]; simp [afterToks, hvts]
  -- each new op comes from an old one
  have from_old : ∀ q' ∈ (applyWrite s op p rev kind before).ops, ∃ q ∈ s.ops,
      q'.id = q.id ∧ q'.purpose = q.purpose ∧ q'.val = q.val ∧ (q.id = op → q'.applied = some (some rev)) ∧ (q.id ≠ op → q' = q) := by
    intro q' hq'
    rw [hops] at hq'
    obtain ⟨q, hq, rfl⟩ := List.mem_map.mp hq'
    refine ⟨q, hq, ?_⟩
    by_cases h : q.id = op
    · rw [if_pos h]; exact ⟨rfl, rfl, rfl, fun _ => rfl, fun h' => absurd h h'⟩
    · rw [if_neg h]; exact ⟨rfl, rfl, rfl, fun h' => absurd h' h, fun _ => rfl⟩
  constructor
  · intro t ht
    rw [hht] at ht; rw [hused, hvts]
    rcases List.mem_cons.mp ht with rfl | ht
    · simp
    · simp [ti.histUsed t ht]
  · intro q' hq' ha t hv
    obtain ⟨q, hq, _, hpu, hv', _, _⟩ := from_old q' hq'
    rw [hused]
    exact List.mem_append_right _ (ti.acqUsed q hq (by unfold Acq at *; rw [← hpu]; exact ha) t (by rw [← hv']; exact hv))
  · intro q' hq' ha hn t hv
    obtain ⟨q, hq, _, hpu, hv', hmark, hsame⟩ := from_old q' hq'
    have haq : Acq q := by unfold Acq at *; rw [← hpu]; exact ha
    have hvq : valTok q.val = some t := by rw [← hv']; exact hv
    by_cases hid : q.id = op
    · -- the operation just applied is no longer "not written"
      have := hmark hid
      rcases hn with hn | hn <;> rw [this] at hn <;> cases hn
    · have hqq := hsame hid
      subst hqq
      rw [hht]
      intro hmem
      rcases List.mem_cons.mp hmem with rfl | hmem
      · -- same token as the applied write
        by_cases hap : Acq p
        · have := ti.acqDistinct p hp q' hq hap haq t hvt hvq
          exact hid (by rw [← this, hpid])
        · exact ti.acqFresh q' hq haq hn t hvq (hhb hap)
      · exact ti.acqFresh q' hq haq hn t hvq hmem
  · intro a' ha' b' hb' h1 h2 t hva hvb
    obtain ⟨a, ha, hida, hpua, hvala, _, _⟩ := from_old a' ha'
    obtain ⟨b, hb, hidb, hpub, hvalb, _, _⟩ := from_old b' hb'
    rw [hida, hidb]
    exact ti.acqDistinct a ha b hb (by unfold Acq at *; rw [← hpua]; exact h1) (by unfold Acq at *; rw [← hpub]; exact h2) t
      (by rw [← hvala]; exact hva) (by rw [← hvalb]; exact hvb)
  · rw [hhist]
    refine ⟨ti.fresh, ?_⟩
    intro hkind t ht
    simp only [afterToks, hvts, List.mem_singleton] at ht
    subst ht
    exact ti.acqFresh p hp (hk hkind) (Or.inl hnone) _ hvt

/-- An outside writer publishes a value (whose tokens are not unpublished tokens of any instance). -/
theorem tok_extPut {s s' : State} (ti : TokInv s) (m : Mut) (v : Val) (r : Rec) (hm : m.after = some r) (hr : r.val = v)
    (hkind : m.kind = .ext) (hdisj : ∀ t ∈ valToks v, t ∉ unpublishedToks s)
    (hops : s'.ops = s.ops) (hh : s'.hist = m :: s.hist) (hu : s'.usedToks = valToks v ++ s.usedToks) : TokInv s' := by
  have hat : afterToks m = valToks v := by simp [afterToks, hm, hr]
  have hht : histToks s' = valToks v ++ histToks s := by unfold histToks; rw [hh]; simp [hat]
  constructor
  · intro t ht
    rw [hht] at ht; rw [hu]
    rcases List.mem_append.mp ht with ht | ht
    · exact List.mem_append_left _ ht
    · exact List.mem_append_right _ (ti.histUsed t ht)
  · intro q hq ha t hv; rw [hops] at hq; rw [hu]; exact List.mem_append_right _ (ti.acqUsed q hq ha t hv)
  · intro q hq ha hn t hv
    rw [hops] at hq; rw [hht]
    intro hmem
    rcases List.mem_append.mp hmem with hmem | hmem
    · apply hdisj t hmem
      unfold unpublishedToks
      rw [List.mem_filterMap]
      refine ⟨q, hq, ?_⟩
      have : (q.purpose = .create ∨ q.purpose = .takeover) ∧ (q.applied = none ∨ q.applied = some none) := ⟨ha, hn⟩
      rw [if_pos this]; exact hv
    · exact ti.acqFresh q hq ha hn t hv hmem
  · intro a ha b hb; rw [hops] at ha hb; exact ti.acqDistinct a ha b hb
  · rw [hh]
    refine ⟨ti.fresh, ?_⟩
    intro hk; rw [hkind] at hk; rcases hk with hk | hk <;> cases hk

end NLE.Own

namespace NLE.Own
open State

theorem ownWrite_tok_mem {s : State} {i key rev tok} (h : OwnWrite s i key rev tok) : tok ∈ histToks s := by
  obtain ⟨prio, m, hm, _, ha⟩ := h
  unfold histToks
  rw [List.mem_flatMap]
  exact ⟨m, hm, by simp [afterToks, ha, valToks]⟩

theorem tok_stepCall {s s' : State} (ti : TokInv s) {t op i kind key exp val}
    (h : stepCall s t op i kind key exp val = .ok s') : TokInv s' := by
  unfold stepCall at h
  split at h
  · cases h
  · split at h
    · cases h
    · split at h
      · cases h
      · cases kind <;> simp only at h
        · split at h
          · split at h
            · cases h
            · split at h
              · cases h
              · rename_i tok _ _ hfresh
                simp only [not_or, Bool.not_eq_true] at hfresh
                cases h
                exact tok_add_acq ti _ tok rfl (by simpa using hfresh.2) rfl rfl rfl
          · cases h
        · split at h
          · split at h
            · cases h
            · split at h
              · split at h
                · cases h
                  exact tok_add_plain ti _ (by unfold Acq; simp) rfl rfl rfl
                · cases h
              · split at h
                · cases h
                · split at h
                  · rename_i tok _ _ _ _ hg
                    cases h
                    exact tok_add_acq ti _ tok rfl (by simpa using hg.2.1) rfl rfl rfl
                  · cases h
          · cases h
        · cases h; exact tok_add_plain ti _ (by unfold Acq; simp) rfl rfl rfl
        · split at h
          · cases h; exact tok_add_plain ti _ (by unfold Acq; simp) rfl rfl rfl
          · cases h
        · cases h; exact tok_add_plain ti _ (by unfold Acq; simp) rfl rfl rfl

theorem tok_stepApply {s s' : State} (inv : Inv s) (uq : OpsUniq s) (ti : TokInv s) {op a}
    (h : stepApply s op a = .ok s') : TokInv s' := by
  unfold stepApply at h
  split at h
  · cases h
  · rename_i p hp
    obtain ⟨hpm, hpid⟩ := op?_mem hp
    split at h
    · cases h
    · rename_i hna
      have hnone : p.applied = none := by
        cases hpa : p.applied with
        | none => rfl
        | some _ => simp [hpa] at hna
      have hnone' : ∀ q ∈ s.ops, q.id = op → q.applied = none := by
        intro q hq hid
        have := uq q hq p hpm (by rw [hid, hpid])
        rw [this]; exact hnone
      have markCase : ∀ r, TokInv (s.markOp op r) := fun r =>
        tok_refine ti (refine_mark s.ops op r hnone') rfl rfl
      cases a with
      | fail k => simp only at h; cases h; exact markCase none
      | fault => simp only at h; cases h; exact markCase none
      | dropped => simp only at h; cases h; exact markCase none
      | ok rev =>
        simp only at h
        unfold stepApplyOk at h
        split at h
        · cases h; exact markCase _
        · -- create
          rename_i hpu
          split at h
          · cases h
          · split at h
            · cases h
            · cases h
              obtain ⟨x, _, _, hv⟩ := inv.opInst p hpm (by rw [hpu]; simp)
              obtain ⟨tok, hval⟩ := hv (by rw [hpu]; simp)
              exact tok_applyWrite ti hpm hpid hnone hval (fun _ => Or.inl hpu) (fun hna => absurd (Or.inl hpu) hna)
        · -- heartbeat
          rename_i hpu
          split at h
          · cases h
          · split at h
            · cases h
            · split at h
              · cases h
              · cases h
                obtain ⟨tok, prio, hval, how⟩ := inv.hbOps p hpm hpu
                exact tok_applyWrite ti hpm hpid hnone hval
                  (by intro hk; rcases hk with hk | hk <;> cases hk) (fun _ => ownWrite_tok_mem how)
        · -- takeover
          rename_i hpu
          split at h
          · cases h
          · split at h
            · cases h
            · split at h
              · cases h
              · cases h
                obtain ⟨x, _, _, hv⟩ := inv.opInst p hpm (by rw [hpu]; simp)
                obtain ⟨tok, hval⟩ := hv (by rw [hpu]; simp)
                exact tok_applyWrite ti hpm hpid hnone hval (fun _ => Or.inr hpu) (fun hna => absurd (Or.inr hpu) hna)
        · -- delete
          split at h
          · cases h
          · cases h
            have t1 : TokInv ({ ((s.setKey p.key none).addMut { who := p.inst, kind := .delete, key := p.key, exp := 0, before := s.store p.key, after := none }) with seq := rev } : State) :=
              tok_world_none ti _ rfl rfl rfl rfl
            exact tok_refine t1 (refine_mark s.ops op _ hnone') rfl rfl

theorem tok_stepRet {s s' : State} (ti : TokInv s) {t op r} (h : stepRet s t op r = .ok s') : TokInv s' := by
  have base : TokInv (s.dropOp op) := tok_refine ti (refine_filter s.ops _) rfl rfl
  have viaInst : ∀ x : Inst, TokInv ((s.dropOp op).setInst x) := fun x => tok_refine base (refine_refl _) rfl rfl
  unfold stepRet at h
  split at h
  · cases h
  · simp only at h
    split at h
    · cases h; exact base
    · split at h
      · split at h
        · cases h
        · split at h
          · cases h; exact viaInst _
          · cases h; exact base
      · split at h
        · cases h
        · split at h
          · cases h; exact viaInst _
          · cases h; exact base
      · split at h
        · cases h
        · split at h
          · cases h; exact viaInst _
          · cases h; exact base
      · split at h
        · cases h; exact viaInst _
        · cases h
      · cases h; exact base

theorem tok_step {s s' : State} (inv : Inv s) (uq : OpsUniq s) (ti : TokInv s) {e : TEv} (h : step s e = .ok s') : TokInv s' := by
  unfold step at h
  split at h
  · split at h
    · cases h
    · cases h; exact tok_refine ti (refine_refl _) rfl rfl
  · exact tok_stepCall ti h
  · exact tok_stepApply inv uq ti h
  · exact tok_stepRet ti h
  · unfold stepExpire at h
    split at h
    · split at h
      · cases h; exact tok_world_none ti _ rfl rfl rfl rfl
      · cases h
    · cases h
  · unfold stepExtPut at h
    split at h
    · cases h
    · split at h
      · cases h
      · rename_i hg
        cases h
        refine tok_extPut ti _ _ _ rfl rfl rfl ?_ rfl rfl rfl
        intro t ht hmem
        apply hg
        rw [List.any_eq_true]
        exact ⟨t, ht, by simpa using hmem⟩
  · unfold stepExtDelete at h
    split at h
    · cases h
    · cases h; exact tok_world_none ti _ rfl rfl rfl rfl
  · unfold stepFlag at h
    split at h
    · cases h; exact ti
    · split at h
      · split at h
        · cases h; exact ti
        · split at h
          · split at h
            · cases h
            · cases h; exact tok_refine ti (refine_refl _) rfl rfl
          · cases h
      · cases h; exact tok_refine ti (refine_refl _) rfl rfl
  · split at h
    · split at h <;> (cases h; exact tok_refine ti (refine_refl _) rfl rfl)
    · cases h; exact ti
  · split at h <;> (cases h; first | exact ti | exact tok_refine ti (refine_refl _) rfl rfl)
  · split at h <;> (cases h; first | exact ti | exact tok_refine ti (refine_refl _) rfl rfl)
  · split at h <;> (cases h; first | exact ti | exact tok_refine ti (refine_refl _) rfl rfl)
  · split at h
    · split at h
      · cases h; exact tok_refine ti (refine_refl _) rfl rfl
      · split at h
        · cases h; split <;> exact tok_refine ti (refine_refl _) rfl rfl
        · cases h; exact ti
    · cases h; exact ti
  · cases h; exact ti

theorem run_tok {s s' : State} (inv : Inv s) (uq : OpsUniq s) (ti : TokInv s) (evs : List TEv) (h : run s evs = .ok s') :
    TokInv s' := by
  induction evs generalizing s with
  | nil => simp [run, pure, Except.pure] at h; subst h; exact ti
  | cons e es ih =>
    simp only [run, bind, Except.bind] at h
    split at h
    · cases h
    · rename_i s1 h1
      exact ih (inv_step inv uq h1) (uniq_step uq h1) (tok_step inv uq ti h1) h

theorem reachable_tok {s : State} {evs : List TEv} (h : run {} evs = .ok s) : TokInv s :=
  run_tok inv_init (by intro p hp; simp at hp) tok_init evs h

end NLE.Own
