import NLE.Model.Vac
/-
  Invariant of the vacancy model: while the key is vacant some obligation of the candidate is pending whose deadline
  chain ends within the bound.
-/
namespace NLE.Vac

def ChkTimes (p : Par) (now lastCheck : Nat) : Chk → Prop
  | .idle => now ≤ lastCheck + p.P + p.L
  | .flying c => c ≤ now ∧ now ≤ c + p.L
  | .seen c _ => c ≤ now ∧ now ≤ c + p.L

def ChkW (p : Par) (lastCheck v : Nat) : Chk → Prop
  | .idle => lastCheck ≤ v
  | .flying c => c ≤ v + p.P + p.L
  | .seen c true => c ≤ v + p.P + p.L
  | .seen c false => c ≤ v

/-- Some pending obligation will end the vacancy that began at `v` in time. -/
def W (p : Par) (s : St) (v : Nat) : Prop :=
  (∃ c ∈ s.crts, c ≤ v + p.P + p.J + 2 * p.L + p.B) ∨ (∃ r ∈ s.owed, r ≤ v + p.P + 2 * p.L) ∨ ChkW p s.lastCheck v s.chk

structure Inv (p : Par) (s : St) : Prop where
  owedLe : ∀ r ∈ s.owed, r ≤ s.now ∧ s.now ≤ r + p.J + p.B
  crtsLe : ∀ c ∈ s.crts, c ≤ s.now ∧ s.now ≤ c + p.L
  lastLe : s.lastCheck ≤ s.now
  chkOK : ChkTimes p s.now s.lastCheck s.chk
  vacLe : ∀ v, s.vacant = some v → v ≤ s.now
  progress : ∀ v, s.vacant = some v → W p s v

theorem inv_init (p : Par) (t0 : Nat) (vacant : Bool) : Inv p (init t0 vacant) where
  owedLe := by intro r hr; simp [init] at hr
  crtsLe := by intro r hr; simp [init] at hr
  lastLe := by simp [init]
  chkOK := by simp [init, ChkTimes]; omega
  vacLe := by intro v hv; cases vacant <;> simp [init] at hv ⊢; omega
  progress := by
    intro v hv
    cases vacant <;> simp [init] at hv
    subst hv
    exact Or.inr (Or.inr (by simp [init, ChkW]))

theorem step_inv {p : Par} {s s' : St} {a : Act} (inv : Inv p s) (h : step p s a = some s') : Inv p s' := by
  obtain ⟨hO, hC, hL, hK, hV, hP⟩ := inv
  cases a with
  | advance t =>
    simp only [step] at h
    split at h
    · rename_i hc
      cases h
      simp only [canAdvance, Bool.and_eq_true, decide_eq_true_eq, List.all_eq_true] at hc
      obtain ⟨⟨⟨h1, h2⟩, h3⟩, h4⟩ := hc
      refine ⟨fun r hr => ⟨Nat.le_trans (hO r hr).1 h1, h3 r hr⟩, fun c hc => ⟨Nat.le_trans (hC c hc).1 h1, h4 c hc⟩,
        Nat.le_trans hL h1, ?_, fun v hv => Nat.le_trans (hV v hv) h1, hP⟩
      show ChkTimes p t s.lastCheck s.chk
      unfold chkDue at h2
      cases hk : s.chk with
      | idle => rw [hk] at h2; exact h2
      | flying c => rw [hk] at h2 hK; exact ⟨Nat.le_trans hK.1 h1, h2⟩
      | seen c b => rw [hk] at h2 hK; exact ⟨Nat.le_trans hK.1 h1, h2⟩
    · cases h
  | vacate =>
    simp only [step] at h
    cases h
    refine ⟨hO, hC, hL, hK, ?_, ?_⟩
    · intro v hv
      simp at hv
      show v ≤ s.now
      omega
    · intro v hv
      simp at hv
      subst hv
      refine Or.inr (Or.inr ?_)
      show ChkW p s.lastCheck s.now s.chk
      cases hk : s.chk with
      | idle => exact hL
      | flying c => rw [hk] at hK; simp only [ChkW]; have := hK.1; omega
      | seen c b => rw [hk] at hK; cases b <;> simp only [ChkW] <;> have := hK.1 <;> omega
  | fill =>
    simp only [step] at h
    cases h
    exact ⟨hO, hC, hL, hK, by intro v hv; simp at hv, by intro v hv; simp at hv⟩
  | checkCall =>
    simp only [step] at h
    split at h
    · rename_i hk
      cases h
      rw [hk] at hK
      refine ⟨hO, hC, hL, ⟨Nat.le_refl _, Nat.le_add_right _ _⟩, hV, ?_⟩
      intro v hv
      rcases hP v hv with h1 | h2 | h3
      · exact Or.inl h1
      · exact Or.inr (Or.inl h2)
      · rw [hk] at h3
        refine Or.inr (Or.inr ?_)
        show s.now ≤ v + p.P + p.L
        simp only [ChkW] at h3
        simp only [ChkTimes] at hK
        omega
    · cases h
  | checkApply =>
    simp only [step] at h
    split at h
    · rename_i c hk
      cases h
      rw [hk] at hK
      refine ⟨hO, hC, hL, hK, hV, ?_⟩
      intro v hv
      rcases hP v hv with h1 | h2 | h3
      · exact Or.inl h1
      · exact Or.inr (Or.inl h2)
      · rw [hk] at h3
        refine Or.inr (Or.inr ?_)
        show ChkW p s.lastCheck v (.seen c s.vacant.isSome)
        have hvv : s.vacant = some v := hv
        rw [hvv]
        exact h3
    · cases h
  | checkRet miss =>
    simp only [step] at h
    split at h
    · rename_i c vac hk
      split at h
      · cases h
      · rename_i hg
        cases h
        rw [hk] at hK
        simp only [ChkTimes] at hK
        refine ⟨?_, hC, hK.1, ?_, hV, ?_⟩
        · intro r hr
          simp only at hr
          split at hr
          · rcases List.mem_cons.mp hr with rfl | hr
            · exact ⟨Nat.le_refl _, by show s.now ≤ s.now + p.J + p.B; omega⟩
            · exact hO r hr
          · exact hO r hr
        · show s.now ≤ c + p.P + p.L
          omega
        · intro v hv
          rcases hP v hv with h1 | h2 | h3
          · exact Or.inl h1
          · obtain ⟨r, hr, hrv⟩ := h2
            refine Or.inr (Or.inl ⟨r, ?_, hrv⟩)
            simp only
            split
            · exact List.mem_cons_of_mem _ hr
            · exact hr
          · rw [hk] at h3
            cases vac with
            | true =>
              simp only [ChkW] at h3
              have hm : miss = true := by
                cases miss with
                | true => rfl
                | false => exact absurd ⟨rfl, by simp⟩ hg
              subst hm
              refine Or.inr (Or.inl ⟨s.now, by simp, ?_⟩)
              omega
            | false =>
              simp only [ChkW] at h3
              exact Or.inr (Or.inr (by show c ≤ v; exact h3))
    · cases h
  | createCall =>
    simp only [step] at h
    cases h
    refine ⟨?_, ?_, hL, hK, hV, ?_⟩
    · intro r hr
      exact hO r (List.mem_filter.mp hr).1
    · intro c hc
      rcases List.mem_cons.mp hc with rfl | hc
      · exact ⟨Nat.le_refl _, Nat.le_add_right _ _⟩
      · exact hC c hc
    · intro v hv
      rcases hP v hv with h1 | h2 | h3
      · obtain ⟨c, hc, hcv⟩ := h1
        exact Or.inl ⟨c, List.mem_cons_of_mem _ hc, hcv⟩
      · obtain ⟨r, hr, hrv⟩ := h2
        by_cases hkeep : r + p.Jmin ≤ s.now
        · -- discharged by this Create
          refine Or.inl ⟨s.now, List.mem_cons_self .., ?_⟩
          have := (hO r hr).2
          omega
        · exact Or.inr (Or.inl ⟨r, List.mem_filter.mpr ⟨hr, by simpa using hkeep⟩, hrv⟩)
      · exact Or.inr (Or.inr h3)
  | createApply c =>
    simp only [step] at h
    split at h
    · cases h
      refine ⟨hO, ?_, hL, hK, by intro v hv; simp at hv, by intro v hv; simp at hv⟩
      intro c' hc'
      exact hC c' (List.mem_of_mem_erase hc')
    · cases h

theorem run_inv {p : Par} {s s' : St} (inv : Inv p s) (as : List Act) (h : run p s as = some s') : Inv p s' := by
  induction as generalizing s with
  | nil => simp [run] at h; subst h; exact inv
  | cons a as ih =>
    simp only [run] at h
    split at h
    · rename_i s1 h1
      exact ih (step_inv inv h1) h
    · cases h

/-- In every state satisfying the invariant a vacancy is younger than the bound. -/
theorem vacancy_young {p : Par} {s : St} (inv : Inv p s) (v : Nat) (hv : s.vacant = some v) : s.now ≤ v + bound p := by
  obtain ⟨hO, hC, hL, hK, hV, hP⟩ := inv
  unfold bound
  rcases hP v hv with ⟨c, hc, hcv⟩ | ⟨r, hr, hrv⟩ | h3
  · have := (hC c hc).2; omega
  · have := (hO r hr).2; omega
  · cases hk : s.chk with
    | idle => rw [hk] at h3 hK; simp only [ChkW] at h3; simp only [ChkTimes] at hK; omega
    | flying c => rw [hk] at h3 hK; simp only [ChkW] at h3; simp only [ChkTimes] at hK; omega
    | seen c b =>
      rw [hk] at h3 hK
      simp only [ChkTimes] at hK
      cases b <;> simp only [ChkW] at h3 <;> omega

end NLE.Vac
