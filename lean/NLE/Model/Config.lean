/-
  Model of `validateConfig` (leader/validation.go).

  The *rules* are not written here: `NLE/Gen/ConfigRules.lean` is regenerated from
  /repo's working tree on every run by /verif/extract.  This file only contains the
  rule language, its interpreter (with Go's int64 wrap-around arithmetic) and the
  documented predicate the property C16 talks about.
-/
namespace NLE.Config

/-- Go's two's-complement `int64` wrap-around (time.Duration and `int` on amd64). -/
def wrap64 (x : Int) : Int :=
  (x + 9223372036854775808) % 18446744073709551616 - 9223372036854775808

inductive IField | ttl | hb | val | grace | maxFail | prio
  deriving DecidableEq, Repr
inductive SField | bucket | group | id
  deriving DecidableEq, Repr
inductive BField | takeover
  deriving DecidableEq, Repr

/-- The fields of `ElectionConfig` that `validateConfig` looks at.  Durations are
    nanoseconds.  Strings are kept as `List Char` (only emptiness is ever tested). -/
structure Cfg where
  bucket : List Char
  group : List Char
  id : List Char
  ttl : Int
  hb : Int
  val : Int
  grace : Int
  maxFail : Int
  prio : Int
  takeover : Bool
  deriving Repr, DecidableEq

inductive IExp
  | field (f : IField)
  | lit (n : Int)
  | mul (a b : IExp)
  | add (a b : IExp)
  deriving Repr

inductive Cond
  | lt (a b : IExp) | le (a b : IExp) | gt (a b : IExp) | ge (a b : IExp)
  | eq (a b : IExp) | ne (a b : IExp)
  | strEmpty (f : SField)
  | flag (f : BField)
  | not (c : Cond)
  | and (c d : Cond)
  | or (c d : Cond)
  deriving Repr

/-- `if guards… { if cond { return NewValidationError(field, …) } }` -/
structure Rule where
  guards : List Cond
  cond : Cond
  field : String
  deriving Repr

def Cfg.int (c : Cfg) : IField → Int
  | .ttl => c.ttl | .hb => c.hb | .val => c.val | .grace => c.grace
  | .maxFail => c.maxFail | .prio => c.prio

def Cfg.str (c : Cfg) : SField → List Char
  | .bucket => c.bucket | .group => c.group | .id => c.id

def Cfg.bool (c : Cfg) : BField → Bool
  | .takeover => c.takeover

def IExp.eval (c : Cfg) : IExp → Int
  | .field f => c.int f
  | .lit n => n
  | .mul a b => wrap64 (a.eval c * b.eval c)
  | .add a b => wrap64 (a.eval c + b.eval c)

def Cond.eval (c : Cfg) : Cond → Bool
  | .lt a b => decide (a.eval c < b.eval c)
  | .le a b => decide (a.eval c ≤ b.eval c)
  | .gt a b => decide (a.eval c > b.eval c)
  | .ge a b => decide (a.eval c ≥ b.eval c)
  | .eq a b => decide (a.eval c = b.eval c)
  | .ne a b => decide (a.eval c ≠ b.eval c)
  | .strEmpty f => (c.str f).isEmpty
  | .flag f => c.bool f
  | .not x => !(x.eval c)
  | .and x y => x.eval c && y.eval c
  | .or x y => x.eval c || y.eval c

def Rule.fires (c : Cfg) (r : Rule) : Bool :=
  r.guards.all (·.eval c) && r.cond.eval c

/-- `validateConfig`: the field named by the first rule that fires, `none` = accepted. -/
def validate (rules : List Rule) (c : Cfg) : Option String :=
  match rules with
  | [] => none
  | r :: rs => if r.fires c then some r.field else validate rs c

/-- The documented acceptance predicate of property C16. -/
def Documented (c : Cfg) : Prop :=
  c.bucket ≠ [] ∧ c.group ≠ [] ∧ c.id ≠ [] ∧ 0 < c.ttl ∧ 0 < c.hb ∧ 3 * c.hb ≤ c.ttl ∧
  (c.val = 0 ∨ c.hb ≤ c.val) ∧ (c.grace = 0 ∨ 2 * c.hb ≤ c.grace) ∧ 0 ≤ c.maxFail ∧
  (c.takeover = true → 0 < c.prio)

instance (c : Cfg) : Decidable (Documented c) := by unfold Documented; infer_instance

/-- Field `f` really breaks a documented rule in `c`. -/
def Offends (c : Cfg) (f : String) : Prop :=
  (f = "Bucket" ∧ c.bucket = []) ∨ (f = "Group" ∧ c.group = []) ∨ (f = "InstanceID" ∧ c.id = []) ∨
  (f = "TTL" ∧ (c.ttl ≤ 0 ∨ c.ttl < 3 * c.hb)) ∨ (f = "HeartbeatInterval" ∧ c.hb ≤ 0) ∨
  (f = "ValidationInterval" ∧ c.val ≠ 0 ∧ c.val < c.hb) ∨
  (f = "DisconnectGracePeriod" ∧ c.grace ≠ 0 ∧ c.grace < 2 * c.hb) ∨
  (f = "MaxConsecutiveFailures" ∧ c.maxFail < 0) ∨
  (f = "Priority" ∧ c.takeover = true ∧ c.prio ≤ 0)

instance (c : Cfg) (f : String) : Decidable (Offends c f) := by unfold Offends; infer_instance

/-- Durations and integers for which `3*hb`, `2*hb` do not overflow int64 (±2^61 ns ≈ ±73 years;
    the property asks for "up to one year"). -/
def InRange (c : Cfg) : Prop :=
  -2305843009213693952 ≤ c.hb ∧ c.hb ≤ 2305843009213693952 ∧
  -9223372036854775808 ≤ c.ttl ∧ c.ttl ≤ 9223372036854775807 ∧
  -9223372036854775808 ≤ c.val ∧ c.val ≤ 9223372036854775807 ∧
  -9223372036854775808 ≤ c.grace ∧ c.grace ≤ 9223372036854775807

end NLE.Config
