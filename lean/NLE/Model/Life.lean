import NLE.Model.Trace
/-
  `Life`: the implementation model of one election object's lifecycle — Start / Stop /
  StopWithContext, state transitions, the leadership flag, callback dispatch and the promotion
  context (properties C08, C09, C18, C19).

  Per instance it is a small automaton over the visible events.  The guards are what the code does
  (leader/kv_election.go after the lifecycle fixes):

  * `becomeLeader` runs only while the election is running (started, no stop call since); inside one
    critical section it records the transition to LEADER, raises the flag and dispatches the promotion
    callback with a context derived from the term's context.
  * `becomeFollower` while running records the transition to FOLLOWER and clears the flag; `stepDown`
    then owes the demotion callback iff a flag was cleared.  After a stop call `becomeFollower` changes
    nothing but the (already cleared) flag.
  * A stop call clears the flag, records the transition to STOPPED, cancels the election context (and with
    it the term's context), and owes the demotion callback iff the instance led when the call began;
    `StopWithContext` after a `Stop` returns ErrAlreadyStopped.
  * The term's context is cancelled exactly when the term ends; the promotion context additionally when the
    callback returns.

  `status` lines (taken by the harness at quiescent points) are observations: the model accepts them only
  if they agree with its state.
-/
namespace NLE.Life

structure Ctx where
  cid : Nat
  tok : Nat
  cancelled : Bool := false
  cbRunning : Bool := true
  termOver : Bool := false
  deriving Repr, DecidableEq, Inhabited

structure StopCall where
  n : Nat
  wasLeader : Bool
  deriving Repr, DecidableEq, Inhabited

structure Inst where
  id : Nat
  callbacks : Bool := true
  state : Nat := 0                 -- 0 INIT, 1 CANDIDATE, 2 LEADER, 3 FOLLOWER, 5 STOPPED
  running : Bool := false          -- started and no stop call since
  everStopped : Bool := false      -- a stop call has been made since the last Start
  ctxNil : Bool := true            -- e.ctx == nil: never started, or a StopWithContext completed
  ending : Bool := false           -- the library has reported the duration of the term in progress: the critical section that ends it is running
  ctxCancelled : Bool := false     -- the caller's context of the current run has been cancelled (no stop call): nothing runs, a leader steps down
  startFailed : Bool := false      -- the last Start failed half-way (connection monitor): a cancelled context is installed and `stopped` is reset
  flag : Bool := false
  termTok : Nat := 0
  pendingFlag : Option Bool := none   -- a transition was recorded: the flag event of the same critical section must follow
  promoOwed : Option Nat := none      -- promotion callback dispatched (token), not yet started
  demoteOwed : Nat := 0               -- demotion callbacks dispatched by stepDown, not yet started
  stops : List StopCall := []         -- stop calls in progress
  stopPendingTrans : Bool := false    -- a stop call has begun and has not yet recorded its transition
  stopDemoteOwed : Nat := 0           -- demotion callbacks owed by stop calls that found the instance leading
  promotes : Nat := 0                 -- callbacks started so far
  demotes : Nat := 0
  ctxs : List Ctx := []
  deriving Repr, Inhabited

structure State where
  insts : List Inst := []
  deriving Repr, Inhabited

def State.get (s : State) (i : Nat) : Option Inst := s.insts.find? (·.id = i)
def State.set (s : State) (x : Inst) : State := { insts := s.insts.map fun y => if y.id = x.id then x else y }

abbrev R := Except String
def reject {α} (msg : String) : R α := .error msg

/-- The flag is cleared (by `becomeFollower`, or by a stop call's critical section): the term, if any, ends —
    its contexts are cancelled — and the demotion callback is owed iff a term ended and callbacks are registered;
    it is owed by the stop call when the state is already STOPPED, by `stepDown` otherwise. -/
def clearFlag (x : Inst) : Inst :=
  { x with pendingFlag := none, flag := false, ending := false,
           ctxs := if x.flag then x.ctxs.map (fun c => { c with termOver := true }) else x.ctxs,
           stopDemoteOwed := if x.state = 5 ∧ x.flag = true ∧ x.callbacks = true then x.stopDemoteOwed + 1 else x.stopDemoteOwed,
           demoteOwed := if x.state ≠ 5 ∧ x.flag = true ∧ x.callbacks = true then x.demoteOwed + 1 else x.demoteOwed }

def stepTrans (x : Inst) (f t : Nat) : R Inst :=
  if x.pendingFlag.isSome then reject s!"instance {x.id}: transition {f}→{t} inside another critical section"
  else if f ≠ x.state then reject s!"instance {x.id}: transition {f}→{t} but the state is {x.state}"
  else if t = 2 then
    if ¬ x.running then reject s!"instance {x.id}: promotion while not running"
    else if x.flag then reject s!"instance {x.id}: promotion while already leading"
    else pure { x with state := 2, pendingFlag := some true }
  else if t = 3 then
    -- (a stop call that has been issued but has not entered its critical section yet - it is parked on the mutex - does not
    --  keep another goroutine's `becomeFollower` from getting in first: a non-leader records FOLLOWER, the gauge is
    --  refreshed, and the stop call's own transition follows)
    if ¬ x.running ∧ x.stopPendingTrans ∧ ¬ x.flag then pure { x with state := 3 }
    else if ¬ x.running ∧ ¬ (x.ctxCancelled ∧ x.flag) then reject s!"instance {x.id}: transition to FOLLOWER while not running"
    else pure { x with state := 3, pendingFlag := some false }
  else if t = 5 then
    if x.stops.isEmpty then reject s!"instance {x.id}: transition to STOPPED outside a stop call"
    else pure { x with state := 5, pendingFlag := some false, stopPendingTrans := false }
  else reject s!"instance {x.id}: transition to undocumented state {t}"

def stepFlag (x : Inst) (b il : Bool) (tok lid : Nat) : R Inst :=
  if b ≠ il then reject s!"instance {x.id}: gauge {b} differs from IsLeader() {il}" else
  match x.pendingFlag with
  | some want =>
    if il ≠ want then reject s!"instance {x.id}: flag {il} after a transition that wants {want}"
    else if il then
      if lid ≠ x.id then reject s!"instance {x.id}: leads with LeaderID {lid}"
      else if x.promoOwed.isSome ∨ x.demoteOwed > 0 ∨ x.stopDemoteOwed > 0 then
        reject s!"instance {x.id}: a term starts while callbacks of the previous term are still owed"
      else pure { x with pendingFlag := none, flag := true, termTok := tok, promoOwed := if x.callbacks then some tok else none }
    else pure (clearFlag x)
  | none =>
    -- becomeFollower after a stop: no transition is recorded, only the gauge is refreshed
    if il then reject s!"instance {x.id}: flag raised outside becomeLeader"
    else if x.flag ∧ (x.running ∨ x.ctxCancelled) then reject s!"instance {x.id}: flag cleared without a recorded transition"
    else pure (clearFlag x)

def stepPromote (x : Inst) (tok cid : Nat) (dn : Bool) : R Inst :=
  match x.promoOwed with
  | some t =>
    if t ≠ tok then reject s!"instance {x.id}: promotion callback with token {tok}, term token {t}"
    else if dn ∧ x.flag ∧ x.termTok = tok ∧ ¬ x.stopPendingTrans ∧ ¬ x.ctxCancelled then reject s!"instance {x.id}: promotion context already cancelled while the term is in progress"
    else pure { x with promoOwed := none, promotes := x.promotes + 1,
                       ctxs := { cid := cid, tok := tok, cancelled := dn, termOver := !(x.flag && x.termTok == tok) || x.stopPendingTrans || x.ctxCancelled } :: x.ctxs }
  | none => reject s!"instance {x.id}: promotion callback that was not dispatched"

def stepCtxDone (x : Inst) (cid : Nat) : R Inst :=
  match x.ctxs.find? (·.cid = cid) with
  | some c =>
    -- (a stop call that has begun cancels the run's context first and lowers the flag later in its critical section)
    if c.termOver ∨ ¬ c.cbRunning ∨ x.stopPendingTrans ∨ x.ctxCancelled ∨ x.ending then
      pure { x with ctxs := x.ctxs.map fun c => if c.cid = cid then { c with cancelled := true } else c }
    else reject s!"instance {x.id}: promotion context {cid} cancelled while its term is in progress and the callback runs"
  | none => reject s!"instance {x.id}: unknown promotion context {cid}"

def stepDemote (x : Inst) : R Inst :=
  if x.flag then reject s!"instance {x.id}: demotion callback while the flag is raised"
  else if x.promoOwed.isSome then reject s!"instance {x.id}: demotion callback before the promotion callback of the same term has started"
  else if x.demoteOwed > 0 then pure { x with demoteOwed := x.demoteOwed - 1, demotes := x.demotes + 1 }
  else if x.stopDemoteOwed > 0 then pure { x with stopDemoteOwed := x.stopDemoteOwed - 1, demotes := x.demotes + 1 }
  else reject s!"instance {x.id}: demotion callback that is not owed"

/-- A `status` line is an observation: accepted only if it agrees with the model and the point is quiescent. -/
def statusOk (x : Inst) (st : Nat) (il : Bool) (tok : Nat) (il2 : Bool) : Option String :=
  if x.pendingFlag.isSome then some s!"instance {x.id}: status inside a critical section"
  else if x.stopPendingTrans then some s!"instance {x.id}: status inside a stop call's critical section"
  else if st ≠ x.state ∨ il ≠ x.flag ∨ il2 ≠ x.flag then some s!"instance {x.id}: status state={st} leader={il}/{il2}, model state={x.state} flag={x.flag}"
  else if x.flag ∧ tok ≠ x.termTok then some s!"instance {x.id}: status token {tok}, term token {x.termTok}"
  else if x.promoOwed.isSome ∨ x.demoteOwed > 0 ∨ (x.stops.isEmpty ∧ x.stopDemoteOwed > 0) then
    some s!"instance {x.id}: callbacks still owed at a quiescent point"
  else if x.ctxs.any (fun c => c.termOver && !c.cancelled) then
    some s!"instance {x.id}: a promotion context of an ended term is still live at a quiescent point"
  else none

def stepInst (x : Inst) (e : Ev) : R Inst :=
  match e with
  | .trans _ f t => stepTrans x f t
  | .flag _ b il tok lid => stepFlag x b il tok lid
  | .promote _ tok cid dn => stepPromote x tok cid dn
  | .promoteRet _ cid =>
    pure { x with ctxs := x.ctxs.map fun c => if c.cid = cid then { c with cbRunning := false } else c }
  | .ctxDone _ cid => stepCtxDone x cid
  | .demote _ => stepDemote x
  | .observe _ => pure { x with ending := true }
  | .status _ st il _ tok _ il2 =>
    match statusOk x st il tok il2 with
    | some msg => reject msg
    | none => pure x
  | _ => pure x

/-- API calls and returns need the call table; everything else is per instance. -/
structure Sys where
  st : State := {}
  calls : List (Nat × Nat × ApiKind) := []    -- (call number, instance, kind) in progress
  hasCallbacks : List (Nat × Bool) := []
  ended : Bool := false
  deriving Repr, Inhabited

def step (s : Sys) (te : TEv) : R Sys :=
  if s.ended then pure s else
  match te.ev with
  | .end_ => pure { s with ended := true }
  | .inst c => pure { s with st := { insts := s.st.insts ++ [{ id := c.id, callbacks := c.callbacks }] } }
  | .api n i k =>
    match s.st.get i with
    | none => pure s
    | some x =>
      if x.pendingFlag.isSome then reject s!"instance {i}: API call inside a critical section" else
      match k with
      | .stop =>
        if x.ctxNil then
          pure { s with calls := (n, i, k) :: s.calls }       -- will return ErrAlreadyStopped
        else
          let x' := { x with stops := { n := n, wasLeader := x.flag } :: x.stops, running := false, everStopped := true, stopPendingTrans := true, startFailed := false, ctxCancelled := false }
          pure { s with st := s.st.set x', calls := (n, i, k) :: s.calls }
      | .stopctx _ _ _ _ =>
        if (x.everStopped ∧ ¬ x.startFailed) ∨ x.ctxNil then
          pure { s with calls := (n, i, k) :: s.calls }       -- will return ErrAlreadyStopped
        else
          let x' := { x with stops := { n := n, wasLeader := x.flag } :: x.stops, running := false, everStopped := true, stopPendingTrans := true, startFailed := false, ctxCancelled := false }
          pure { s with st := s.st.set x', calls := (n, i, k) :: s.calls }
      | _ => pure { s with calls := (n, i, k) :: s.calls }
  | .cancelCtx i =>
    -- the application cancels the context it passed to Start: every goroutine of the run winds down; a leader steps down
    match s.st.get i with
    | none => pure s
    | some x =>
      if x.pendingFlag.isSome then reject s!"instance {i}: context cancelled inside a critical section"
      else if x.running then
        -- (the promotion contexts are children of the cancelled one: the application itself has ended them)
        pure { s with st := s.st.set { x with running := false, ctxCancelled := true, ctxs := x.ctxs.map fun c => { c with termOver := true } } }
      else pure s
  | .apiRet n i r =>
    match s.calls.find? (·.1 = n), s.st.get i with
    | some (_, _, k), some x =>
      let s1 := { s with calls := s.calls.filter (·.1 ≠ n) }
      match k, r with
      | .start, .ok =>
        if x.running then reject s!"instance {i}: Start succeeded while running"
        else if x.flag ∨ x.pendingFlag.isSome ∨ x.stopPendingTrans then reject s!"instance {i}: Start succeeded inside a critical section / while leading"
        else pure { s1 with st := s1.st.set { x with running := true, everStopped := false, ctxNil := false, ctxCancelled := false, state := 1 } }
      | .start, .err =>
        -- Start failed after installing (and cancelling) a new context and resetting `stopped` (the connection monitor
        -- refused to start again): the election does not run, but the next stop call goes through a full shutdown
        if x.running ∨ x.flag ∨ x.pendingFlag.isSome ∨ x.stopPendingTrans then pure s1
        else pure { s1 with st := s1.st.set { x with ctxNil := false, startFailed := true } }
      | .start, _ => pure s1
      | .stop, _ | .stopctx _ _ _ _, _ =>
        match x.stops.find? (·.n = n) with
        | some sc =>
          if r = .alreadyStopped ∧ x.stopPendingTrans ∧ x.state = 5 ∧ x.flag = false ∧ x.pendingFlag = none then
            -- the call found e.ctx == nil (a StopWithContext had just completed its wait): it did nothing
            pure { s1 with st := s1.st.set { x with stops := x.stops.filter (·.n ≠ n), stopPendingTrans := false } }
          else
          -- (a Start that succeeded while this call was waiting began a new run: `running` again; the flag is the new run's)
          -- (a newer stop call, issued while this one was in its critical section, may still be waiting for its own)
          if (x.flag ∧ ¬ x.running) ∨ (x.stopPendingTrans ∧ (x.stops.head?.map (·.n)) = some n) then reject s!"instance {i}: a stop call returns while the flag is raised"
          else
            let done := (match k with | .stopctx _ _ _ _ => r == .ok && !x.running | _ => false)
            let x' := { x with stops := x.stops.filter (·.n ≠ n), ctxNil := x.ctxNil || done }
            let _ := sc
            pure { s1 with st := s1.st.set x' }
        | none =>
          if r = .alreadyStopped then pure s1 else reject s!"instance {i}: stop call {n} returned {repr r} but was refused by the model"
      | _, _ => pure s1
    | _, _ => pure s
  | e =>
    let who : Option Nat := match e with
      | .trans i _ _ => some i | .flag i _ _ _ _ => some i | .promote i _ _ _ => some i | .promoteRet i _ => some i
      | .ctxDone i _ => some i | .demote i => some i | .status i _ _ _ _ _ _ => some i | .observe i => some i
      | _ => none
    match who with
    | none => pure s
    | some i =>
      match s.st.get i with
      | none => pure s
      | some x => do
        let x' ← stepInst x e
        pure { s with st := s.st.set x' }

def run (s : Sys) : List TEv → R Sys
  | [] => pure s
  | e :: es => do
    let s' ← step s e
    run s' es

end NLE.Life
