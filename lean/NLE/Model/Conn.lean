import NLE.Model.Trace
import NLE.Model.Validate
import NLE.Gen.Consts
/-
  `Conn`: connection monitoring of one election (leader/connection.go) — the disconnect grace timer and
  the verification after a reconnect (property C11).

  * A disconnect notification received while leading arms (or re-arms) a timer for the grace period
    `G = DisconnectGracePeriod`, or `max(mul × HeartbeatInterval, floor)` when it is 0 (constants regenerated).
  * A reconnect notification cancels the timer and, while leading, starts a verification: settle, read the
    record, validate the token against a second read; a failed read or a negative validation demotes.
  * When the timer fires, the connection is not (re)connected — every reconnect cancels the timer — so the
    handler demotes iff the instance still leads.  A closed connection does not cancel anything.
  * A stop call cancels the timer.
-/
namespace NLE.Conn

/-- The grace period of a configuration. -/
def grace (c : InstCfg) : Nat :=
  if c.grace ≠ 0 then c.grace else max (Gen.graceDefaultMul * c.hb) Gen.graceDefaultFloor

inductive VPhase
  | settle (at_ : Nat)                 -- sleeping until that instant
  | test (op : Nat)                    -- connection test read in flight
  | read                               -- about to issue the validation read
  | validate (op : Nat) (tok : Nat)    -- validation read in flight, local token
  deriving Repr, DecidableEq, Inhabited

structure Inst where
  cfg : InstCfg
  flag : Bool := false
  tok : Nat := 0
  timerDue : Option Nat := none
  verify : Option VPhase := none
  mustDemote : Option Nat := none      -- the model has decided to demote at that instant
  readAt : Nat := 0                    -- when the verification's first read was answered (phase `read`)
  deriving Repr, Inhabited

/-! ### Decision logic -/

def onDisconnect (x : Inst) (now : Nat) : Inst :=
  if x.flag then { x with timerDue := some (now + grace x.cfg), verify := x.verify } else x

def onReconnect (x : Inst) (now : Nat) : Inst :=
  { x with timerDue := none, verify := if x.flag then some (.settle (now + Gen.reconnectSettle)) else x.verify }

/-- The timer fires: demote iff still leading. -/
def onExpiry (x : Inst) (now : Nat) : Inst :=
  { x with timerDue := none, mustDemote := if x.flag then some now else x.mustDemote }

def onStop (x : Inst) : Inst := { x with timerDue := none }

/-- Map-decoder reading of a value, as `validateToken` consults it. -/
def mapViewOf (v : Val) : Validate.MapView :=
  let (ok, mid, mtok) := v.mapView
  let fld (z : Int) : Validate.JField := if z = -1 then .absent else if z < 0 then .other else .str z.toNat
  { ok := ok, token := fld mtok, id := fld mid }

/-- Verdict of the reconnect verification's validation read. -/
def verifyVerdict (x : Inst) (tok : Nat) (r : Ret) : Bool :=
  match r with
  | .ok _ (some v) => Validate.validateToken { localTok := tok, me := x.cfg.id, ctxDoneAtEntry := false, ctxWins := false, get := .entry (mapViewOf v) }
  | .ok _ none => false
  | .err _ => false

/-! ### Acceptor -/

structure State where
  insts : List Inst := []
  ended : Bool := false
  deriving Repr, Inhabited

def State.get (s : State) (i : Nat) : Option Inst := s.insts.find? (·.cfg.id = i)
def State.set (s : State) (x : Inst) : State := { s with insts := s.insts.map fun y => if y.cfg.id = x.cfg.id then x else y }

abbrev R := Except String
def reject {α} (msg : String) : R α := .error msg

/-- Timers that are due before `t` fire (in order of their deadlines this is one per instance). -/
def fire (x : Inst) (t : Nat) : Inst :=
  match x.timerDue with
  | some d => if d ≤ t then onExpiry x d else x
  | none => x

def step (s : State) (te : TEv) : R State :=
  if s.ended then pure s else
  let t := te.t
  let s : State := { s with insts := s.insts.map fun (x : Inst) => if x.cfg.connMon then fire x t else x }
  match s.insts.find? (fun (x : Inst) => match x.mustDemote with | some d => decide (d < t) | none => false) with
  | some x => reject s!"instance {x.cfg.id}: the connection mechanism demotes at {repr x.mustDemote} but the flag is still raised at {t}"
  | none =>
  -- the verification does not dawdle: when the settle time is over a leader issues its read at that instant, and the
  -- validation read follows the first one's answer at once (an instance that no longer leads just ends its verification)
  match s.insts.find? (fun (x : Inst) => x.cfg.connMon && x.flag &&
      (match x.verify with | some (.settle at_) => decide (at_ < t) | some .read => decide (x.readAt < t) | _ => false)) with
  | some x => reject s!"instance {x.cfg.id}: a reconnect notification found it leading, but the verification's next read was not issued when it was due (phase {repr x.verify}, now {t})"
  | none =>
  let s : State := { s with insts := s.insts.map fun (x : Inst) =>
    match x.verify with
    | some (.settle at_) => if at_ < t then { x with verify := none } else x
    | _ => x }
  match te.ev with
  | .end_ => pure { s with ended := true }
  | .inst c => pure { s with insts := s.insts ++ [{ cfg := c }] }
  | .flag i _ il tok _ =>
    match s.get i with
    | none => pure s
    | some x =>
      if il then pure (s.set { x with flag := true, tok := tok })
      else pure (s.set { x with flag := false, mustDemote := none, verify := x.verify })
  | .conn i k =>
    match s.get i with
    | none => pure s
    | some x =>
      if ¬ x.cfg.connMon then reject s!"instance {i}: connection notification without a monitor" else
      match k with
      | .disconnect => pure (s.set (onDisconnect x t))
      | .reconnect => pure (s.set (onReconnect x t))
      | .closed => pure s
  | .api _ i .stop | .api _ i (.stopctx _ _ _ _) =>
    match s.get i with
    | none => pure s
    | some x => pure (s.set (onStop x))
  | .call op i .get _ _ _ =>
    match s.get i with
    | none => pure s
    | some x =>
      match x.verify with
      | some (.settle at_) =>
        if t = at_ then pure (s.set { x with verify := some (.test op) }) else pure s
      | some .read =>
        pure (s.set { x with verify := some (.validate op x.tok) })
      | _ => pure s
  | .ret op r =>
    -- find the instance whose verification waits for this operation
    match s.insts.find? (fun (x : Inst) => x.verify == some (VPhase.test op) || (match x.verify with | some (VPhase.validate o _) => o == op | _ => false)) with
    | none => pure s
    | some x =>
      match x.verify with
      | some (.test _) =>
        (match r with
         | .err _ => pure (s.set { x with verify := none, mustDemote := if x.flag then some t else x.mustDemote })
         | .ok _ _ => pure (s.set { x with verify := if x.flag then some .read else none, readAt := t }))   -- (demoted during the read: the verification ends)
      | some (.validate _ tok) =>
        if verifyVerdict x tok r then pure (s.set { x with verify := none })
        else pure (s.set { x with verify := none, mustDemote := if x.flag then some t else x.mustDemote })
      | _ => pure s
  | _ => pure s

def run (s : State) : List TEv → R State
  | [] => pure s
  | e :: es => do
    let s' ← step s e
    run s' es

end NLE.Conn
