/-
  `Prompt`: why a strictly higher-priority, takeover-enabled follower next to a lower-priority leader leads within
  three heartbeat intervals (promptness clause of C10) — a timed model of the mechanism in leader/watcher.go:

  * the incumbent refreshes its record with the cadence of its heartbeat loop: consecutive applications are at least
    `H - L` and at most `H + L` apart (ticker period `H`, every operation applied within `L` of its call);
  * every applied refresh is notified to the follower's watcher within `W`;
  * a notification naming an owner the follower does not yet know only records the owner (`observeLeader`); a
    notification naming the owner it already knows starts a takeover attempt (Create refused, Get, Update: at most `3L`);
  * the attempt's Update succeeds unless a refresh was applied during the attempt.
  Time is urgent.  Under `W + 4L < H` (the property's "latencies up to a tenth of the interval") an attempt started by a
  notification always ends before the next refresh can be applied, so it is never spoilt — this is derived (invariant
  `clean`), not assumed.
-/
namespace NLE.Prompt

structure Par where
  H : Nat
  L : Nat
  W : Nat
  deriving Repr, DecidableEq, Inhabited

structure St where
  now : Nat := 0
  since : Nat := 0           -- the follower has been eligible (running, following a lower-priority owner) since
  lastHb : Nat := 0          -- application time of the owner's latest write
  pend : Bool := false       -- the notification of that write has not been delivered yet
  known : Bool := false      -- the follower's LeaderID already names the owner
  att : Option Nat := none   -- a takeover attempt is running since
  dirty : Bool := false      -- a refresh was applied while the attempt was running
  lead : Bool := false       -- the follower has taken over
  deriving Repr, DecidableEq, Inhabited

inductive Act
  | advance (t : Nat)
  | hbApply                  -- the incumbent's next refresh is applied
  | deliver                  -- the pending notification reaches the follower
  | attemptEnd               -- the running attempt's Update is answered
  deriving Repr, DecidableEq, Inhabited

def canAdvance (p : Par) (s : St) (t : Nat) : Bool :=
  decide (s.now ≤ t) && decide (t ≤ s.lastHb + p.H + p.L) && (!s.pend || decide (t ≤ s.lastHb + p.W)) &&
  (match s.att with | some a => decide (t ≤ a + 3 * p.L) | none => true)

def step (p : Par) (s : St) : Act → Option St
  | .advance t => if s.lead then some { s with now := max s.now t } else if canAdvance p s t then some { s with now := t } else none
  | .hbApply =>
    if s.lead then some s
    else if s.lastHb + p.H ≤ s.now + p.L then       -- not earlier than H - L after the previous application
      some { s with lastHb := s.now, pend := true, dirty := s.dirty || s.att.isSome }
    else none
  | .deliver =>
    if ¬ s.pend then none
    else if ¬ s.known then some { s with pend := false, known := true }
    else match s.att with
      | none => some { s with pend := false, att := some s.now, dirty := false }
      | some _ => some { s with pend := false }
  | .attemptEnd =>
    match s.att with
    | some _ => some { s with att := none, lead := s.lead || !s.dirty }
    | none => none

def run (p : Par) (s : St) : List Act → Option St
  | [] => some s
  | a :: as => match step p s a with
    | some s' => run p s' as
    | none => none

/-- The follower becomes eligible at `t0`; the owner's latest write was applied at `hb ≤ t0`. -/
def init (t0 hb : Nat) (pend known : Bool) : St := { now := t0, since := t0, lastHb := hb, pend := pend, known := known }

/-- Two refresh intervals, one notification delay, one attempt. -/
def bound (p : Par) : Nat := 2 * (p.H + p.L) + p.W + 3 * p.L

end NLE.Prompt
