import NLE.Model.Text
/-
  Model of error values and of `IsPermanentError` / `IsTransientError` (leader/error.go).

  The classification *steps* (order of checks, `errors.Is` targets, pattern tables) are
  regenerated from the source into `NLE/Gen/Patterns.lean`; this file holds the error
  algebra (`Error()` text, `errors.Is`, `errors.As(*TimeoutError)`) and the interpreter.
-/
namespace NLE.Classify
open NLE.Text

/-- Error values.  `leaf` is any error without `Unwrap`: its text and the `errors.Is` targets it
    answers to (by identity or by a custom `Is`), e.g. `context.Canceled`, a library sentinel, an
    exported error of the NATS client.  `api` is a NATS `*APIError`/`jsError` (text "nats: <desc>",
    `errors.Is(_, nats.ErrKeyExists)` iff the error code is 10071). -/
inductive Err
  | leaf (text : List Char) (ids : List String)
  | api (errCode : Nat) (desc : List Char)
  | wrap (pre post : List Char) (inner : Err)                       -- fmt.Errorf(pre + "%w" + post, inner)
  | wrap2 (pre mid post : List Char) (a b : Err)                    -- fmt.Errorf(pre + "%w" + mid + "%w" + post, a, b); errors.Join(a, b) with mid = "\n"
  | timeout0 (op dur : List Char)                                   -- &TimeoutError{Op, Timeout, nil}
  | timeout1 (op dur : List Char) (inner : Err)                     -- &TimeoutError{Op, Timeout, inner}
  | election0 (code inst reason : List Char)
  | election1 (code inst reason : List Char) (inner : Err)
  | tokval0 (reason loc kv : List Char)
  | tokval1 (reason loc kv : List Char) (inner : Err)
  | validation0 (field : List Char) (value : Option (List Char)) (reason : List Char)   -- Value == nil ↦ none
  | validation1 (field : List Char) (value : Option (List Char)) (reason : List Char) (inner : Err)
  deriving Repr, DecidableEq

def kNats : List Char := "nats: ".toList
def kOpTimedOut : List Char := "operation timed out after ".toList
def kOperation : List Char := "operation ".toList
def kTimedOutAfter : List Char := " timed out after ".toList
def kColon : List Char := ": ".toList
def kElection : List Char := "election error [".toList
def kRBracket : List Char := "]".toList
def kForInstance : List Char := " for instance ".toList
def kTokVal : List Char := "token validation failed: ".toList
def kLocal : List Char := " (local: ".toList
def kKv : List Char := ", kv: ".toList
def kRParen : List Char := ")".toList
def kInvalidCfg : List Char := "invalid configuration: field ".toList
def kEq : List Char := " = ".toList

def optPart (pre s : List Char) : List Char := if s.isEmpty then [] else pre ++ s
def optVal (v : Option (List Char)) : List Char := match v with | none => [] | some x => kEq ++ x

/-- `Error()` -/
def Err.text : Err → List Char
  | .leaf t _ => t
  | .api _ d => kNats ++ d
  | .wrap pre post e => pre ++ (e.text ++ post)
  | .wrap2 pre mid post a b => pre ++ (a.text ++ (mid ++ (b.text ++ post)))
  | .timeout0 op dur =>
      if op.isEmpty then kOpTimedOut ++ dur
      else kOperation ++ (op ++ (kTimedOutAfter ++ dur))
  | .timeout1 op dur e =>
      kOperation ++ (op ++ (kTimedOutAfter ++ (dur ++ (kColon ++ e.text))))
  | .election0 code inst reason =>
      kElection ++ (code ++ (kRBracket ++ (optPart kForInstance inst ++ optPart kColon reason)))
  | .election1 code inst reason e =>
      kElection ++ (code ++ (kRBracket ++ (optPart kForInstance inst ++ (optPart kColon reason ++ (kColon ++ e.text)))))
  | .tokval0 reason loc kv =>
      kTokVal ++ (reason ++
        (if !loc.isEmpty && !kv.isEmpty then kLocal ++ (loc ++ (kKv ++ (kv ++ kRParen))) else []))
  | .tokval1 reason loc kv e =>
      kTokVal ++ (reason ++
        ((if !loc.isEmpty && !kv.isEmpty then kLocal ++ (loc ++ (kKv ++ (kv ++ kRParen))) else []) ++
          (kColon ++ e.text)))
  | .validation0 field value reason =>
      kInvalidCfg ++ (field ++ (optVal value ++ optPart kColon reason))
  | .validation1 field value reason e =>
      kInvalidCfg ++ (field ++ (optVal value ++ (optPart kColon reason ++ (kColon ++ e.text))))

/-- `errors.Is(e, target)` for the targets the classifiers use (`*TimeoutError` is never a target
    there, so `TimeoutError.Is` only ever answers false and unwrapping continues). -/
def Err.is (t : String) : Err → Bool
  | .leaf _ ids => ids.contains t
  | .api code _ => t == "nats.ErrKeyExists" && code == 10071
  | .wrap _ _ e => e.is t
  | .wrap2 _ _ _ a b => a.is t || b.is t        -- (`Unwrap() []error`: every branch is searched)
  | .timeout0 _ _ => false
  | .timeout1 _ _ e => e.is t
  | .election0 _ _ _ => false
  | .election1 _ _ _ e => e.is t
  | .tokval0 _ _ _ => false
  | .tokval1 _ _ _ e => e.is t
  | .validation0 _ _ _ => false
  | .validation1 _ _ _ e => e.is t

/-- `_, ok := err.(*TimeoutError)` -/
def Err.topTimeout : Err → Bool
  | .timeout0 _ _ => true
  | .timeout1 _ _ _ => true
  | _ => false

/-- `errors.As(err, new(*TimeoutError))` -/
def Err.asTimeout : Err → Bool
  | .leaf _ _ => false
  | .api _ _ => false
  | .wrap _ _ e => e.asTimeout
  | .wrap2 _ _ _ a b => a.asTimeout || b.asTimeout
  | .timeout0 _ _ => true
  | .timeout1 _ _ _ => true
  | .election0 _ _ _ => false
  | .election1 _ _ _ e => e.asTimeout
  | .tokval0 _ _ _ => false
  | .tokval1 _ _ _ e => e.asTimeout
  | .validation0 _ _ _ => false
  | .validation1 _ _ _ e => e.asTimeout

/-- One statement of a classifier, in source order. -/
inductive Step
  | nilRet (ret : Bool)                         -- if err == nil { return ret }
  | isTarget (t : String) (ret : Bool)          -- if errors.Is(err, t) { return ret }
  | topTimeout (ret : Bool)                     -- if _, ok := err.(*TimeoutError); ok { return ret }
  | asTimeout (ret : Bool)                      -- if errors.As(err, &*TimeoutError) { return ret }
  | callPermanent (ret : Bool)                  -- if IsPermanentError(err) { return ret }
  | patterns (ps : List String) (ret : Bool)    -- lower-cased text contains one of ps → return ret
  | final (ret : Bool)                          -- return ret
  deriving Repr, DecidableEq

/-- Run a step list on a non-nil error.  `perm` is the meaning of a nested `IsPermanentError` call. -/
def runSteps (perm : Err → Bool) : List Step → Err → Bool
  | [], _ => false
  | .nilRet _ :: rest, e => runSteps perm rest e
  | .isTarget t r :: rest, e => if e.is t then r else runSteps perm rest e
  | .topTimeout r :: rest, e => if e.topTimeout then r else runSteps perm rest e
  | .asTimeout r :: rest, e => if e.asTimeout then r else runSteps perm rest e
  | .callPermanent r :: rest, e => if perm e then r else runSteps perm rest e
  | .patterns ps r :: rest, e => if ps.any (matchesCI e.text) then r else runSteps perm rest e
  | .final r :: _, _ => r

/-- What a step list answers for `nil`: the value of a leading nil check; a classifier without one
    would dereference nil (`err.Error()`), modelled as answering `true` so that the nil theorem breaks. -/
def runNil : List Step → Bool
  | .nilRet r :: _ => r
  | _ => true

def classify (perm : Err → Bool) (steps : List Step) : Option Err → Bool
  | none => runNil steps
  | some e => runSteps perm steps e

end NLE.Classify
