/-
  Text utilities shared by the models: Go's `strings.ToLower` restricted to what can
  influence a match against an ASCII pattern, and `strings.Contains` on `List Char`.
-/
namespace NLE.Text

/-- `unicode.ToLower` as far as ASCII results are concerned: ASCII upper-case letters, plus the two
    non-ASCII runes whose lower case is an ASCII letter (U+0130 → 'i', U+212A KELVIN SIGN → 'k').
    Every other rune is left alone: it may change under Go's ToLower, but never into an ASCII
    character, so it cannot take part in a match of an ASCII pattern.  The harness checks this table
    against Go's `unicode.ToLower` for all 0x110000 code points. -/
def lowerChar (c : Char) : Char :=
  if c.val = 0x130 then 'i'
  else if c.val = 0x212A then 'k'
  else c.toLower

def lower (s : List Char) : List Char := s.map lowerChar

def isPrefix : List Char → List Char → Bool
  | [], _ => true
  | _ :: _, [] => false
  | p :: ps, c :: cs => p == c && isPrefix ps cs

/-- `strings.Contains(hay, pat)`. -/
def containsSub (hay pat : List Char) : Bool :=
  match hay with
  | [] => pat.isEmpty
  | c :: cs => isPrefix pat (c :: cs) || containsSub cs pat

/-- `strings.Contains(strings.ToLower(text), pat)` for an ASCII lower-case pattern. -/
def matchesCI (text : List Char) (pat : String) : Bool :=
  containsSub (lower text) pat.toList

theorem lower_append (a b : List Char) : lower (a ++ b) = lower a ++ lower b := by
  simp [lower]

theorem isPrefix_append (p r : List Char) : isPrefix p (p ++ r) = true := by
  induction p with
  | nil => simp [isPrefix]
  | cons x xs ih => simp [isPrefix, ih]

theorem containsSub_append_left (a p b : List Char) (h : containsSub p b = true) :
    containsSub (a ++ p) b = true := by
  induction a with
  | nil => simpa using h
  | cons x xs ih => simp [containsSub, ih]

theorem containsSub_prefix (p r : List Char) : containsSub (p ++ r) p = true := by
  cases hp : p ++ r with
  | nil =>
    have : p = [] := by
      cases p with
      | nil => rfl
      | cons _ _ => simp at hp
    simp [containsSub, this]
  | cons c cs =>
    have := isPrefix_append p r
    rw [hp] at this
    simp [containsSub, this]

/-- If the text is `a ++ p ++ b` then it contains `p`. -/
theorem containsSub_mid (a p b : List Char) : containsSub (a ++ (p ++ b)) p = true :=
  containsSub_append_left a (p ++ b) p (containsSub_prefix p b)

theorem containsSub_append_right (a b p : List Char) (h : containsSub a p = true) :
    containsSub (a ++ b) p = true := by
  induction a with
  | nil =>
    cases p with
    | nil => cases b <;> simp [containsSub, isPrefix]
    | cons _ _ => simp [containsSub] at h
  | cons x xs ih =>
    simp only [containsSub, Bool.or_eq_true] at h
    rcases h with h | h
    · have hp : isPrefix p (x :: xs ++ b) = true := by
        clear ih
        generalize x :: xs = l at h
        induction p generalizing l with
        | nil => simp [isPrefix]
        | cons q qs ihq =>
          cases l with
          | nil => simp [isPrefix] at h
          | cons y ys =>
            simp only [isPrefix, Bool.and_eq_true] at h
            simp [isPrefix, h.1, ihq ys h.2]
      have hp' : isPrefix p (x :: (xs ++ b)) = true := by simpa using hp
      simp [containsSub, hp']
    · simp [containsSub, ih h]

end NLE.Text
