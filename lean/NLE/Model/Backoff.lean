/-
  Models of leader/retry.go: `CalculateBackoff` (exact rational arithmetic; IEEE rounding is
  *not* modelled, the correspondence check compares Go's result with the interval proved here,
  widened by an explicit rounding slack), `RetryWithBackoff` and `CircuitBreaker.Call`.
-/
namespace NLE.Backoff

structure BackoffCfg where
  init : Int      -- InitialBackoff (ns)
  max : Int       -- MaxBackoff (ns)
  mult : Rat      -- BackoffMultiplier
  jitter : Rat    -- Jitter
  deriving Repr

/-- Well-formed configurations: what the contract of C17 is stated for. -/
def BackoffCfg.WF (c : BackoffCfg) : Prop :=
  0 ≤ c.init ∧ 0 ≤ c.max ∧ 0 ≤ c.mult ∧ 0 ≤ c.jitter ∧ c.jitter ≤ 1

/-- `min(MaxBackoff, InitialBackoff × Multiplier^n)` -/
def base (c : BackoffCfg) (n : Nat) : Rat :=
  min (c.max : Rat) ((c.init : Rat) * c.mult ^ n)

/-- The value computed before truncation to `time.Duration`; `r` is the draw of `rand.Float64()`. -/
def backoffQ (c : BackoffCfg) (n : Nat) (r : Rat) : Rat :=
  let b := base c n
  let f := b + b * c.jitter * (r * 2 - 1)
  if f < 0 then b else f

/-- `CalculateBackoff` (truncation of a non-negative value = floor). -/
def backoff (c : BackoffCfg) (n : Nat) (r : Rat) : Int := (backoffQ c n r).floor

/-- Interval of possible results over all draws, as integers (used by the correspondence check). -/
def backoffLo (c : BackoffCfg) (n : Nat) : Int := (base c n * (1 - c.jitter)).floor
def backoffHi (c : BackoffCfg) (n : Nat) : Int := (base c n * (1 + c.jitter)).ceil

/-! ### RetryWithBackoff -/

inductive Outcome | ok | perm | trans | breakerOpen
  | transCancel   -- a transient error from an invocation that itself cancelled the context before returning
  deriving DecidableEq, Repr

inductive RetryResult | ok | permanent | maxExceeded | cancelled | breakerOpen | exhausted
  deriving DecidableEq, Repr

structure RetryRun where
  result : RetryResult
  calls : List Nat          -- virtual times at which the operation was invoked
  deriving Repr, DecidableEq

def isCancelled (tc : Option Nat) (now : Nat) : Bool :=
  match tc with
  | some c => decide (c ≤ now)
  | none => false

/-- The context is cancelled during a wait of length `d` started at `now`.  A wait that ends exactly
    at the cancellation instant is a `select` tie; `tie` says which branch Go took. -/
def cancelInWait (tc : Option Nat) (now d : Nat) (tie : Bool) : Bool :=
  match tc with
  | some c => decide (c < now + d) || (decide (c = now + d) && tie)
  | none => false

/-- One loop iteration per element of `script`: the outcome of the invocation made in this
    iteration, the backoff the code then draws and the tie flag.  `tc` = the instant the context is
    cancelled (if ever). -/
def retryLoop (maxAttempts : Int) (tc : Option Nat) :
    (attempt : Nat) → (now : Nat) → List (Outcome × Nat × Bool) → List Nat → RetryRun
  | _, _, [], calls => ⟨.exhausted, calls.reverse⟩
  | attempt, now, (o, d, tie) :: rest, calls =>
    if isCancelled tc now then ⟨.cancelled, calls.reverse⟩
    else if o = .breakerOpen then ⟨.breakerOpen, calls.reverse⟩          -- breaker refused: fn not invoked
    else if o = .ok then ⟨.ok, (now :: calls).reverse⟩
    else if o = .perm then ⟨.permanent, (now :: calls).reverse⟩
    else if maxAttempts > 0 ∧ (attempt : Int) ≥ maxAttempts - 1 then ⟨.maxExceeded, (now :: calls).reverse⟩
    else if o = .transCancel then ⟨.cancelled, (now :: calls).reverse⟩   -- the select sees Done (or the next iteration's check does)
    else if cancelInWait tc now d tie then ⟨.cancelled, (now :: calls).reverse⟩
    else retryLoop maxAttempts tc (attempt + 1) (now + d) rest (now :: calls)

def retry (maxAttempts : Int) (tc : Option Nat) (start : Nat) (script : List (Outcome × Nat × Bool)) : RetryRun :=
  retryLoop maxAttempts tc 0 start script []

/-! ### CircuitBreaker -/

inductive CState | closed | opened | halfOpen
  deriving DecidableEq, Repr

structure Breaker where
  threshold : Int
  cooldown : Int
  state : CState := .closed
  failures : Int := 0
  lastFailure : Int := 0      -- virtual ns; zero value of time.Time is "long ago" (see `fresh`)
  deriving Repr, DecidableEq

/-- `Call(fn)` entered at time `now`, where `fn` returns at `fin ≥ now`, with success iff `succ`.  The cooldown is
    checked against the clock at entry; a failure is stamped with the clock when `fn` has returned.
    Returns the new breaker and whether `fn` was invoked. -/
def Breaker.callD (b : Breaker) (now fin : Int) (succ : Bool) : Breaker × Bool :=
  if b.state = .opened ∧ now - b.lastFailure < b.cooldown then (b, false)
  else
    let b1 := if b.state = .opened then { b with state := .halfOpen } else b
    if succ then ({ b1 with failures := 0, state := .closed }, true)
    else
      let f := b1.failures + 1
      ({ b1 with failures := f, lastFailure := fin,
                 state := if f ≥ b1.threshold then .opened else b1.state }, true)

/-- An operation that takes no time. -/
def Breaker.call (b : Breaker) (now : Int) (succ : Bool) : Breaker × Bool := b.callD now now succ

end NLE.Backoff
