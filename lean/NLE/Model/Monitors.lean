import NLE.Model.World
/-
  Property monitors: `step` advances the world model by one visible event and records every clause
  of C01…C19 that the event falsifies.  The same function is (a) run on traces of the real code and
  (b) the statement of the theorems: "no execution of the implementation model makes `step` record a
  failure for property Cxx".
-/
namespace NLE
open World

structure Hyp where
  responsive : Bool := false
  noOutside : Bool := false
  noPreempt : Bool := false
  faultFree : Bool := false
  connOnly : Bool := false
  maxLat : Nat := 0
  faultsEnd : Nat := 0
  deriving Repr, Inhabited

structure MState where
  w : World := {}
  hyp : Hyp := {}
  slow : Bool := false     -- the trace was recorded with a log sink that takes its time: clauses about *when* do not apply
  deriving Repr, Inhabited

namespace Mon

def failW (w : World) (prop clause detail : String) : World :=
  { w with fails := { prop := prop, clause := clause, line := w.line, detail := detail } :: w.fails }

def checkW (w : World) (ok : Bool) (prop clause detail : String) : World :=
  if ok then w else failW w prop clause detail

/-- Stored priority as the takeover comparison reads it. -/
def storedPrio (v : Val) : Option Int :=
  let (ok, _, _, p) := v.structView
  if ok then some p else none

/-- C01: is this successful mutation by instance `i` one of the four legitimate kinds? -/
def legit (w : World) (i : InstW) (op : PendingOp) : Bool × String :=
  let before := w.live op.key
  if op.key ≠ i.cfg.key then (false, "touches another group's key")
  else
    match op.kind with
    | .create => (before.isNone, "create over a live record")
    | .update =>
      match before with
      | none => (false, "update of an absent record")
      | some r =>
        match op.val, r.val with
        | .own id tok _, .own rid rtok _ =>
          if r.writer = i.cfg.id ∧ rid = id ∧ rtok = tok ∧ id = i.cfg.id then (op.exp == r.rev, "refresh against another revision")
          else if id ≠ i.cfg.id then (false, "publishes a foreign identity")
          else
            (i.cfg.takeover && (match storedPrio r.val with | some p => decide (i.cfg.prio > p) | none => false) && op.exp == r.rev,
             "replaces another owner's record without takeover rights / strictly higher priority")
        | .own id _ _, rv =>
          if id ≠ i.cfg.id then (false, "publishes a foreign identity")
          else (i.cfg.takeover && (match storedPrio rv with | some p => decide (i.cfg.prio > p) | none => false) && op.exp == r.rev,
             "replaces a foreign record without takeover rights / strictly higher priority")
        | _, _ => (false, "writes a non-canonical payload")
    | .delete =>
      match before with
      | none => (true, "")
      | some r =>
        -- (judged by the moment the Delete was issued: a call that runs out of time returns while its Delete is still in flight)
        let inStop := op.inStopAtCall
        -- did the deleting instance lead when its stop call began?  (distinguishes the histories of known finding F10)
        let ledAtStop := op.ledAtStop
        let how := if ledAtStop then "it led when its StopWithContext(DeleteKey) began and the record changed hands since"
                   else match i.orphanTok with
                     | some t => s!"it did not lead when its stop call began; it holds the note of an acquired record it never claimed (token {t}, acknowledged after its run had ended) and the record changed hands since"
                     | none => "it did not lead when its stop call began"
        -- (a stop call issues one Delete: a second one - a retry after an answer that did not come - is a history of its own,
        --  not the known finding's)
        let verb := if op.deleteNth ≥ 2 then s!"deletes again (Delete number {op.deleteNth} of its stop call)" else "deletes"
        match r.val with
        | .own rid rtok _ => (r.writer == i.cfg.id && rid == i.cfg.id && rtok == i.lastOwnTok && inStop, s!"{verb} a record it does not own (or outside its own graceful shutdown); {how}")
        | _ => (false, s!"{verb} a record it does not own; {how}")
    | _ => (true, "")

/-- Is this update a refresh (same writer, same identity and token)? -/
def isRefresh (w : World) (i : InstW) (op : PendingOp) : Bool :=
  match w.live op.key, op.val with
  | some r, .own id tok _ =>
    (match r.val with
     | .own rid rtok _ => r.writer == i.cfg.id && rid == id && rtok == tok
     | _ => false)
  | _, _ => false

/-- Is this update a refresh attempt of the running term (same identity and token as the flag)? -/
def isRefresh0 (x : InstW) (op : PendingOp) : Bool :=
  match op.val with
  | .own id tok _ => id == x.cfg.id && tok == x.flagTok
  | _ => false

/-- flags currently raised for `key`. -/
def claimants (w : World) (key : String) : List InstW := w.insts.filter fun x => x.flag ∧ x.cfg.key = key

/-- The time a stop call may take (C09): Stop waits at most 5 s (the demotion callbacks of the harness return at once);
    StopWithContext is bounded by its option, else by its context's deadline, else by the same default. -/
def stopBudget : ApiKind → Option Nat
  | .stop => some 5000000000
  | .stopctx _ _ to cto => some (if to ≠ 0 then to else if cto ≠ 0 then cto else 5000000000)
  | _ => none

/-- C02 state invariant (under its hypotheses). -/
def c02 (w : World) (h : Hyp) : World :=
  if ¬ (h.responsive ∧ h.noOutside ∧ h.noPreempt) then w
  else
    let w1 := w.insts.foldl (fun acc x =>
      if x.flag then
        let others := (claimants w x.cfg.key).filter (·.cfg.id ≠ x.cfg.id)
        let acc := checkW acc others.isEmpty "C02" "two-leaders" s!"instances {x.cfg.id} and {others.map (·.cfg.id)} both report IsLeader"
        match w.live x.cfg.key with
        | some r => checkW acc (match r.val with | .own id t _ => id == x.cfg.id && t == x.flagTok | _ => false)
                      "C02" "claim-not-backed" s!"instance {x.cfg.id} claims with token {x.flagTok} but the live record is {repr r.val}"
        | none => checkW acc false "C02" "claim-not-backed" s!"instance {x.cfg.id} claims but there is no live record"
      else acc) w
    w1

/-- C19: contexts of the term that is ending now which were cancelled strictly earlier. -/
def earlyCancelled (w : World) (x : InstW) (now : Nat) : World :=
  x.ctxs.foldl (fun acc c =>
    match c.cancelledEarly with
    | some tc => checkW acc (c.termEnded || decide (tc ≥ now)) "C19" "context-cancelled-while-leading"
        s!"instance {x.cfg.id}: promotion context {c.cid} (token {c.tok}) was cancelled at {tc}, the term ended at {now}, the callback was still running"
    | none => acc) w

/-- End of a term of instance `i` (flag cleared or stop): mark its promotion contexts. -/
def endTerm (x : InstW) : InstW :=
  { x with ctxs := x.ctxs.map fun c => { c with termEnded := true }, healthRun := 0 }

def stateDocumented (s : Nat) : Bool := s ≤ 5

/-- Documented grace period: configured value, or max(3 heartbeat intervals, 5 s). -/
def graceOf (c : InstCfg) : Nat := if c.grace ≠ 0 then c.grace else max (3 * c.hb) 5000000000

/-- Window after a reconnect notification in which the verification must have completed:
    100 ms settle + 2 s verification time-out + one heartbeat interval of slack. -/
def verifyWindow (c : InstCfg) : Nat := 100000000 + 2000000000 + c.hb

/-- Heartbeat operation time-out: max(H/2, 1 s). -/
def hbTimeout (c : InstCfg) : Nat := max (c.hb / 2) 1000000000

def healthThreshold (c : InstCfg) : Nat := if c.maxFail = 0 then 3 else c.maxFail

def earlier (a : Option (Nat × String)) (b : Nat × String) : Option (Nat × String) :=
  match a with
  | some (d, why) => if d ≤ b.1 then some (d, why) else some b
  | none => some b

/-- C06 bound after a vacancy: periodic check (500 ms) + maximum jitter (100 ms) + operation latencies. -/
def vacancyBound (h : Nat) : Nat := 500000000 + 100000000 + 3 * h

def recordIsMine (w : World) (x : InstW) : Bool :=
  match w.live x.cfg.key with
  | some r => (match r.val with | .own id t _ => id == x.cfg.id && t == x.flagTok | _ => false)
  | none => false

/-- Deadlines that have passed when the clock reaches `t` (checked before the event at `t` is processed). -/
def deadlinesHB (w : World) (t : Nat) : World :=
  w.insts.foldl (fun acc x =>
    -- a refresh attempt that was not answered within the time-out counts as failed at that instant
    let (acc, x) := match x.hbPending with
      | some (_, ct) =>
        if ct + hbTimeout x.cfg ≤ t ∧ x.flag then
          let fails := x.hbFails + 1
          let x1 := { x with hbPending := none, hbFails := fails,
                             demoteDue := if fails ≥ 3 then earlier x.demoteDue (ct + hbTimeout x.cfg, "third consecutive failed heartbeat attempt") else x.demoteDue }
          let acc := if fails ≥ 3 then acc.hit "C03b:third-failure" else acc.hit "C03b:timed-out-attempt"
          let acc := acc.setInst x1
          let acc := checkW acc (!(fails ≥ 3) || decide (ct + hbTimeout x.cfg ≤ x.hbLastOkStart + 3 * x.cfg.hb + 3 * hbTimeout x.cfg))
                       "C03" "third-failure-later-than-3H+3T" s!"instance {x.cfg.id}: third failed attempt completes at {ct + hbTimeout x.cfg}, last successful refresh started at {x.hbLastOkStart}"
          (acc, x1)
        else (acc, x)
      | none => (acc, x)
    -- whatever the loop does or omits: a leader without a successful refresh for one time-out (a slow last success) plus
    -- three attempts (each at most a time-out, a tick apart) plus their health checks has had three consecutive failures
    let T := hbTimeout x.cfg
    let noProgressBy := x.hbLastOkStart + T + 3 * max x.cfg.hb T + 400000000
    let acc := if x.flag ∧ x.stopCalledSince.isNone ∧ ¬ x.noProgressReported ∧ noProgressBy < t then
        checkW (acc.updInst x.cfg.id fun y => { y with noProgressReported := true }) false "C03" "still-claiming-after-deadline"
          s!"instance {x.cfg.id} still reports leadership at {t}: no successful refresh since the one begun at {x.hbLastOkStart} (three failed attempts fit into {T + 3 * max x.cfg.hb T} ns)"
      else acc
    match x.demoteDue with
    | some (d, why) =>
      if d < t then
        let acc := acc.updInst x.cfg.id fun y => { y with demoteDue := none }
        if why == "health threshold reached" then
          checkW acc (!x.flag) "C12" "health-demotion-missing" s!"instance {x.cfg.id} still reports leadership after {d} ({why})"
        else if why == "the reconnect verification's read failed" then
          checkW acc (!x.flag) "C11" "kept-leadership-without-a-fresh-read" s!"instance {x.cfg.id} still reports leadership after {d} ({why})"
        else
          checkW acc (!x.flag) "C03" "still-claiming-after-deadline" s!"instance {x.cfg.id} still reports leadership after {d} ({why})"
      else acc
    | none => acc) w

def deadlinesVacancy (w : World) (h : Nat) (faultsEnd : Nat) (t : Nat) : World :=
  if h = 0 then w else
  w.vacantSince.foldl (fun acc (kv : String × Nat) =>
    let cands := acc.insts.filter fun x => x.cfg.key == kv.1 && x.everStarted && x.stopCalledSince.isNone && !x.cut && !x.flag &&
      !(acc.ops.any fun p => p.inst == x.cfg.id && (p.applied == some Applied.dropped || decide (p.issued < faultsEnd)))
    let since := cands.foldl (fun m x => min m (max x.candidateSince (max kv.2 faultsEnd))) (t + 1)
    if !cands.isEmpty ∧ since + vacancyBound h < t then
      let acc := { acc with vacantSince := acc.vacantSince.map fun p => if p.1 == kv.1 then (p.1, t) else p }
      let acc := failW acc "C06" "vacancy-not-filled" s!"key {kv.1} vacant since {kv.2} (candidates healthy since {since}), nobody leads at {t}; candidates {cands.map (·.cfg.id)}"
      -- C13: whatever an outside party does to the record, no instance stops responding: a vacancy that an outside
      -- deletion made and that the healthy candidates leave unfilled is one
      let acc := if acc.vacantOutside.contains kv.1 then
          failW acc "C13" "passive-after-outside-deletion" s!"key {kv.1}: removed from outside, vacant since {kv.2}; the candidates {cands.map (·.cfg.id)} are running and reachable and none of them acquires it"
        else acc
      -- C12: an instance demoted for its health goes on as a follower and can be re-elected
      if cands.all (·.healthDemoted) then
        failW acc "C12" "not-re-elected-after-health-demotion" s!"key {kv.1} vacant since {kv.2}: the only candidates {cands.map (·.cfg.id)} were demoted by the health mechanism earlier and none of them acquires"
      else acc
    else acc) w

/-- C10 promptness: in fault-free conditions with latencies up to H/10, a strictly higher-priority takeover-enabled
    follower next to a lower-priority owner leads (or the record has changed hands) within three heartbeat intervals. -/
def deadlinesTakeover (w : World) (h : Hyp) (t : Nat) : World :=
  if ¬ (h.responsive ∧ h.noOutside ∧ h.faultsEnd = 0 ∧ h.maxLat > 0) then w else
  w.insts.foldl (fun acc x =>
    if ¬ (x.cfg.takeover ∧ x.everStarted ∧ x.stopCalledSince.isNone ∧ ¬ x.cut ∧ ¬ x.flag ∧ 10 * h.maxLat ≤ x.cfg.hb) then acc else
    match acc.live x.cfg.key, acc.ownerSince.lookup x.cfg.key with
    | some r, some (oid, since) =>
      (match r.val, storedPrio r.val with
       | .own id _ _, some p =>
         let ownerOk := match acc.inst? id with
           | some o => o.flag && !o.cut && o.stopCalledSince.isNone && decide (10 * h.maxLat ≤ o.cfg.hb)
           | none => false
         let s0 := max since x.candidateSince
         if id != x.cfg.id && oid == (id : Int) && decide (x.cfg.prio > p) && ownerOk && decide (s0 + 3 * x.cfg.hb < t) && !x.takeoverLateReported then
           failW (acc.updInst x.cfg.id fun y => { y with takeoverLateReported := true }) "C10" "takeover-not-prompt"
             s!"instance {x.cfg.id} (priority {x.cfg.prio}, takeover enabled) has been a follower of {id} (priority {p}) since {s0}; three heartbeat intervals later ({t}) it still does not lead"
         else acc
       | _, _ => acc)
    | _, _ => acc) w

/-- How long a round can be alive: jitter, three backoffs, four attempts of up to three operations each, and as much
    again for an attempt of another round holding the instance's semaphore (fault-free store, latency bound `L`). -/
def roundLife (L : Nat) : Nat := 1000000000 + 24 * L

def addSpawn (x : InstW) (t L : Nat) : InstW :=
  { x with spawns := t :: x.spawns.filter (fun s => s + roundLife L ≥ t),
           spacingSuspect := match x.spacingSuspect with | some (d, m) => if d = t then none else some (d, m) | none => none }

def deadlines (w : World) (t : Nat) : World :=
  w.insts.foldl (fun acc x =>
    -- C17: an attempt is one Create; a round is at most four attempts; Start makes one attempt of its own; a takeover
    -- opportunity seen by the watcher makes one: the instance never issues more Creates than these account for
    -- (judged when the clock has moved on: a watch notification logged at the very instant of the Create is its cause)
    let acc := match x.jitterSuspect with
      | some (d, msg) => if d < t then failW (acc.updInst x.cfg.id fun y => { y with jitterSuspect := none }) "C17" "round-without-jitter" msg else acc
      | none => acc
    -- C06 / C02: an acquiring write that the store acknowledged makes its writer the leader (unless it has been stopped
    -- meanwhile): a record that names a running instance which does not claim it keeps everybody else out for a TTL
    let acc := match x.claimDue with
      | some d => if d < t then
            failW (acc.updInst x.cfg.id fun y => { y with claimDue := none }) "C06" "acquired-but-not-claimed"
              s!"instance {x.cfg.id}: its acquiring write was acknowledged at {d - 200000000}, it is running and reachable, and by {t} it has not reported leadership: the record keeps the other candidates out"
          else acc
      | none => acc
    let acc := match x.spacingSuspect with
      | some (d, msg) => if d < t then failW (acc.updInst x.cfg.id fun y => { y with spacingSuspect := none }) "C17" "attempts-not-spaced" msg else acc
      | none => acc
    let acc := match x.createDebtAt with
      | some d => if d < t then
            if x.createCredit < 0 then
              failW (acc.updInst x.cfg.id fun y => { y with createDebtAt := none, createCredit := 0 }) "C17" "more-creates-than-attempts"
                s!"instance {x.cfg.id}: Create at {d} that no accepted Start, acquisition round (four attempts) or takeover opportunity (one attempt) accounts for"
            else acc.updInst x.cfg.id fun y => { y with createDebtAt := none }
          else acc
      | none => acc
    -- C11: a leader that got a reconnect notification reads the record afresh (100 ms settle time, then at once)
    let acc := match x.verifyReadDue with
      | some d => if d < t then
            let acc := acc.updInst x.cfg.id fun y => { y with verifyReadDue := none }
            checkW acc (!(x.flag && x.stopCalledSince.isNone && !x.cut)) "C11" "kept-leadership-without-a-fresh-read"
              s!"instance {x.cfg.id} still leads at {t}: the reconnect notification of {d - 100000000} was not followed by a verification read"
          else acc
      | none => acc
    let acc := match x.graceDue with
      | some d => if d < t ∧ x.flag then
            failW (acc.updInst x.cfg.id fun y => { y with graceDue := none }) "C11" "grace-demotion-missing"
              s!"instance {x.cfg.id} still leads after its grace period ended at {d} with no reconnect notification"
          else if d < t then acc.updInst x.cfg.id fun y => { y with graceDue := none }   -- the timer fired on a follower: nothing to do
          else acc
      | none => acc
    match x.verifyOpen with
    | some (r, foreign) =>
      if r + verifyWindow x.cfg < t then
        let acc := acc.updInst x.cfg.id fun y => { y with verifyOpen := none }
        -- (the verification's reads must have been answered: an instance whose operations never reach the store, or are
        -- never answered, is demoted by its heartbeat time-outs instead — C03)
        let unanswered := acc.ops.any fun p => p.inst == x.cfg.id && decide (r ≤ p.issued) &&
          (p.applied == some Applied.dropped || p.applied == some Applied.fault || p.applied == none)
        checkW acc (!(foreign && x.flag) || unanswered || x.cut) "C11" "reconnect-verification-missing"
          s!"instance {x.cfg.id} still leads {verifyWindow x.cfg} ns after the reconnect notification at {r} although the record was never its own"
      else acc
    | none => acc) w

/-- After any change of the store: a record that is (again) the instance's own ends "never mine";
    vacancies are (un)registered; validate calls in progress note what they could have seen. -/
def verifyTrack (w : World) : World :=
  let w := { w with insts := w.insts.map fun (x : InstW) =>
      match x.verifyOpen with
      | some (r, true) => if recordIsMine w x then { x with verifyOpen := some (r, false) } else x
      | _ => x }
  let keys := (w.insts.map fun (x : InstW) => x.cfg.key).eraseDups
  let vac := keys.filterMap fun k =>
    match w.live k with
    | some _ => none
    | none => match w.vacantSince.lookup k with
      | some t => some (k, t)
      | none => some (k, w.now)
  let w := { w with vacantSince := vac }
  let own := keys.filterMap fun k =>
    match w.live k with
    | none => none
    | some r =>
      let id : Int := match r.val.mapView with | (true, mid, _) => mid | _ => -1
      match w.ownerSince.lookup k with
      | some (oid, t) => if oid = id then some (k, oid, t) else some (k, id, w.now)
      | none => some (k, id, w.now)
  let w := { w with ownerSince := own }
  { w with apis := w.apis.map fun (a : ApiCall) =>
      match a.kind with
      | ApiKind.validate _ | ApiKind.validateOrDemote _ =>
        (match w.inst? a.inst with
         | some x => (match w.live x.cfg.key with
            | some r => (match r.val.mapView with
                | (true, mid, mtok) => if mid = (a.inst : Int) ∧ mtok ≥ 0 then { a with sawValid := mtok.toNat :: a.sawValid } else a
                | _ => a)
            | none => a)
         | none => a)
      | _ => a }

/-- C03(a): the record of a claiming instance was replaced / deleted / expired underneath it. -/
def recordLost (w : World) (h : Hyp) (key : String) (before : Option Rec) : World :=
  match before with
  | some r =>
    (match r.val with
     | .own id tok _ =>
       (match w.inst? id with
        | some x =>
          if x.flag ∧ x.flagTok = tok ∧ x.cfg.key = key ∧ ¬ x.cut ∧ w.now ≥ h.faultsEnd ∧ h.maxLat > 0 ∧ ¬ recordIsMine w x then
            let w := w.hit "C03a:record-lost-under-leader"
            w.setInst { x with lostAt := some w.now,
                               demoteDue := earlier x.demoteDue (w.now + x.cfg.hb + 2 * hbTimeout x.cfg, "its record was replaced, deleted or expired") }
          else w
        | none => w)
     | _ => w)
  | none => w

/-- One visible event. -/
def step (m : MState) (e : TEv) : MState :=
  -- after `end` the harness tears the scenario down: no obligation is evaluated any more
  if m.w.ended && (match e.ev with | .gor _ => false | .wleft _ => false | _ => true) then { m with w := { m.w with line := m.w.line + 1, now := e.t } } else
  -- (the final goroutine count comes after `end`, when the harness has torn everything down: no deadline applies then)
  let w0 : World := { m.w with line := m.w.line + 1 }
  let w0 := if m.w.ended then w0 else
    if m.slow then w0 else
    deadlinesTakeover (deadlinesVacancy (deadlinesHB (deadlines w0 e.t) e.t) m.hyp.maxLat m.hyp.faultsEnd e.t) m.hyp e.t
  let w0 := { w0 with now := e.t }
  let h := m.hyp
  -- after `end` the harness tears the scenario down (stops every instance); only the final goroutine count matters
  if m.w.ended && (match e.ev with | .gor _ => false | .wleft _ => false | _ => true) then { m with w := w0 } else
  match e.ev with
  | .hyp a b c d f ml fe => { m with w := w0, hyp := ⟨a, b, c, d, f, ml, fe⟩ }
  | .slowSink => { m with w := w0, slow := true }
  | .inst c => { m with w := { w0 with insts := w0.insts ++ [{ cfg := c }] } }
  | .call op i kind key exp val =>
    let stopDel := w0.apis.any fun a => a.inst == i && (match a.kind with | .stopctx d _ _ _ => d | _ => false)
    let stopLed := w0.apis.any fun a => a.inst == i && a.flagAtCall && (match a.kind with | .stopctx d _ _ _ => d | _ => false)
    let nth := match w0.inst? i with | some x => if kind == OpKind.delete then x.stopDeletes + 1 else 0 | none => 0
    let w0 := if kind == OpKind.delete then w0.updInst i fun x => { x with stopDeletes := x.stopDeletes + 1 } else w0
    let w := { w0 with ops := { id := op, inst := i, kind := kind, key := key, exp := exp, val := val, issued := e.t,
                                inStopAtCall := stopDel, ledAtStop := stopLed, deleteNth := nth } :: w0.ops }
    let w := match w.inst? i with
      | some x =>
        -- C09: no new store operation after a stop returned (until the next Start)
        -- (the Delete of a StopWithContext that is still in progress is part of that call, whatever another, overlapping
        -- stop call has already returned)
        let w := checkW w (x.stoppedSince.isNone || (kind == .delete && decide (x.stopsInProgress > 0))) "C09" "store-op-after-stop" s!"instance {i} issues {repr kind} after its stop returned"
        -- C13: no spinning — more than 60 store calls of one instance within 100 ms is not timer-paced activity
        let recent := e.t :: (x.recentCalls.filter fun t => t + 100000000 > e.t)
        let w := checkW w (recent.length ≤ 60 || x.recentCalls.length > 60) "C13" "store-hammering" s!"instance {i} issued {recent.length} store operations within 100 ms"
        -- C17: every acquisition round waits a jitter of at least 10 ms before its first attempt: a Create that is this
        -- instance's first for two seconds (no round of its own can still be running), issued less than that after the
        -- periodic check that found the key vacant, with no watch notification in the last jitter window that could have
        -- started a round earlier, belongs to a round that did not wait
        let x := if kind == OpKind.create && !x.flag then
            if ((match x.lastMissAt, x.trigs with
                         | some r, [t1] => r == t1 && decide (e.t < r + 10000000)
                         | some r, t1 :: t0 :: _ => r == t1 && decide (e.t < r + 10000000) && decide (t0 + 100000000 + m.hyp.maxLat < e.t)
                         | _, _ => false) &&
                       (match x.lastCreateAt with | some c => decide (c + 2000000000 < e.t) | none => true) && m.hyp.maxLat > 0)
            then { x with jitterSuspect := some (e.t, s!"instance {i}: Create {repr (x.lastMissAt.map fun r => e.t - r)} ns after the periodic check that found the key vacant") }
            else x
          else x
        -- C17: an attempt is one Create; a round is at most four attempts; Start makes one attempt of its own; a takeover
        -- opportunity seen by the watcher makes one: the instance never issues more Creates than these account for
        -- (the harness logs a notification once the library has taken it from the channel - after the calls its handler made
        -- at once; a Create that nothing accounts for yet is judged when the clock has moved on: `deadlines`)
        -- C17: the attempts of a round are separated by the backoff (at least 45 ms: 50 ms less 10 %).  When one round (or
        -- one takeover attempt) is all that can be alive - a single spawn in the life span of a round, fault-free store - two
        -- Creates after it that are closer than that cannot both be its attempts
        let x := if kind == OpKind.create && m.hyp.maxLat > 0 && m.hyp.faultsEnd == 0 && !x.cut &&
                    (match x.lastCutAt with | some c => decide (c + roundLife m.hyp.maxLat + 2000000000 < e.t) | none => true) then
            match x.lastCreateAt, x.spawns.filter (fun sp => sp + roundLife m.hyp.maxLat ≥ e.t) with
            | some c, [sp] =>
              if sp ≤ c ∧ c + 45000000 > e.t then
                { x with spacingSuspect := some (e.t, s!"instance {i}: Creates at {c} and {e.t}, {e.t - c} ns apart, and the only round that can be running began at {sp}: its attempts are at least 45 ms apart") }
              else x
            | _, _ => x
          else x
        let x := if kind == OpKind.create then { x with lastCreateAt := some e.t, lastMissAt := none, createCredit := x.createCredit - 1, createDebtAt := if x.createCredit ≤ 0 ∧ x.createDebtAt.isNone then some e.t else x.createDebtAt } else x
        let x := { x with recentCalls := recent, runToks := (match val with | .own id tok _ => if id == i && !x.runToks.contains tok then tok :: x.runToks else x.runToks | _ => x.runToks) }
        let w := w.setInst x
        let isRefreshAttempt := kind == .update && x.flag && (match val with | .own id tok _ => id == i && tok == x.flagTok | _ => false)
        if isRefreshAttempt then
          w.setInst { x with hbPending := some (op, e.t) }
        else w
      | none => w
    { m with w := w }
  | .apply op a =>
    match w0.op? op with
    | none => { m with w := failW w0 "TRACE" "apply-unknown-op" s!"{op}" }
    | some p =>
      let w := { w0 with ops := w0.ops.map fun q => if q.id = op then { q with applied := some a, appliedAt := e.t } else q }
      match a with
      | .ok rev =>
        -- the store model must agree with the reference store of the harness
        let expect := w.storeAnswer p
        let w := if p.kind = .watch ∨ expect = .ok rev then w
                 else { w with storeMismatch := s!"line {w.line}: op {op} {repr p.kind} applied ok {rev}, store model says {repr expect}" :: w.storeMismatch }
        match p.kind, w.inst? p.inst with
        | .create, some x | .update, some x | .delete, some x =>
          let (ok, why) := legit w x p
          let w := w.hit (match p.kind with
            | .create => "C01:create"
            | .update => if isRefresh w x p then "C01:refresh" else "C01:takeover"
            | _ => "C01:delete")
          let w := checkW w ok "C01" (if p.kind = .update ∧ ¬ isRefresh w x p then "illegitimate-takeover" else "illegitimate-mutation")
                    s!"instance {x.cfg.id} {repr p.kind} exp={p.exp} val={repr p.val} over {repr (w.live p.key)}: {why}"
          -- C05: a write of a leader over its own record (a refresh) republishes exactly the identity and token it replaces
          let w := match p.kind, w.live p.key with
            | .update, some r =>
              if x.flag && r.writer == x.cfg.id && (match r.val with | .own rid rtok _ => rid == x.cfg.id && rtok == x.flagTok | _ => false) then
                checkW w (match p.val, r.val with | .own id tok _, .own rid rtok _ => id == rid && tok == rtok | _, _ => false)
                  "C05" "refresh-changes-token" s!"instance {x.cfg.id} (term token {x.flagTok}) overwrites its own record {repr r.val} with {repr p.val}"
              else w
            | _, _ => w
          -- C10: the same judgement for the replacement of somebody else's record
          let w := if p.kind = .update ∧ ¬ isRefresh w x p then
              (checkW w ok "C10" "takeover-without-rights"
                s!"instance {x.cfg.id} (priority {x.cfg.prio}, takeover {x.cfg.takeover}) replaces {repr (w.live p.key)}: {why}").hit "C10:takeover"
            else w
          -- C10: the priority stored in a record is its owner's (what the takeover rule of the others compares against)
          let w := match p.kind, p.val with
            | .delete, _ => w
            | _, .own id _ pr =>
              checkW w (id ≠ x.cfg.id ∨ pr = x.cfg.prio) "C10" "record-advertises-wrong-priority"
                s!"instance {x.cfg.id} (priority {x.cfg.prio}) writes a record that advertises priority {pr}: an instance of priority between the two can now depose it"
            | _, _ => w
          -- C13: a live record the instance did not write is replaced only by legitimate preemption
          let w := if p.kind = .update ∧ ¬ isRefresh w x p then
              checkW w ok "C13" "foreign-record-replaced" s!"instance {x.cfg.id} replaces the live record {repr (w.live p.key)} it did not write: {why}"
            else w
          -- C05: acquisitions publish a never-seen token; refreshes republish the same one
          let w := match p.kind, p.val with
            | .create, .own _ tok _ => checkW w (¬ w.tokensSeen.contains tok) "C05" "token-reused" s!"create by {x.cfg.id} republishes token {tok}"
            | .update, .own _ tok _ =>
              if isRefresh w x p then w
              else checkW w (¬ w.tokensSeen.contains tok) "C05" "token-reused" s!"takeover by {x.cfg.id} republishes token {tok}"
            | _, _ => w
          let newVal := if p.kind = .delete then none else some p.val
          let kind : MutKind := match p.kind with | .create => .create | .update => .update | _ => .delete
          let beforeRec := w.live p.key
          let w := w.mutate p.inst kind p.key p.exp newVal
          let w := recordLost w h p.key beforeRec
          let w := match p.val with
            | .own _ tok _ => if p.kind = .delete then w else w.updInst p.inst fun y => { y with lastOwnTok := tok }
            | _ => w
          { m with w := c02 (verifyTrack w) h }
        | _, _ => { m with w := w }
      | .fail k =>
        let expect := w.storeAnswer p
        let w := if expect = .fail k then w
                 else { w with storeMismatch := s!"line {w.line}: op {op} {repr p.kind} refused {repr k}, store model says {repr expect}" :: w.storeMismatch }
        { m with w := w }
      | _ => { m with w := w }
  | .ret op r =>
    match w0.op? op with
    | none => { m with w := failW w0 "TRACE" "ret-unknown-op" s!"{op}" }
    | some p =>
      let w := { w0 with ops := w0.ops.filter (·.id ≠ op) }
      let w := match r, w.inst? p.inst with
        | .err k, some x =>
          let x := if p.site == "checkKeyAndReelect" then { (addSpawn x e.t m.hyp.maxLat) with createCredit := x.createCredit + 4 } else x
          let w := w.setInst x
          if (p.site == "checkKeyAndReelect" || p.site == "watchLoop") && !x.flag then
            w.setInst { x with trigs := (e.t :: x.trigs).take 2, lastMissAt := if k == ErrKind.notfound && p.site == "checkKeyAndReelect" then some e.t else x.lastMissAt }
          else w
        | .ok _ v, some x =>
          let x := if p.site == "checkKeyAndReelect" && (match v with | none | some .empty => true | _ => false)
                   then { (addSpawn x e.t m.hyp.maxLat) with createCredit := x.createCredit + 4 } else x
          let w := w.setInst x
          -- (a record that the decoders cannot read, or an empty one, starts a round as well)
          if p.site == "checkKeyAndReelect" && !x.flag then w.setInst { x with trigs := (e.t :: x.trigs).take 2 } else w
        | _, _ => w
      -- C11: after a reconnect notification the leader keeps leadership only if a fresh read shows its own record: a
      -- verification read that is answered with an error shows nothing
      let w := match r, w.inst? p.inst with
        | .err _, some x =>
          if p.site == "verifyLeadershipAfterReconnect" && x.flag && x.stopCalledSince.isNone then
            w.setInst { x with demoteDue := earlier x.demoteDue (e.t, "the reconnect verification's read failed") }
          else w
        | _, _ => w
      -- an acquiring write acknowledged after the run has ended (stop call begun or context cancelled) is refused promotion:
      -- the instance keeps a note of the orphan record (it deletes it in a later StopWithContext{DeleteKey})
      let w := match r, p.val, w.inst? p.inst with
        | .ok _ _, .own id tok _, some x =>
          if (p.kind == OpKind.create || p.kind == OpKind.update) && id == p.inst && !x.flag && x.stopCalledSince.isSome && x.runToks.contains tok
          then w.updInst p.inst fun y => { y with orphanTok := some tok } else w
        | _, _, _ => w
      let w := match r, p.val, w.inst? p.inst with
        | .ok _ _, .own id _ _, some x =>
          if (p.kind == OpKind.create || (p.kind == OpKind.update && p.site == "attemptPriorityTakeover")) && id == p.inst &&
             !x.flag && x.stopCalledSince.isNone && !x.cut
          then w.updInst p.inst fun y => { y with claimDue := some (e.t + 200000000) } else w
        | _, _, _ => w
      let w := match r, p.kind with
        | .ok rev _, .create => w.updInst p.inst fun y => { y with lastAckRev := rev, lastAckAt := e.t, lastAcqRev := rev, lastAcqAt := e.t }
        | .ok rev _, .update =>
          -- the heartbeat loop gives up on an attempt after its time-out: an answer that arrives later is discarded (HB model),
          -- so it does not count as the leader's latest acknowledged write; neither does the answer to a write of an earlier
          -- term (a heartbeat still in flight when a stop call gave up waiting, answered after the restart's acquisition)
          let late := match w.inst? p.inst with
            | some x => x.flag && (!isRefresh0 x p || decide (p.issued + hbTimeout x.cfg < e.t))
            | none => false
          let w := if p.site == "attemptPriorityTakeover" then w.updInst p.inst fun y => { y with lastAcqRev := rev, lastAcqAt := e.t } else w
          if late then w else w.updInst p.inst fun y => { y with lastAckRev := rev, lastAckAt := e.t }
        | .err _, .delete => w.updInst p.inst fun y => { y with lastDeleteFailedAt := some e.t }
        | _, _ => w
      -- C06: an instance that has just seen a store failure counts as a healthy candidate from now on at the earliest
      let w := match r with
        | .err k => if k = ErrKind.timeout ∨ k = ErrKind.noresponders ∨ k = ErrKind.closed ∨ k = ErrKind.other
                    then w.updInst p.inst fun y => { y with candidateSince := max y.candidateSince e.t } else w
        | _ => w
      let w := match w.inst? p.inst with
        | some x =>
          (match x.hbPending with
           | some (hop, ct) =>
             if hop = op ∧ x.flag then
               if e.t > ct + hbTimeout x.cfg then w   -- answered after the time-out: already counted as failed, the answer is discarded
               else
                 match r with
                 | .ok _ _ => w.setInst { x with hbPending := none, hbFails := 0, hbLastOkStart := ct, noProgressReported := false }
                 | .err k =>
                   if k = ErrKind.wrongseq ∨ k = ErrKind.notfound then
                     let w := w.hit "C03a:refresh-refused"
                     w.setInst { x with hbPending := none, demoteDue := earlier x.demoteDue (e.t, "its refresh was refused (record changed)") }
                   else
                     let fails := x.hbFails + 1
                     let w := checkW w (!(fails ≥ 3) || decide (e.t ≤ x.hbLastOkStart + 3 * x.cfg.hb + 3 * hbTimeout x.cfg))
                                "C03" "third-failure-later-than-3H+3T" s!"instance {x.cfg.id}: third failed attempt completes at {e.t}, last successful refresh started at {x.hbLastOkStart}"
                     let w := if fails ≥ 3 then w.hit "C03b:third-failure" else w.hit "C03b:failed-attempt"
                     w.setInst { x with hbPending := none, hbFails := fails,
                                        demoteDue := if fails ≥ 3 then earlier x.demoteDue (e.t, "third consecutive failed heartbeat attempt") else x.demoteDue }
             else w
           | none => w)
        | none => w
      -- C02 hypothesis "responsive": every answer within H/2
      let w := match w.inst? p.inst with
        | some x => if h.responsive ∧ p.kind ≠ .watch ∧ e.t - p.issued > x.cfg.hb / 2
                    then failW w "HYP" "responsive" s!"op {op} took {e.t - p.issued} ns" else w
        | none => w
      { m with w := w }
  | .expire key rev =>
    let w := match w0.live key with
      | some r => if r.rev = rev then recordLost (w0.mutate 0 .expire key 0 none) h key (some r)
                  else { w0 with storeMismatch := s!"line {w0.line}: expire of {key} rev {rev} but live rev is {r.rev}" :: w0.storeMismatch }
      | none => { w0 with storeMismatch := s!"line {w0.line}: expire of absent {key}" :: w0.storeMismatch }
    { m with w := c02 (verifyTrack w) h }
  | .texpire key rev =>
    { m with w := { w0 with tombs := w0.tombs.filter fun p => !(p.1 == key && p.2 == rev) } }
  | .extPut key _ val =>
    let w := checkW w0 (¬ h.noOutside) "HYP" "no-outside-writer" "ext put"
    { m with w := c02 (verifyTrack (recordLost (w.mutate 0 .extPut key 0 (some val)) h key (w.live key))) h }
  | .extDelete key _ =>
    let w := checkW w0 (¬ h.noOutside) "HYP" "no-outside-writer" "ext delete"
    let w := { w with vacantOutside := if w.vacantOutside.contains key then w.vacantOutside else key :: w.vacantOutside }
    { m with w := c02 (verifyTrack (recordLost (w.mutate 0 .extDelete key 0 none) h key (w.live key))) h }
  | .wev _ i rev wv =>
    -- a notification older than the newest version of the key is stale news for the follower's LeaderID (C18 convergence)
    match w0.inst? i with
    | none => { m with w := w0 }
    | some x =>
      let newest := match w0.live x.cfg.key with
        | some rr => rr.rev
        | none => (w0.tombs.lookup x.cfg.key).getD 0
      let credit : Nat := match wv with
        | none | some .empty => 4
        | some (.own _ _ p) => if x.cfg.takeover ∧ x.cfg.prio > p then 1 else 0
        | some (.raw _) => if x.cfg.takeover then 1 else 0
      let x := if credit > 0 then addSpawn x e.t m.hyp.maxLat else x
      let x := { x with trigs := (e.t :: x.trigs).take 2,
                        jitterSuspect := (match x.jitterSuspect with | some (d, msg) => if d = e.t then none else some (d, msg) | none => none),
                        createCredit := x.createCredit + credit }
      if rev ≠ 0 ∧ rev < newest then { m with w := w0.setInst { x with lastStaleWev := e.t } } else { m with w := w0.setInst x }
  | .wdrop _ _ _ => { m with w := w0 }
  | .cancelCtx i =>
    -- the application ends the run by cancelling the context it passed to Start ("the election will stop gracefully"):
    -- from here on the instance is not expected to lead, compete or refresh; a leader must step down (C03 / C08 clauses apply)
    { m with w := w0.updInst i fun x => { x with stopCalledSince := some e.t, graceDue := none, verifyOpen := none, claimDue := none, runCancelledAt := some e.t } }
  | .site op fn =>
    -- C09: background activity ends as soon as operations already in flight return — an operation that a background
    -- goroutine issues after a stop call began is remembered and judged when that call returns successfully
    match w0.op? op with
    | none => { m with w := w0 }
    | some p =>
      let w0 := { w0 with ops := w0.ops.map fun (q : PendingOp) => if q.id = op then { q with site := fn } else q }
      let w0 := if fn == "verifyLeadershipAfterReconnect" then w0.updInst p.inst fun y => { y with verifyReadDue := none } else w0
      match w0.inst? p.inst with
      | none => { m with w := w0 }
      | some x =>
        match x.stopCalledSince with
        | some ts =>
          -- (the stop call's own key deletion - whatever function of the library issues it - is not background activity:
          --  whether it may delete what it deletes is C01's business)
          if ts < p.issued ∧ x.stopsInProgress > 0 ∧ fn ≠ "StopWithContext" ∧ fn ≠ "Stop" ∧ p.kind ≠ OpKind.delete then
            { m with w := w0.setInst { x with opsDuringStop := (op, fn, p.issued) :: x.opsDuringStop } }
          else { m with w := w0 }
        | none => { m with w := w0 }
  | .flag i b il tok lid =>
    match w0.inst? i with
    | none => { m with w := w0 }
    | some x0 =>
      let x := { x0 with gaugeLast := some b }
      let w0 := w0.setInst x
      let w := checkW w0 (b = il) "C18" "gauge-differs-from-flag" s!"instance {i}: gauge {b} but IsLeader() {il}"
      if il then
        -- the flag is raised (or re-asserted)
        let own := w.hist.any fun mu => mu.who == i && (mu.kind == .create || mu.kind == .update) &&
                      (match mu.after with | some r => (match r.val with | .own id t _ => id == i && t == tok | _ => false) | none => false)
        let w := checkW w own "C13" "claim-without-own-write" s!"instance {i} raises the flag with token {tok} it never published"
        let w := checkW w (x.stoppedSince.isNone) "C09" "leader-after-stop" s!"instance {i} reports leadership after its stop returned"
        -- C19: a term that begins in a run whose context the application has already cancelled has a promotion context that is
        -- cancelled from the start, and nothing left to end it (the run's loops are gone)
        let w := checkW w (x.flag || (match x.runCancelledAt with | some tc => decide (tc ≥ e.t) | none => true)) "C19" "term-begins-in-a-cancelled-run"
          s!"instance {i} starts a term at {e.t}; the context of its run was cancelled at {repr x.runCancelledAt} and it has not been started again"
        let w := checkW w (lid = i) "C18" "leader-leaderid" s!"instance {i} is leader but LeaderID() is {lid}"
        let w := checkW w (¬ x.flag ∨ x.flagTok = tok) "C05" "token-changed-within-term" s!"instance {i}: token {x.flagTok} → {tok} while leading"
        let w := checkW w (x.flag ∨ ¬ x.claimedToks.contains tok) "C05" "token-reclaimed" s!"instance {i} starts a second term with token {tok}"
        let w := w.setInst { x with flag := true, flagTok := tok, gauge := b, claimDue := none, claimedToks := tok :: x.claimedToks,
                                     healthRun := if x.flag then x.healthRun else 0,
                                     lastHealthAt := if x.flag then x.lastHealthAt else none,
                                     hbLastOkStart := if x.flag then x.hbLastOkStart else e.t,
                                     noProgressReported := if x.flag then x.noProgressReported else false,
                                     hbFails := if x.flag then x.hbFails else 0,
                                     hbPending := if x.flag then x.hbPending else none }
        let w := if x.flag then w else w.hit "C05:term-started"
        let w := if (w.vacantSince.any (·.1 == x.cfg.key)) then w.hit "C06:vacancy-filled" else w
        let w := { w with vacantSince := w.vacantSince.filter (·.1 != x.cfg.key), vacantOutside := w.vacantOutside.filter (· != x.cfg.key) }
        { m with w := c02 (verifyTrack w) h }
      else
        let x' := if x.flag then endTerm x else x
        let w := if x.flag then earlyCancelled w x e.t else w
        let w := if x.flag ∧ x.graceDue == some e.t then w.hit "C11:grace-demotion" else w
        let hd := x.flag && x.lastHealthAt == some (e.t, false) && decide (x.healthRun ≥ healthThreshold x.cfg)
        let w := if x.flag ∧ x.lastHealthAt == some (e.t, false) then w.hit "C12:health-demotion" else w
        let w := if x.flag ∧ x.stopCalledSince.isNone then w.hit "C08:demotion-not-by-stop" else w
        -- C11: with nothing but connection notifications going on, the only demotion is the grace expiry, at exactly its instant
        let w := checkW w (!(h.connOnly && x.flag && x.stopCalledSince.isNone) || x.graceDue == some e.t || x.graceTie == some e.t) "C11" "demoted-outside-grace-expiry"
                   s!"instance {i} is demoted at {e.t}; latest disconnect {repr x.discAt}, grace deadline {repr x.graceDue}"
        -- C12: a demotion on a tick whose health check failed, below the threshold, with no other cause due
        let w := checkW w (!(x.flag && x.stopCalledSince.isNone && x.lastHealthAt == some (e.t, false) && decide (x.healthRun < healthThreshold x.cfg)
                              && (match x.demoteDue with | some (d, _) => decide (d > e.t) | none => true)))
                   "C12" "health-demotion-before-threshold" s!"instance {i} demoted after {x.healthRun} consecutive unhealthy checks of this term, threshold {healthThreshold x.cfg}"
        -- (the grace timer outlives a term that ends for another reason: an instance that leads again when it fires - still
        --  without a reconnect notification - is demoted then)
        let w := w.setInst { x' with flag := false, gauge := b, verifyReadDue := none, healthDemoted := x'.healthDemoted || hd, graceDue := (if x.graceDue == some e.t then none else x.graceDue), verifyOpen := none, demoteDue := none, lostAt := none,
                                      hbPending := none, hbFails := 0, lastHealthAt := none, candidateSince := e.t }
        -- C07: in fault-free operation a leader is never demoted before it is stopped
        let w := checkW w (¬ (h.faultFree ∧ x.flag ∧ x.stopCalledSince.isNone)) "C07" "leader-demoted-fault-free"
                   s!"instance {i} (token {x.flagTok}) loses leadership without being stopped"
        { m with w := w }
  | .trans i f t =>
    match w0.inst? i with
    | none => { m with w := w0 }
    | some x =>
      let w := checkW w0 (f = x.lastTo) "C18" "transition-chain-broken" s!"instance {i}: transition {f}→{t} but previous state was {x.lastTo}"
      let w := checkW w (stateDocumented f ∧ stateDocumented t) "C18" "undocumented-state" s!"instance {i}: {f}→{t}"
      let w := checkW w (¬ (x.stoppedSince.isSome ∧ t ≠ 5)) "C18" "transition-after-stop" s!"instance {i}: {f}→{t} after its stop returned"
      { m with w := w.setInst { x with lastTo := t, transCount := x.transCount + 1 } }
  | .promote i tok cid dn =>
    match w0.inst? i with
    | none => { m with w := w0 }
    | some x =>
      let w := checkW w0 (¬ x.termOpen) "C08" "promote-twice" s!"instance {i}: promotion callback while a term is already open"
      let w := checkW w (x.claimedToks.head? = some tok) "C08" "promote-wrong-token" s!"instance {i}: callback token {tok}, term token {x.claimedToks.head?}"
      -- C05: every term has its own token and one promotion callback: no two callbacks are handed the same token
      let w := checkW w (!x.promoToks.contains tok) "C05" "callback-token-repeated" s!"instance {i}: a second promotion callback is handed token {tok} (the callback of an earlier term reads the token when it is called, not when the term began)"
      let w := checkW w (x.stoppedSince.isNone) "C09" "promote-after-stop" s!"instance {i}: promotion callback after its stop returned"
      -- (a stop call in progress, or the application's own cancellation of the run's context, is ending the term: the
      --  flag is lowered before the callback is awaited, the gauge event comes at the end of the critical section)
      let w := checkW w (!(dn && x.flag && x.stopCalledSince.isNone)) "C19" "context-cancelled-at-start" s!"instance {i}: promotion context {cid} already cancelled when the callback starts"
      let c : CtxW := { cid := cid, tok := tok, cancelled := dn, termEnded := !x.flag || x.flagTok != tok || x.stopCalledSince.isSome }
      let x1 : InstW := { x with termOpen := true, promotes := x.promotes + 1, ctxs := c :: x.ctxs, promoToks := tok :: x.promoToks }
      { m with w := w.setInst x1 }
  | .promoteRet i cid =>
    { m with w := w0.updInst i fun x => { x with ctxs := x.ctxs.map fun c => if c.cid = cid then { c with cbRunning := false } else c } }
  | .ctxDone i cid =>
    -- A cancellation at the very instant the term ends is fine (same-instant order is scheduling); one that is
    -- strictly earlier than the end of the term is reported when the term ends (or at the end of the trace).
    { m with w := w0.updInst i fun x => { x with ctxs := x.ctxs.map fun c =>
        if c.cid = cid then
          { c with cancelled := true,
                   cancelledEarly := if !c.termEnded && c.cbRunning && x.stopsInProgress == 0 then some e.t else none }
        else c } }
  | .demote i =>
    match w0.inst? i with
    | none => { m with w := w0 }
    | some x =>
      let w := checkW w0 (x.termOpen) "C08" "demote-without-promote" s!"instance {i}: demotion callback with no open term"
      let w := checkW w (¬ x.flag) "C08" "demote-while-leader" s!"instance {i}: demotion callback while IsLeader() is still true"
      { m with w := w.setInst { x with termOpen := false, demotes := x.demotes + 1 } }
  | .api n i k =>
    let w := { w0 with apis := { n := n, inst := i, kind := k, t := e.t,
                                  flagAtCall := (match w0.inst? i with | some x => x.flag | none => false),
                                  demotesAtCall := (match w0.inst? i with | some x => x.demotes | none => 0),
                                  ownerAtCall := (match w0.inst? i with
                                    | some x => (match w0.live x.cfg.key with
                                        | some rr => (match rr.val with | .own id tok _ => id == i && rr.writer == i && x.runToks.contains tok | _ => false)
                                        | none => false)
                                    | none => false),
                                  tokAtCall := (match w0.inst? i with | some x => x.flagTok | none => 0) } :: w0.apis }
    let w := match k with
      | .start => w      -- takes effect when it returns ok (it holds the election's lock for the whole call)
      | .validate _ | .validateOrDemote _ => verifyTrack w
      | .stop | .stopctx _ _ _ _ => (match w.inst? i with | some x => earlyCancelled w x e.t | none => w).updInst i fun x =>
          let y := endTerm x
          { y with stopsInProgress := x.stopsInProgress + 1, stopCalledSince := some e.t, graceDue := none, verifyOpen := none, claimDue := none, stopDeletes := 0 }
    { m with w := w }
  | .apiRet n i r =>
    match w0.apis.find? (·.n = n), w0.inst? i with
    | some a, some x =>
      let w := { w0 with apis := w0.apis.filter (·.n ≠ n) }
      -- C09: a stop call returns within its time budget (whatever it returns)
      let w := match stopBudget a.kind with
        | some b => checkW w (decide (e.t ≤ a.t + b)) "C09" "stop-exceeds-its-timeout"
            s!"instance {i}: {repr a.kind} called at {a.t} returned at {e.t}, {e.t - a.t - b} ns after its time budget of {b} ns"
        | none => w
      let w := match a.kind, r with
        | .start, .ok =>
          ({ w with apis := w.apis.map fun (a : ApiCall) => if a.inst = i then { a with superseded := true } else a } : World).updInst i fun x =>
            let x := addSpawn x e.t m.hyp.maxLat
            { x with runToks := [], orphanTok := none, stoppedSince := none, stopCalledSince := none, everStarted := true, lastTo := 1, startedAt := e.t, candidateSince := e.t, lastMissAt := none, trigs := [], createCredit := x.createCredit + 1, runCancelledAt := none }   -- (Start's own attempt is not a round: it does not wait)
        | .stop, .ok =>
          -- a Start called while this stop was in progress begins a new run: the stop's guarantees end there
          if a.superseded then (w.setInst { x with stopsInProgress := x.stopsInProgress - 1 }).hit "C09:stop-superseded-by-start" else
          let w := x.opsDuringStop.foldl (fun acc (o : Nat × String × Nat) =>
            checkW acc (decide (o.2.2 ≤ a.t)) "C09" "store-op-after-stop-began" s!"instance {i}: {o.2.1} issued store operation {o.1} at {o.2.2}, after Stop was called at {a.t}") w
          let x := { x with opsDuringStop := [] }
          let w := w.setInst { x with stopsInProgress := x.stopsInProgress - 1, stoppedSince := some e.t }
          let w := checkW w (¬ x.flag) "C09" "leader-when-stop-returns" s!"instance {i} still reports leadership when Stop returns"
          w
        | .stopctx del _ _ _, .ok =>
          if a.superseded then (w.setInst { x with stopsInProgress := x.stopsInProgress - 1 }).hit "C09:stop-superseded-by-start" else
          let w := x.opsDuringStop.foldl (fun acc (o : Nat × String × Nat) =>
            checkW acc (decide (o.2.2 ≤ a.t)) "C09" "store-op-after-stop-began" s!"instance {i}: {o.2.1} issued store operation {o.1} at {o.2.2}, after StopWithContext was called at {a.t}") w
          let x := { x with opsDuringStop := [] }
          let w := w.setInst { x with stopsInProgress := x.stopsInProgress - 1, stoppedSince := some e.t }
          let w := checkW w (¬ x.flag) "C09" "leader-when-stop-returns" s!"instance {i} still reports leadership when StopWithContext returns"
          let mine := match w.live x.cfg.key with
            | some rr => (match rr.val with | .own id _ _ => id == i && rr.writer == i | _ => false)
            | none => false
          -- "the record's owner": the instance led with that record when the call began, or learnt during the call (the
          -- acknowledgement of an acquiring write that arrived after the call began) that a write of its current run is the
          -- live record.  (A refresh of a term that ended before the call, answered during it, makes no owner.)
          -- A record left behind by a term that ended before the call (self-demotion, an earlier run) is not owned.
          let ackedMine := match w.live x.cfg.key with
            | some rr => mine && decide (x.lastAcqRev = rr.rev) && decide (a.t ≤ x.lastAcqAt) && (match rr.val with | .own _ tok _ => x.runToks.contains tok | _ => false)
            | none => false
          -- (a Delete that the store refused, lost or did not answer cannot have removed anything)
          let delFailed := match x.lastDeleteFailedAt with | some td => decide (a.t ≤ td) | none => false
          checkW w (!(del && mine && ((a.ownerAtCall && a.flagAtCall) || ackedMine)) || delFailed || x.cut) "C09" "record-survives-deletekey" s!"instance {i}: its record is still live when StopWithContext(DeleteKey) returns"
        | .stop, _ | .stopctx _ _ _ _, _ => w.setInst { x with stopsInProgress := x.stopsInProgress - 1, opsDuringStop := [] }
        | .validate cto, .verdict true tok _ =>
          -- (a context time-out of 1 ns in the trace stands for a context the caller had cancelled before the call)
          let w := checkW w (cto ≠ 1) "C04" "true-on-cancelled-context" s!"instance {i}: ValidateToken returned true although the caller's context was already cancelled"
          checkW (w.hit "C04:validate-true")  (tok != 0 && a.sawValid.contains tok && a.flagAtCall && tok == a.tokAtCall) "C04" "validate-true-unsound"
            s!"instance {i}: ValidateToken returned true for token {tok}, but during the call the record never held its id with that token (seen: {a.sawValid}; leader at call: {a.flagAtCall}, term token {a.tokAtCall})"
        | .validateOrDemote cto, .verdict v tok il =>
          let w := checkW w (!v || cto ≠ 1) "C04" "true-on-cancelled-context" s!"instance {i}: ValidateTokenOrDemote returned true although the caller's context was already cancelled"
          let w := w.hit (if v then "C04:or-demote-true" else if a.flagAtCall then "C04:or-demote-false-leader" else "C04:or-demote-false-follower")
          let w := checkW w (!v || (tok != 0 && a.sawValid.contains tok && a.flagAtCall && tok == a.tokAtCall)) "C04" "validate-true-unsound"
            s!"instance {i}: ValidateTokenOrDemote returned true for token {tok}, but during the call the record never held its id with that token (seen: {a.sawValid})"
          -- (the term that the call judged: an instance that lost it and leads again, with a new token, by the time the call
          --  returns has been demoted as required)
          let w := checkW w (v ∨ ¬ il ∨ (x.flag ∧ x.flagTok ≠ a.tokAtCall)) "C04" "or-demote-still-leader" s!"instance {i}: ValidateTokenOrDemote returned false but IsLeader() is still true"
          checkW w (v ∨ ¬ a.flagAtCall ∨ x.demotes > a.demotesAtCall ∨ x.stopsInProgress > 0 ∨ ¬ x.termOpen ∨ x.cfg.id = 0)
            "C04" "or-demote-no-callback" s!"instance {i}: ValidateTokenOrDemote returned false for a leader but no demotion callback ran"
        | _, _ => w
      { m with w := w }
    | _, _ => { m with w := w0 }
  | .status i st il lid tok rev il2 =>
    match w0.inst? i with
    | none => { m with w := w0 }
    | some x =>
      let w := checkW w0 (il = decide (st = 2)) "C18" "status-incoherent" s!"instance {i}: IsLeader={il} State={st}"
      let w := checkW w (stateDocumented st) "C18" "undocumented-state" s!"instance {i}: state {st}"
      let w := checkW w (il = il2) "C18" "status-vs-isleader" s!"instance {i}: Status().IsLeader={il} IsLeader()={il2}"
      let w := checkW w (¬ il ∨ lid = i) "C18" "leader-leaderid" s!"instance {i} leads but Status().LeaderID={lid}"
      let w := checkW w (¬ il ∨ tok = x.lastOwnTok) "C18" "leader-token" s!"instance {i} leads but Status().Token={tok}, its record token is {x.lastOwnTok}"
      -- C05: what a leader hands out as its fencing token is the token of the term in progress
      let w := checkW w (¬ il ∨ ¬ x.flag ∨ tok = x.flagTok) "C05" "leader-token-is-not-the-terms" s!"instance {i} leads (term token {x.flagTok}) but Status().Token={tok}"
      let busy := w.ops.any fun p => p.inst = i ∧ (p.kind = .update ∨ p.kind = .create)
      let w := checkW w (¬ il ∨ busy ∨ rev = x.lastAckRev) "C18" "leader-revision" s!"instance {i} leads but Status().Revision={rev}, latest acknowledged own write is {x.lastAckRev}"
      let w := checkW w (x.stoppedSince.isNone ∨ (st = 5 ∧ ¬ il)) "C18" "not-stopped-after-stop" s!"instance {i}: state {st} IsLeader={il} after its stop returned"
      let w := checkW w (x.gauge = il2 ∨ ¬ x.everStarted) "C18" "gauge-stale" s!"instance {i}: gauge {x.gauge} IsLeader() {il2} at a quiescent point"
      -- C18: a follower's LeaderID converges to the id in the live record (one periodic check + latencies)
      let w := match w.ownerSince.lookup x.cfg.key with
        | some (oid, since) =>
          let settle := 500000000 + 3 * h.maxLat
          if h.maxLat > 0 ∧ oid > 0 ∧ ¬ il2 ∧ x.everStarted ∧ x.stopCalledSince.isNone ∧ ¬ x.cut ∧ e.t ≥ h.faultsEnd + settle ∧
             since + settle < e.t ∧ x.candidateSince + settle < e.t ∧ (x.lastStaleWev = 0 ∨ x.lastStaleWev + settle < e.t) ∧
             ¬ (w.ops.any fun p => p.inst == i && (p.applied == some Applied.dropped || decide (p.issued < h.faultsEnd)))
          then checkW w (lid == oid.toNat) "C18" "follower-leaderid-not-converged"
                 s!"instance {i} is a follower since {x.candidateSince}; the record has named {oid} since {since}; LeaderID={lid}"
          else w
        | none => w
      -- C08: outside a stop call, leadership ⇔ promotions outnumber demotions by one
      let w := if x.stopsInProgress = 0 ∧ x.everStarted ∧ x.cfg.callbacks then
                 checkW w (il2 = decide (x.promotes = x.demotes + 1) ∨ x.promotes = 0 ∧ x.demotes = 0 ∧ ¬ il2 ∨ x.stoppedSince.isSome ∧ ¬ il2 ∧ x.promotes ≤ x.demotes + 1)
                   "C08" "callbacks-do-not-mirror-leadership" s!"instance {i}: IsLeader={il2} promotions={x.promotes} demotions={x.demotes}"
               else w
      -- C19: contexts of ended terms are cancelled by the next quiescent point
      let w := x.ctxs.foldl (fun acc c => checkW acc (!c.termEnded || c.cancelled) "C19" "context-outlives-term"
                   s!"instance {i}: promotion context {c.cid} (token {c.tok}) still live after its term ended") w
      { m with w := w }
  | .observe _ => { m with w := w0 }
  -- C18, the library's own Prometheus implementation (leader/metrics.go) next to the recording one: it accepts every call
  -- the election makes, and what a scrape shows when the scenario ends is what the election last said
  | .metricsPanic i meth =>
    { m with w := failW w0 "C18" "metrics-call-rejected" s!"instance {i}: the Prometheus implementation panicked in {meth} (label set it does not accept)" }
  | .promGauge i v =>
    match w0.inst? i with
    | none => { m with w := w0 }
    | some x =>
      let want : Int := match x.gaugeLast with | none => -1 | some true => 1 | some false => 0
      { m with w := checkW w0 (v = want) "C18" "scraped-gauge-differs" s!"instance {i}: election_is_leader reads {v}, the last value the election set is {want} (-1: never set)" }
  | .promTrans i n =>
    match w0.inst? i with
    | none => { m with w := w0 }
    | some x =>
      { m with w := checkW w0 (n = x.transCount) "C18" "scraped-transitions-differ" s!"instance {i}: election_transitions_total sums to {n}, the election recorded {x.transCount} transitions" }
  | .snap i st il lid tok =>
    -- C18: whenever it is taken - also while a transition is under way - a snapshot is coherent in itself
    let w := checkW w0 (il = decide (st = 2)) "C18" "snapshot-incoherent" s!"instance {i}: Status() returned State={st} with IsLeader={il}"
    let w := checkW w (¬ il ∨ (lid = i ∧ tok ≠ 0)) "C18" "snapshot-incoherent" s!"instance {i}: Status() of a leader shows LeaderID={lid} Token={tok}"
    { m with w := w.hit "C18:concurrent-snapshot" }
  | .health i _ res rem =>
    let w := checkW w0 (rem ≤ 100000000 ∧ rem ≥ 0) "C12" "health-deadline" s!"instance {i}: health check context expires in {rem} ns"
    let w := w.hit (if res then "C12:healthy" else "C12:unhealthy")
    { m with w := w.updInst i fun x =>
        let run := if res then 0 else x.healthRun + 1
        { x with healthRun := run, lastHealthAt := some (e.t, res),
                 demoteDue := if !res && decide (run ≥ healthThreshold x.cfg) then earlier x.demoteDue (e.t, "health threshold reached") else x.demoteDue } }
  | .conn i k =>
    match w0.inst? i with
    | none => { m with w := w0 }
    | some x =>
      match k with
      | .disconnect =>
        let w1 := if x.flag then w0.hit "C11:disconnect-while-leading" else w0
        { m with w := w1.setInst { x with discAt := some e.t, graceDue := if x.flag then some (e.t + graceOf x.cfg) else x.graceDue, verifyOpen := none,
                                          graceTie := if x.graceDue == some e.t then some e.t else none } }
      | .reconnect =>
        let x := { x with verifyReadDue := if x.flag && x.stopCalledSince.isNone then some (e.t + 100000000) else x.verifyReadDue }
        let x1 := { x with graceDue := none, graceTie := if x.graceDue == some e.t then some e.t else none,
                           verifyOpen := if x.flag then some (e.t, !(recordIsMine w0 x)) else none }
        let w1 := if x.flag then w0.hit "C11:reconnect-while-leading" else w0
        { m with w := w1.setInst x1 }
      | .closed => { m with w := w0 }
  | .crash i => { m with w := w0.updInst i fun x => { x with cut := true, claimDue := none, lastCutAt := some e.t } }
  | .partition i on => { m with w := w0.updInst i fun x => { x with cut := on, candidateSince := e.t, claimDue := none, lastCutAt := some e.t } }
  | .watchFail _ _ => { m with w := w0 }
  | .panic i => { m with w := failW w0 "C13" "panic" s!"instance {i} panicked" }
  | .newErr _ => { m with w := w0 }
  | .end_ =>
    let w := w0.insts.foldl (fun acc x => earlyCancelled acc x (e.t + 1)) w0
    -- C08: when the scenario is over (long after its last step) every term that ended has had its demotion callback -
    -- also the ones whose callback a stop call that gave up waiting left to a goroutine
    let w := w.insts.foldl (fun acc (x : InstW) =>
      if x.cfg.callbacks ∧ x.everStarted ∧ x.stopsInProgress = 0 ∧ ¬ x.cut then
        checkW acc (x.promotes = x.demotes + (if x.flag then 1 else 0) ∨ (x.flag ∧ x.promotes = x.demotes))
          "C08" "callbacks-unbalanced-at-the-end" s!"instance {x.cfg.id}: promotions={x.promotes} demotions={x.demotes} IsLeader={x.flag} when the scenario ends"
      else acc) w
    -- C09: stop calls still in progress beyond their time budget never returned
    let w := w0.apis.foldl (fun acc (a : ApiCall) =>
      match stopBudget a.kind with
      | some b => checkW acc (decide (e.t ≤ a.t + b)) "C09" "stop-does-not-return"
          s!"instance {a.inst}: {repr a.kind} called at {a.t} has not returned at the end of the scenario ({e.t}), time budget {b} ns"
      | none => acc) w
    { m with w := { w with ended := true } }
  | .wleft n =>
    { m with w := checkW w0 (n = 0) "C09" "watcher-left-open" s!"{n} watchers obtained from the store were never stopped although every instance was stopped and every goroutine has returned" }
  | .gor n =>
    let w := checkW w0 (n = 0) "C09" "goroutines-left" s!"{n} library goroutines alive after every instance was stopped and all operations returned"
    -- (C13: a goroutine of the library that never comes back - blocked for good after every store operation has been
    --  answered and every instance stopped - is an instance that stopped responding)
    { m with w := checkW w (n = 0) "C13" "goroutine-stuck" s!"{n} library goroutines still blocked after every instance was stopped and all operations returned" }

def run (tr : Trace) : MState := tr.foldl step {}

end Mon
end NLE
