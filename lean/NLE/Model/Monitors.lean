import NLE.Model.World
/-
  Property monitors: `step` advances the world model by one visible event and records every clause
  of C01…C19 that the event falsifies.  The same function is (a) run on traces of the real code and
  (b) the statement of the theorems: "no execution of the implementation model makes `step` record a
  failure for property Cxx".
-/
namespace NLE
open World

structure Hyp where
  responsive : Bool := false
  noOutside : Bool := false
  noPreempt : Bool := false
  faultFree : Bool := false
  connOnly : Bool := false
  deriving Repr, Inhabited

structure MState where
  w : World := {}
  hyp : Hyp := {}
  deriving Repr, Inhabited

namespace Mon

def failW (w : World) (prop clause detail : String) : World :=
  { w with fails := { prop := prop, clause := clause, line := w.line, detail := detail } :: w.fails }

def checkW (w : World) (ok : Bool) (prop clause detail : String) : World :=
  if ok then w else failW w prop clause detail

/-- Stored priority as the takeover comparison reads it. -/
def storedPrio (v : Val) : Option Int :=
  let (ok, _, _, p) := v.structView
  if ok then some p else none

/-- C01: is this successful mutation by instance `i` one of the four legitimate kinds? -/
def legit (w : World) (i : InstW) (op : PendingOp) : Bool × String :=
  let before := w.live op.key
  if op.key ≠ i.cfg.key then (false, "touches another group's key")
  else
    match op.kind with
    | .create => (before.isNone, "create over a live record")
    | .update =>
      match before with
      | none => (false, "update of an absent record")
      | some r =>
        match op.val, r.val with
        | .own id tok _, .own rid rtok _ =>
          if r.writer = i.cfg.id ∧ rid = id ∧ rtok = tok ∧ id = i.cfg.id then (op.exp == r.rev, "refresh against another revision")
          else if id ≠ i.cfg.id then (false, "publishes a foreign identity")
          else
            (i.cfg.takeover && (match storedPrio r.val with | some p => decide (i.cfg.prio > p) | none => false) && op.exp == r.rev,
             "replaces another owner's record without takeover rights / strictly higher priority")
        | .own id _ _, rv =>
          if id ≠ i.cfg.id then (false, "publishes a foreign identity")
          else (i.cfg.takeover && (match storedPrio rv with | some p => decide (i.cfg.prio > p) | none => false) && op.exp == r.rev,
             "replaces a foreign record without takeover rights / strictly higher priority")
        | _, _ => (false, "writes a non-canonical payload")
    | .delete =>
      match before with
      | none => (true, "")
      | some r =>
        let inStop := w.apis.any fun a => a.inst == i.cfg.id && (match a.kind with | .stopctx d _ _ _ => d | _ => false)
        match r.val with
        | .own rid rtok _ => (r.writer == i.cfg.id && rid == i.cfg.id && rtok == i.lastOwnTok && inStop, "deletes a record it does not own (or outside its own graceful shutdown)")
        | _ => (false, "deletes a record it does not own")
    | _ => (true, "")

/-- Is this update a refresh (same writer, same identity and token)? -/
def isRefresh (w : World) (i : InstW) (op : PendingOp) : Bool :=
  match w.live op.key, op.val with
  | some r, .own id tok _ =>
    (match r.val with
     | .own rid rtok _ => r.writer == i.cfg.id && rid == id && rtok == tok
     | _ => false)
  | _, _ => false

/-- flags currently raised for `key`. -/
def claimants (w : World) (key : String) : List InstW := w.insts.filter fun x => x.flag ∧ x.cfg.key = key

/-- C02 state invariant (under its hypotheses). -/
def c02 (w : World) (h : Hyp) : World :=
  if ¬ (h.responsive ∧ h.noOutside ∧ h.noPreempt) then w
  else
    let w1 := w.insts.foldl (fun acc x =>
      if x.flag then
        let others := (claimants w x.cfg.key).filter (·.cfg.id ≠ x.cfg.id)
        let acc := checkW acc others.isEmpty "C02" "two-leaders" s!"instances {x.cfg.id} and {others.map (·.cfg.id)} both report IsLeader"
        match w.live x.cfg.key with
        | some r => checkW acc (match r.val with | .own id t _ => id == x.cfg.id && t == x.flagTok | _ => false)
                      "C02" "claim-not-backed" s!"instance {x.cfg.id} claims with token {x.flagTok} but the live record is {repr r.val}"
        | none => checkW acc false "C02" "claim-not-backed" s!"instance {x.cfg.id} claims but there is no live record"
      else acc) w
    w1

/-- End of a term of instance `i` (flag cleared or stop): mark its promotion contexts. -/
def endTerm (x : InstW) : InstW :=
  { x with ctxs := x.ctxs.map fun c => { c with termEnded := true }, healthRun := 0 }

def stateDocumented (s : Nat) : Bool := s ≤ 5

/-- Documented grace period: configured value, or max(3 heartbeat intervals, 5 s). -/
def graceOf (c : InstCfg) : Nat := if c.grace ≠ 0 then c.grace else max (3 * c.hb) 5000000000

/-- Window after a reconnect notification in which the verification must have completed:
    100 ms settle + 2 s verification time-out + one heartbeat interval of slack. -/
def verifyWindow (c : InstCfg) : Nat := 100000000 + 2000000000 + c.hb

def recordIsMine (w : World) (x : InstW) : Bool :=
  match w.live x.cfg.key with
  | some r => (match r.val with | .own id t _ => id == x.cfg.id && t == x.flagTok | _ => false)
  | none => false

/-- Deadlines that have passed when the clock reaches `t` (checked before the event at `t` is processed). -/
def deadlines (w : World) (t : Nat) : World :=
  w.insts.foldl (fun acc x =>
    let acc := match x.graceDue with
      | some d => if d < t ∧ x.flag then
            failW (acc.updInst x.cfg.id fun y => { y with graceDue := none }) "C11" "grace-demotion-missing"
              s!"instance {x.cfg.id} still leads after its grace period ended at {d} with no reconnect notification"
          else acc
      | none => acc
    match x.verifyOpen with
    | some (r, foreign) =>
      if r + verifyWindow x.cfg < t then
        let acc := acc.updInst x.cfg.id fun y => { y with verifyOpen := none }
        checkW acc (!(foreign && x.flag)) "C11" "reconnect-verification-missing"
          s!"instance {x.cfg.id} still leads {verifyWindow x.cfg} ns after the reconnect notification at {r} although the record was never its own"
      else acc
    | none => acc) w

/-- After any change of the store: a record that is (again) the instance's own ends "never mine". -/
def verifyTrack (w : World) : World :=
  { w with insts := w.insts.map fun x =>
      match x.verifyOpen with
      | some (r, true) => if recordIsMine w x then { x with verifyOpen := some (r, false) } else x
      | _ => x }

/-- One visible event. -/
def step (m : MState) (e : TEv) : MState :=
  let w0 := deadlines { m.w with line := m.w.line + 1 } e.t
  let w0 := { w0 with now := e.t }
  let h := m.hyp
  -- after `end` the harness tears the scenario down (stops every instance); only the final goroutine count matters
  if m.w.ended && (match e.ev with | .gor _ => false | _ => true) then { m with w := w0 } else
  match e.ev with
  | .hyp a b c d f => { m with w := w0, hyp := ⟨a, b, c, d, f⟩ }
  | .inst c => { m with w := { w0 with insts := w0.insts ++ [{ cfg := c }] } }
  | .call op i kind key exp val =>
    let w := { w0 with ops := { id := op, inst := i, kind := kind, key := key, exp := exp, val := val, issued := e.t } :: w0.ops }
    let w := match w.inst? i with
      | some x =>
        -- C09: no new store operation after a stop returned (until the next Start)
        let w := checkW w (x.stoppedSince.isNone) "C09" "store-op-after-stop" s!"instance {i} issues {repr kind} after its stop returned"
        w
      | none => w
    { m with w := w }
  | .apply op a =>
    match w0.op? op with
    | none => { m with w := failW w0 "TRACE" "apply-unknown-op" s!"{op}" }
    | some p =>
      let w := { w0 with ops := w0.ops.map fun q => if q.id = op then { q with applied := some a, appliedAt := e.t } else q }
      match a with
      | .ok rev =>
        -- the store model must agree with the reference store of the harness
        let expect := w.storeAnswer p
        let w := if p.kind = .watch ∨ expect = .ok rev then w
                 else { w with storeMismatch := s!"line {w.line}: op {op} {repr p.kind} applied ok {rev}, store model says {repr expect}" :: w.storeMismatch }
        match p.kind, w.inst? p.inst with
        | .create, some x | .update, some x | .delete, some x =>
          let (ok, why) := legit w x p
          let w := checkW w ok "C01" (if p.kind = .update ∧ ¬ isRefresh w x p then "illegitimate-takeover" else "illegitimate-mutation")
                    s!"instance {x.cfg.id} {repr p.kind} exp={p.exp} val={repr p.val} over {repr (w.live p.key)}: {why}"
          -- C05: acquisitions publish a never-seen token; refreshes republish the same one
          let w := match p.kind, p.val with
            | .create, .own _ tok _ => checkW w (¬ w.tokensSeen.contains tok) "C05" "token-reused" s!"create by {x.cfg.id} republishes token {tok}"
            | .update, .own _ tok _ =>
              if isRefresh w x p then w
              else checkW w (¬ w.tokensSeen.contains tok) "C05" "token-reused" s!"takeover by {x.cfg.id} republishes token {tok}"
            | _, _ => w
          let newVal := if p.kind = .delete then none else some p.val
          let kind : MutKind := match p.kind with | .create => .create | .update => .update | _ => .delete
          let w := w.mutate p.inst kind p.key p.exp newVal
          let w := match p.val with
            | .own _ tok _ => if p.kind = .delete then w else w.updInst p.inst fun y => { y with lastOwnTok := tok }
            | _ => w
          { m with w := c02 (verifyTrack w) h }
        | _, _ => { m with w := w }
      | .fail k =>
        let expect := w.storeAnswer p
        let w := if expect = .fail k then w
                 else { w with storeMismatch := s!"line {w.line}: op {op} {repr p.kind} refused {repr k}, store model says {repr expect}" :: w.storeMismatch }
        { m with w := w }
      | _ => { m with w := w }
  | .ret op r =>
    match w0.op? op with
    | none => { m with w := failW w0 "TRACE" "ret-unknown-op" s!"{op}" }
    | some p =>
      let w := { w0 with ops := w0.ops.filter (·.id ≠ op) }
      let w := match r, p.kind with
        | .ok rev _, .create | .ok rev _, .update => w.updInst p.inst fun y => { y with lastAckRev := rev }
        | _, _ => w
      -- C02 hypothesis "responsive": every answer within H/2
      let w := match w.inst? p.inst with
        | some x => if h.responsive ∧ p.kind ≠ .watch ∧ e.t - p.issued > x.cfg.hb / 2
                    then failW w "HYP" "responsive" s!"op {op} took {e.t - p.issued} ns" else w
        | none => w
      { m with w := w }
  | .expire key rev =>
    let w := match w0.live key with
      | some r => if r.rev = rev then w0.mutate 0 .expire key 0 none
                  else { w0 with storeMismatch := s!"line {w0.line}: expire of {key} rev {rev} but live rev is {r.rev}" :: w0.storeMismatch }
      | none => { w0 with storeMismatch := s!"line {w0.line}: expire of absent {key}" :: w0.storeMismatch }
    { m with w := c02 (verifyTrack w) h }
  | .extPut key _ val =>
    let w := checkW w0 (¬ h.noOutside) "HYP" "no-outside-writer" "ext put"
    { m with w := c02 (verifyTrack (w.mutate 0 .extPut key 0 (some val))) h }
  | .extDelete key _ =>
    let w := checkW w0 (¬ h.noOutside) "HYP" "no-outside-writer" "ext delete"
    { m with w := c02 (verifyTrack (w.mutate 0 .extDelete key 0 none)) h }
  | .wev _ _ _ _ => { m with w := w0 }
  | .wdrop _ _ _ => { m with w := w0 }
  | .flag i b il tok lid =>
    match w0.inst? i with
    | none => { m with w := w0 }
    | some x =>
      let w := checkW w0 (b = il) "C18" "gauge-differs-from-flag" s!"instance {i}: gauge {b} but IsLeader() {il}"
      if il then
        -- the flag is raised (or re-asserted)
        let own := w.hist.any fun mu => mu.who == i && (mu.kind == .create || mu.kind == .update) &&
                      (match mu.after with | some r => (match r.val with | .own id t _ => id == i && t == tok | _ => false) | none => false)
        let w := checkW w own "C13" "claim-without-own-write" s!"instance {i} raises the flag with token {tok} it never published"
        let w := checkW w (x.stoppedSince.isNone) "C09" "leader-after-stop" s!"instance {i} reports leadership after its stop returned"
        let w := checkW w (lid = i) "C18" "leader-leaderid" s!"instance {i} is leader but LeaderID() is {lid}"
        let w := checkW w (¬ x.flag ∨ x.flagTok = tok) "C05" "token-changed-within-term" s!"instance {i}: token {x.flagTok} → {tok} while leading"
        let w := checkW w (x.flag ∨ ¬ x.claimedToks.contains tok) "C05" "token-reclaimed" s!"instance {i} starts a second term with token {tok}"
        let w := w.setInst { x with flag := true, flagTok := tok, gauge := b, claimedToks := tok :: x.claimedToks, healthRun := if x.flag then x.healthRun else 0 }
        { m with w := c02 (verifyTrack w) h }
      else
        let x' := if x.flag then endTerm x else x
        -- C11: with nothing but connection notifications going on, the only demotion is the grace expiry, at exactly its instant
        let w := checkW w (!(h.connOnly && x.flag && x.stopCalledSince.isNone) || x.graceDue == some e.t) "C11" "demoted-outside-grace-expiry"
                   s!"instance {i} is demoted at {e.t}; latest disconnect {repr x.discAt}, grace deadline {repr x.graceDue}"
        let w := w.setInst { x' with flag := false, gauge := b, graceDue := none, verifyOpen := none }
        -- C07: in fault-free operation a leader is never demoted before it is stopped
        let w := checkW w (¬ (h.faultFree ∧ x.flag ∧ x.stopCalledSince.isNone)) "C07" "leader-demoted-fault-free"
                   s!"instance {i} (token {x.flagTok}) loses leadership without being stopped"
        { m with w := w }
  | .trans i f t =>
    match w0.inst? i with
    | none => { m with w := w0 }
    | some x =>
      let w := checkW w0 (f = x.lastTo) "C18" "transition-chain-broken" s!"instance {i}: transition {f}→{t} but previous state was {x.lastTo}"
      let w := checkW w (stateDocumented f ∧ stateDocumented t) "C18" "undocumented-state" s!"instance {i}: {f}→{t}"
      let w := checkW w (¬ (x.stoppedSince.isSome ∧ t ≠ 5)) "C18" "transition-after-stop" s!"instance {i}: {f}→{t} after its stop returned"
      { m with w := w.setInst { x with lastTo := t } }
  | .promote i tok cid dn =>
    match w0.inst? i with
    | none => { m with w := w0 }
    | some x =>
      let w := checkW w0 (¬ x.termOpen) "C08" "promote-twice" s!"instance {i}: promotion callback while a term is already open"
      let w := checkW w (x.claimedToks.head? = some tok) "C08" "promote-wrong-token" s!"instance {i}: callback token {tok}, term token {x.claimedToks.head?}"
      let w := checkW w (x.stoppedSince.isNone) "C09" "promote-after-stop" s!"instance {i}: promotion callback after its stop returned"
      let w := checkW w (!(dn && x.flag)) "C19" "context-cancelled-at-start" s!"instance {i}: promotion context {cid} already cancelled when the callback starts"
      let c : CtxW := { cid := cid, tok := tok, cancelled := dn, termEnded := !x.flag || x.flagTok != tok }
      let x1 : InstW := { x with termOpen := true, promotes := x.promotes + 1, ctxs := c :: x.ctxs }
      { m with w := w.setInst x1 }
  | .promoteRet i cid =>
    { m with w := w0.updInst i fun x => { x with ctxs := x.ctxs.map fun c => if c.cid = cid then { c with cbRunning := false } else c } }
  | .ctxDone i cid =>
    match w0.inst? i with
    | none => { m with w := w0 }
    | some x =>
      let w := match x.ctxs.find? (·.cid = cid) with
        | some c => checkW w0 (c.termEnded ∨ ¬ c.cbRunning ∨ x.stopsInProgress > 0) "C19" "context-cancelled-while-leading"
                      s!"instance {i}: promotion context {cid} cancelled while the term (token {c.tok}) is in progress and the callback runs"
        | none => w0
      { m with w := w.updInst i fun x => { x with ctxs := x.ctxs.map fun c => if c.cid = cid then { c with cancelled := true } else c } }
  | .demote i =>
    match w0.inst? i with
    | none => { m with w := w0 }
    | some x =>
      let w := checkW w0 (x.termOpen) "C08" "demote-without-promote" s!"instance {i}: demotion callback with no open term"
      let w := checkW w (¬ x.flag) "C08" "demote-while-leader" s!"instance {i}: demotion callback while IsLeader() is still true"
      { m with w := w.setInst { x with termOpen := false, demotes := x.demotes + 1 } }
  | .api n i k =>
    let w := { w0 with apis := { n := n, inst := i, kind := k, t := e.t,
                                  flagAtCall := (match w0.inst? i with | some x => x.flag | none => false),
                                  demotesAtCall := (match w0.inst? i with | some x => x.demotes | none => 0),
                                  ownerAtCall := (match w0.inst? i with
                                    | some x => (match w0.live x.cfg.key with
                                        | some rr => (match rr.val with | .own id _ _ => id == i && rr.writer == i | _ => false)
                                        | none => false)
                                    | none => false),
                                  tokAtCall := (match w0.inst? i with | some x => x.flagTok | none => 0) } :: w0.apis }
    let w := match k with
      | .start => w.updInst i fun x => { x with stoppedSince := none, stopCalledSince := none, everStarted := true, lastTo := 1 }
      | .stop | .stopctx _ _ _ _ => w.updInst i fun x =>
          let y := endTerm x
          { y with stopsInProgress := x.stopsInProgress + 1, stopCalledSince := some e.t, graceDue := none, verifyOpen := none }
      | _ => w
    { m with w := w }
  | .apiRet n i r =>
    match w0.apis.find? (·.n = n), w0.inst? i with
    | some a, some x =>
      let w := { w0 with apis := w0.apis.filter (·.n ≠ n) }
      let w := match a.kind, r with
        | .stop, .ok =>
          let w := w.setInst { x with stopsInProgress := x.stopsInProgress - 1, stoppedSince := some e.t }
          let w := checkW w (¬ x.flag) "C09" "leader-when-stop-returns" s!"instance {i} still reports leadership when Stop returns"
          w
        | .stopctx del _ _ _, .ok =>
          let w := w.setInst { x with stopsInProgress := x.stopsInProgress - 1, stoppedSince := some e.t }
          let w := checkW w (¬ x.flag) "C09" "leader-when-stop-returns" s!"instance {i} still reports leadership when StopWithContext returns"
          let mine := match w.live x.cfg.key with
            | some rr => (match rr.val with | .own id _ _ => id == i && rr.writer == i | _ => false)
            | none => false
          checkW w (!(del && mine && a.ownerAtCall)) "C09" "record-survives-deletekey" s!"instance {i}: its record is still live when StopWithContext(DeleteKey) returns"
        | .stop, _ | .stopctx _ _ _ _, _ => w.setInst { x with stopsInProgress := x.stopsInProgress - 1 }
        | .validateOrDemote, .verdict v _ il =>
          let w := checkW w (v ∨ ¬ il) "C04" "or-demote-still-leader" s!"instance {i}: ValidateTokenOrDemote returned false but IsLeader() is still true"
          checkW w (v ∨ ¬ a.flagAtCall ∨ x.demotes > a.demotesAtCall ∨ x.stopsInProgress > 0 ∨ ¬ x.termOpen ∨ x.cfg.id = 0)
            "C04" "or-demote-no-callback" s!"instance {i}: ValidateTokenOrDemote returned false for a leader but no demotion callback ran"
        | _, _ => w
      { m with w := w }
    | _, _ => { m with w := w0 }
  | .status i st il lid tok rev il2 =>
    match w0.inst? i with
    | none => { m with w := w0 }
    | some x =>
      let w := checkW w0 (il = decide (st = 2)) "C18" "status-incoherent" s!"instance {i}: IsLeader={il} State={st}"
      let w := checkW w (stateDocumented st) "C18" "undocumented-state" s!"instance {i}: state {st}"
      let w := checkW w (il = il2) "C18" "status-vs-isleader" s!"instance {i}: Status().IsLeader={il} IsLeader()={il2}"
      let w := checkW w (¬ il ∨ lid = i) "C18" "leader-leaderid" s!"instance {i} leads but Status().LeaderID={lid}"
      let w := checkW w (¬ il ∨ tok = x.lastOwnTok) "C18" "leader-token" s!"instance {i} leads but Status().Token={tok}, its record token is {x.lastOwnTok}"
      let busy := w.ops.any fun p => p.inst = i ∧ (p.kind = .update ∨ p.kind = .create)
      let w := checkW w (¬ il ∨ busy ∨ rev = x.lastAckRev) "C18" "leader-revision" s!"instance {i} leads but Status().Revision={rev}, latest acknowledged own write is {x.lastAckRev}"
      let w := checkW w (x.stoppedSince.isNone ∨ (st = 5 ∧ ¬ il)) "C18" "not-stopped-after-stop" s!"instance {i}: state {st} IsLeader={il} after its stop returned"
      let w := checkW w (x.gauge = il2 ∨ ¬ x.everStarted) "C18" "gauge-stale" s!"instance {i}: gauge {x.gauge} IsLeader() {il2} at a quiescent point"
      -- C08: outside a stop call, leadership ⇔ promotions outnumber demotions by one
      let w := if x.stopsInProgress = 0 ∧ x.everStarted ∧ x.cfg.id ≠ 0 then
                 checkW w (il2 = decide (x.promotes = x.demotes + 1) ∨ x.promotes = 0 ∧ x.demotes = 0 ∧ ¬ il2 ∨ x.stoppedSince.isSome ∧ ¬ il2 ∧ x.promotes ≤ x.demotes + 1)
                   "C08" "callbacks-do-not-mirror-leadership" s!"instance {i}: IsLeader={il2} promotions={x.promotes} demotions={x.demotes}"
               else w
      -- C19: contexts of ended terms are cancelled by the next quiescent point
      let w := x.ctxs.foldl (fun acc c => checkW acc (!c.termEnded || c.cancelled) "C19" "context-outlives-term"
                   s!"instance {i}: promotion context {c.cid} (token {c.tok}) still live after its term ended") w
      { m with w := w }
  | .health i _ res rem =>
    let w := checkW w0 (rem ≤ 100000000 ∧ rem ≥ 0) "C12" "health-deadline" s!"instance {i}: health check context expires in {rem} ns"
    { m with w := w.updInst i fun x => { x with healthRun := if res then 0 else x.healthRun + 1 } }
  | .conn i k =>
    match w0.inst? i with
    | none => { m with w := w0 }
    | some x =>
      match k with
      | .disconnect =>
        { m with w := w0.setInst { x with discAt := some e.t, graceDue := if x.flag then some (e.t + graceOf x.cfg) else x.graceDue, verifyOpen := none } }
      | .reconnect =>
        let x1 := { x with graceDue := none, verifyOpen := if x.flag then some (e.t, !(recordIsMine w0 x)) else none }
        { m with w := w0.setInst x1 }
      | .closed => { m with w := w0 }
  | .crash i => { m with w := w0.updInst i fun x => { x with cut := true } }
  | .partition i on => { m with w := w0.updInst i fun x => { x with cut := on } }
  | .watchFail _ _ => { m with w := w0 }
  | .panic i => { m with w := failW w0 "C13" "panic" s!"instance {i} panicked" }
  | .newErr _ => { m with w := w0 }
  | .end_ => { m with w := { w0 with ended := true } }
  | .gor n => { m with w := checkW w0 (n = 0) "C09" "goroutines-left" s!"{n} library goroutines alive after every instance was stopped and all operations returned" }

def run (tr : Trace) : MState := tr.foldl step {}

end Mon
end NLE
