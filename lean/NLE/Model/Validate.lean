/-
  Decision logic of `validateToken` / `ValidateToken` / `ValidateTokenOrDemote`
  (leader/kv_election.go).  Strings (instance ids, tokens) are abstract values with decidable
  equality; the harness canonicalises them to numbers ("" ↦ 0).

  `MapView` is what `json.Unmarshal(value, &map[string]interface{})` yields for the record bytes
  as far as the code looks at it; the harness computes it with the real encoding/json (assumption
  A-json: encoding/json is not re-implemented).
-/
namespace NLE.Validate

/-- `payload[k]`: key absent, a JSON string, or a value of another JSON type. -/
inductive JField
  | absent
  | str (s : Nat)
  | other
  deriving DecidableEq, Repr

structure MapView where
  ok : Bool          -- json.Unmarshal into the map succeeded
  token : JField
  id : JField
  deriving DecidableEq, Repr

/-- What the `Get` inside `validateToken` produced. -/
inductive GetRes
  | err              -- store error (incl. key not found)
  | nilEntry         -- (nil, nil)
  | entry (v : MapView)
  deriving DecidableEq, Repr

/-- Inputs of one `validateToken` call, in the order the code consults them. -/
structure Call where
  localTok : Nat         -- e.Token() at entry (0 = "")
  me : Nat               -- cfg.InstanceID
  ctxDoneAtEntry : Bool  -- ctx already done at the non-blocking check
  ctxWins : Bool         -- the blocking select took <-ctx.Done() rather than the Get result
  get : GetRes
  deriving DecidableEq, Repr

/-- `validateToken` verdict (`true` only with a nil error). -/
def validateToken (c : Call) : Bool :=
  if c.localTok = 0 then false
  else if c.ctxDoneAtEntry then false
  else if c.ctxWins then false
  else
    match c.get with
    | .err => false
    | .nilEntry => false
    | .entry v =>
      if !v.ok then false
      else
        match v.token with
        | .absent => false
        | .other => false
        | .str t =>
          if t ≠ c.localTok then false
          else
            match v.id with
            | .absent => false
            | .other => false
            | .str i => decide (i = c.me)

/-- `ValidateToken`: refuses at once when the instance does not claim leadership. -/
def validateTokenAPI (isLeader : Bool) (c : Call) : Bool :=
  if !isLeader then false else validateToken c

/-- `ValidateTokenOrDemote`: verdict, and whether the demotion path is entered
    (`isLeaderAfter` = the second `IsLeader()` read). -/
def validateOrDemote (isLeader : Bool) (c : Call) (isLeaderAfter : Bool) : Bool × Bool :=
  let v := validateTokenAPI isLeader c
  (v, !v && isLeaderAfter)

end NLE.Validate
