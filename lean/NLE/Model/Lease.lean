import NLE.Model.Trace
/-
  `Lease`: the timed, system-level model behind "at most one leader, every claim backed by the record"
  (C02) and "leadership is stable in fault-free operation" (C07), for one group key, under the hypotheses
  of those properties: every store operation is answered within H/2, nobody but the participating elections
  writes the record, no priority preemption.

  The model is an assume-guarantee composition:
  * the store: Create applies only on a vacant key; a value expires TTL after it was written, not earlier;
  * each instance: raises its flag only on the acknowledgement (within H/2) of its own applied Create; deletes
    only after clearing its flag (graceful shutdown);
  * the heartbeat loop's guarantee, proved from its schedule in `Theorems/C02.lean` (`refresh_in_time`): while an
    instance claims, its next refresh is applied within 2·H of the previous application of its record.  In the
    model this is *urgency*: time does not advance past `applied + 2H` while the flag is raised.
  The acceptor `step` checks every one of these guards on the traces of fault-free scenarios.
-/
namespace NLE.Lease

structure Claim where
  inst : Nat
  hb : Nat                -- the claimant's heartbeat interval
  deadline : Nat          -- the next refresh of this claimant is applied by then
  deriving Repr, DecidableEq, Inhabited

structure State where
  key : String := ""
  ttl : Nat := 0
  members : List (Nat × Nat) := []             -- (instance, heartbeat interval) of the group's elections
  now : Nat := 0
  record : Option (Nat × Nat) := none          -- (owner, applied at)
  claims : List Claim := []                  -- instances whose flag is raised
  acked : List (Nat × Nat) := []             -- (instance, applied at) of Creates applied and not yet claimed
  ops : List (Nat × Nat × OpKind × Bool) := []   -- pending operations on the key: (op, instance, kind, is-own-heartbeat)
  ended : Bool := false
  deriving Repr, Inhabited

abbrev R := Except String
def reject {α} (msg : String) : R α := .error msg

def State.claims? (s : State) (i : Nat) : Bool := s.claims.any (·.inst == i)
def State.hbOf (s : State) (i : Nat) : Option Nat := (s.members.find? (·.1 = i)).map (·.2)

/-- Time advances to `t`: not past the refresh deadline of a claimant (urgency), and not backwards. -/
def advance (s : State) (t : Nat) : R State :=
  if t < s.now then reject s!"time goes backwards ({s.now} → {t})"
  else match s.claims.find? (fun c => decide (c.deadline < t)) with
    | some c => reject s!"instance {c.inst} claims but its record was not refreshed by {c.deadline} (now {t})"
    | none => pure { s with now := t }

/-- The store applies a Create of instance `j`: only on a vacant key. -/
def applyCreate (s : State) (j : Nat) : R State :=
  match s.record with
  | some (o, a) => reject s!"Create of {j} applied while the record of {o} (written at {a}) is live"
  | none => pure { s with record := some (j, s.now), acked := (j, s.now) :: s.acked }

/-- Instance `j` (heartbeat interval `h`) raises its flag: on the acknowledgement of its own applied Create, within
    h/2, while that record is still the live one. -/
def raise (s : State) (j h : Nat) : R State :=
  match s.acked.find? (·.1 = j) with
  | none => reject s!"instance {j} raises its flag without an applied Create of its own"
  | some (_, a) =>
    if s.record ≠ some (j, a) then reject s!"instance {j} raises its flag but the live record is {repr s.record}"
    else if s.now > a + h / 2 then reject s!"instance {j}: acknowledgement of its Create later than H/2"
    else pure { s with claims := { inst := j, hb := h, deadline := a + 2 * h } :: s.claims.filter (·.inst ≠ j),
                       acked := s.acked.filter (·.1 ≠ j) }

/-- The store applies a refresh of claimant `i` (its record is the live one): the lease is extended. -/
def applyRefresh (s : State) (i : Nat) : R State :=
  match s.record with
  | some (o, _) =>
    if o ≠ i then reject s!"refresh of {i} applied over the record of {o}"
    else pure { s with record := some (i, s.now),
                       claims := s.claims.map fun c => if c.inst = i then { c with deadline := s.now + 2 * c.hb } else c }
  | none => reject s!"refresh of {i} applied on a vacant key"

/-- The value expires: not earlier than TTL after it was written. -/
def expire (s : State) : R State :=
  match s.record with
  | some (_, a) => if s.now < a + s.ttl then reject s!"record written at {a} expires at {s.now}, before its TTL" else pure { s with record := none }
  | none => reject "expiry of a vacant key"

def lower (s : State) (i : Nat) : State := { s with claims := s.claims.filter (·.inst ≠ i) }

/-- The store applies a Delete of instance `i`: only after `i` cleared its flag. -/
def applyDelete (s : State) (i : Nat) : R State :=
  if s.claims? i then reject s!"Delete of {i} applied while {i} still claims"
  else match s.record with
    | some (o, _) => if o ≠ i then reject s!"Delete of {i} applied on the record of {o} (known finding F10)" else pure { s with record := none }
    | none => pure s

def validCfg (h ttl : Nat) : Prop := 0 < h ∧ 3 * h ≤ ttl
instance (h ttl : Nat) : Decidable (validCfg h ttl) := by unfold validCfg; infer_instance

/-- One trace event (only scenarios that promise the hypotheses of C02 are fed to this acceptor). -/
def step (s : State) (te : TEv) : R State :=
  if s.ended then pure s else
  match te.ev with
  | .end_ => pure { s with ended := true }
  | .inst c =>
    if s.members = [] then
      if validCfg c.hb c.storeTTL then pure { s with key := c.key, ttl := c.storeTTL, members := [(c.id, c.hb)] }
      else reject "configuration violates TTL >= 3 x HeartbeatInterval"
    else if c.key ≠ s.key then pure s
    else if validCfg c.hb s.ttl then pure { s with members := (c.id, c.hb) :: s.members }
    else reject "configuration violates TTL >= 3 x HeartbeatInterval"
  | .hyp _ _ _ _ _ _ _ => pure s
  | ev => do
    if s.members = [] then reject "event before any instance was declared"
    let s ← advance s te.t
    match ev with
    | .call op i kind key _ val =>
      if key ≠ s.key then pure s else
      let own := match val with | .own id _ _ => id == i | _ => false
      pure { s with ops := (op, i, kind, own) :: s.ops }
    | .apply op (.ok _) =>
      match s.ops.find? (·.1 = op) with
      | some (_, i, .create, _) => applyCreate s i
      | some (_, i, .update, _) => applyRefresh s i
      | some (_, i, .delete, _) => applyDelete s i
      | _ => pure s
    | .ret op _ => pure { s with ops := s.ops.filter (·.1 ≠ op) }
    | .expire key _ => if key = s.key then expire s else pure s
    | .flag i _ il _ _ =>
      match s.hbOf i with
      | none => pure s                    -- an election of another group
      | some h => if il then (if s.claims? i then pure s else raise s i h) else pure (lower s i)
    | .extPut _ _ _ => reject "outside writer in a scenario that promised none"
    | .extDelete _ _ => reject "outside writer in a scenario that promised none"
    | _ => pure s

def run (s : State) : List TEv → R State
  | [] => pure s
  | e :: es => do
    let s' ← step s e
    run s' es

end NLE.Lease
