/-
  The visible-event vocabulary shared by the harness (which records it from the real code under
  testing/synctest), the world model / property monitors, and the implementation model.
  All strings have been canonicalised to numbers by the harness: instance ids (1..N for the
  participating elections, >100 for any other id seen in a record, 0 = ""), tokens (index by first
  appearance, 0 = ""), states (0 INIT, 1 CANDIDATE, 2 LEADER, 3 FOLLOWER, 4 DEMOTED, 5 STOPPED).
-/
namespace NLE

/-- What the library's two decoders see in a record value that is *not* a canonical payload. -/
structure View where
  structOk : Bool      -- json.Unmarshal into leadershipPayload succeeded
  sId : Nat
  sTok : Nat
  sPrio : Int
  mapOk : Bool         -- json.Unmarshal into map[string]interface{} succeeded
  mId : Int            -- -1 absent, -2 present but not a string, otherwise the id
  mTok : Int           -- same for "token"
  deriving Repr, DecidableEq, Inhabited

/-- A record value. -/
inductive Val
  | own (id tok : Nat) (prio : Int)   -- exactly json.Marshal(leadershipPayload{id, tok, prio})
  | raw (v : View)                    -- anything else
  | empty                             -- no bytes (what a deletion looks like to a watcher)
  deriving Repr, DecidableEq, Inhabited

/-- The struct-decoder's reading: (ok, id, token, priority). -/
def Val.structView : Val → Bool × Nat × Nat × Int
  | .own i t p => (true, i, t, p)
  | .raw v => (v.structOk, v.sId, v.sTok, v.sPrio)
  | .empty => (false, 0, 0, 0)

/-- The map-decoder's reading: (ok, "id" field, "token" field) with -1 absent, -2 non-string. -/
def Val.mapView : Val → Bool × Int × Int
  | .own i t _ => (true, i, t)
  | .raw v => (v.mapOk, v.mId, v.mTok)
  | .empty => (false, -1, -1)

inductive OpKind | create | update | get | delete | watch
  deriving Repr, DecidableEq, Inhabited

inductive ErrKind | exists_ | wrongseq | notfound | timeout | noresponders | closed | other
  deriving Repr, DecidableEq, Inhabited

/-- Outcome of applying an operation to the store. -/
inductive Applied
  | ok (rev : Nat)          -- mutation applied / value read at this revision / watch id
  | fail (k : ErrKind)      -- the store refused (exists, wrongseq, notfound)
  | fault                   -- injected error: nothing applied
  | dropped                 -- never reached the store, never answered
  deriving Repr, DecidableEq, Inhabited

inductive Ret
  | ok (rev : Nat) (val : Option Val)
  | err (k : ErrKind)
  deriving Repr, DecidableEq, Inhabited

structure InstCfg where
  id : Nat
  key : String
  prio : Int
  takeover : Bool
  hb : Nat
  ttl : Nat
  val : Nat
  grace : Nat
  maxFail : Nat
  hasHealth : Bool
  connMon : Bool
  storeTTL : Nat
  callbacks : Bool := true    -- OnPromote / OnDemote registered
  deriving Repr, DecidableEq, Inhabited

inductive ApiKind
  | start | stop
  | stopctx (del wait : Bool) (timeout ctxTimeout : Nat)
  | validate (ctxTimeout : Nat) | validateOrDemote (ctxTimeout : Nat)
  deriving Repr, DecidableEq, Inhabited

inductive ApiRes
  | ok | alreadyStarted | alreadyStopped | notLeader | err
  | verdict (v : Bool) (tok : Nat) (isLeaderAfter : Bool)
  deriving Repr, DecidableEq, Inhabited

inductive ConnKind | disconnect | reconnect | closed
  deriving Repr, DecidableEq, Inhabited

inductive Ev
  | inst (c : InstCfg)
  | hyp (responsive noOutside noPreempt faultFree connOnly : Bool) (maxLat faultsEnd : Nat)   -- what the scenario's generator promises
  | call (op inst : Nat) (kind : OpKind) (key : String) (exp : Nat) (val : Val)
  | apply (op : Nat) (a : Applied)
  | ret (op : Nat) (r : Ret)
  | expire (key : String) (rev : Nat)
  | texpire (key : String) (rev : Nat)         -- a delete marker aged out
  | extPut (key : String) (rev : Nat) (val : Val)
  | extDelete (key : String) (rev : Nat)
  | wev (w inst rev : Nat) (val : Option Val)       -- none = nats.go's "initial values done" marker
  | wdrop (w inst rev : Nat)
  | flag (inst : Nat) (b isLeader : Bool) (tok lid : Nat)
  | trans (inst fromS toS : Nat)
  | promote (inst tok cid : Nat) (doneAtStart : Bool)
  | promoteRet (inst cid : Nat)
  | ctxDone (inst cid : Nat)
  | demote (inst : Nat)
  | api (n inst : Nat) (k : ApiKind)
  | apiRet (n inst : Nat) (r : ApiRes)
  | status (inst state : Nat) (isLeader : Bool) (lid tok rev : Nat) (isLeader2 : Bool)
  | observe (inst : Nat)     -- the library reports the duration of a term (Metrics.ObserveLeaderDuration): that term is being ended
  | slowSink          -- header: the configured log sink takes its time over every record it may (no timing clause applies to this trace)
  | wleft (n : Nat)   -- after the tear-down: watchers the library was given and never stopped
  | promGauge (inst : Nat) (v : Int)   -- when the scenario ends: election_is_leader of the instance in the real Prometheus registry (-1: no such series)
  | promTrans (inst n : Nat)           -- ... and the sum of its election_transitions_total series
  | metricsPanic (inst : Nat) (method : String)  -- the library's Prometheus implementation panicked on a call the election made (label set it does not accept)
  | snap (inst state : Nat) (isLeader : Bool) (lid tok : Nat)   -- one Status() call made concurrently with whatever the library is doing
  | health (inst k : Nat) (res : Bool) (rem : Int)
  | conn (inst : Nat) (k : ConnKind)
  | crash (inst : Nat)
  | partition (inst : Nat) (on : Bool)
  | watchFail (inst n : Nat)
  | panic (inst : Nat)
  | newErr (inst : Nat)
  | end_
  | gor (n : Nat)
  | cancelCtx (inst : Nat)             -- the application cancels the context it passed to Start
  | site (op : Nat) (fn : String)      -- the library function that issued store operation `op`
  deriving Repr, DecidableEq, Inhabited

structure TEv where
  t : Nat
  ev : Ev
  deriving Repr, DecidableEq, Inhabited

abbrev Trace := List TEv

end NLE
