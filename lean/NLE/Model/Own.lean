import NLE.Model.Trace
/-
  `Own`: the implementation model for record ownership, fencing tokens and leadership claims
  (properties C01, C05, C10a, the claim clause of C13).

  It is a labelled transition system over the visible events of the harness trace.  `step` is a
  partial function: an event the model does not allow is *rejected* — that is how a trace of the real
  code that the model cannot produce shows up as a broken correspondence.  Everything the instances
  may do to the store is guarded by what the code does (leader/kv_election.go, heartbeat.go,
  watcher.go), at the granularity "one goroutine runs until it blocks":

  * `Create` always publishes a token that this process has never used (uuid.New — assumption A-uuid)
    together with the instance's own id and configured priority, on the instance's own key.
  * An `Update` is either a *heartbeat* — only by a claiming instance, presenting the revision field
    and republishing the token of its term — or a *takeover* — only with takeover enabled and
    priority > 0, against the revision of a record this instance has read, whose stored priority is
    strictly lower, publishing the token of a Create of this instance that was refused.
  * The revision field of a claiming instance is written only by `becomeLeader(tok, rev)` with the
    revision returned by its own acquiring write and by the heartbeat loop with the revision
    returned by its own refresh (follower-side observations are dropped while leading:
    `observeLeader`).
  * The flag is raised only by `becomeLeader`, i.e. after an own acknowledged acquiring write, with
    that write's token.
  * `Delete` is issued only by `StopWithContext{DeleteKey}` of an instance that led when the stop
    began or acquired the record while stopping.

  The state carries ghost history (every successful mutation with the record before/after it) so
  that the properties are statements about monotone history.
-/
namespace NLE.Own

structure Rec where
  val : Val
  rev : Nat
  writer : Nat
  deriving Repr, DecidableEq, Inhabited

inductive MKind | create | refresh | takeover | delete | expire | ext
  deriving Repr, DecidableEq, Inhabited

/-- A successful change of a key. -/
structure Mut where
  who : Nat
  kind : MKind
  key : String
  exp : Nat
  before : Option Rec
  after : Option Rec
  deriving Repr, DecidableEq, Inhabited

inductive Purpose | create | heartbeat | takeover | delete | other
  deriving Repr, DecidableEq, Inhabited

structure POp where
  id : Nat
  inst : Nat
  purpose : Purpose
  key : String
  exp : Nat
  val : Val
  applied : Option (Option Nat) := none   -- some (some rev): applied ok; some none: refused / fault / dropped
  issued : Nat := 0
  deriving Repr, DecidableEq, Inhabited

structure Inst where
  cfg : InstCfg
  lead : Option Nat := none            -- token of the term in progress (the flag)
  hbRev : Nat := 0                     -- the revision field while leading
  seen : List (Nat × Val) := []        -- records this instance has read (revision, value)
  refusedToks : List Nat := []         -- tokens of its Creates that were refused
  acked : List (Nat × Nat) := []       -- (token, revision) of its acknowledged acquiring writes not yet claimed
  stopDel : Option Nat := none         -- the StopWithContext{DeleteKey} call in progress (api number)
  deriving Repr, Inhabited

structure State where
  insts : List Inst := []
  store : List (String × Rec) := []
  seq : Nat := 0
  ops : List POp := []
  hist : List Mut := []                -- newest first
  usedToks : List Nat := []            -- every token ever issued by a Create call or written into a record
  deriving Repr, Inhabited

namespace State

def inst? (s : State) (i : Nat) : Option Inst := s.insts.find? (·.cfg.id = i)
def setInst (s : State) (x : Inst) : State :=
  { s with insts := s.insts.map fun y => if y.cfg.id = x.cfg.id then x else y }
def live (s : State) (key : String) : Option Rec := s.store.lookup key
def setKey (s : State) (key : String) (r : Option Rec) : State :=
  let rest := s.store.filter (·.1 ≠ key)
  match r with
  | none => { s with store := rest }
  | some r => { s with store := (key, r) :: rest }
def op? (s : State) (id : Nat) : Option POp := s.ops.find? (·.id = id)

end State

def valTok : Val → Option Nat
  | .own _ t _ => some t
  | _ => none

def valToks : Val → List Nat
  | .own _ t _ => [t]
  | .raw v => [v.sTok] ++ (if v.mTok ≥ 0 then [v.mTok.toNat] else [])
  | .empty => []

def storedPrio (v : Val) : Option Int :=
  let (ok, _, _, p) := v.structView
  if ok then some p else none

/-- Guard of a takeover `Update`: this instance may replace a record it has read at revision `exp`. -/
def takeoverAllowed (x : Inst) (exp : Nat) : Bool :=
  x.cfg.takeover && decide (x.cfg.prio > 0) &&
  x.seen.any fun (r, v) => r == exp && (match storedPrio v with | some p => decide (x.cfg.prio > p) | none => false)

abbrev R := Except String

def reject {α} (msg : String) : R α := .error msg

/-- Heartbeat operation time-out: max(H/2, 1 s) (the documented rule; the constants are tied to the source by
    `NLE/Theorems/C03.lean`). -/
def hbTimeout (c : InstCfg) : Nat := max (c.hb / 2) 1000000000

/-- One visible event.  Events that do not concern this model are accepted unchanged. -/
def step (s : State) (te : TEv) : R State :=
  let t := te.t
  match te.ev with
  | .inst c => pure { s with insts := s.insts ++ [{ cfg := c }] }
  | .call op i kind key exp val =>
    match s.inst? i with
    | none => reject s!"call by unknown instance {i}"
    | some x =>
      if key ≠ x.cfg.key then reject s!"instance {i} touches key {key}, its group's key is {x.cfg.key}" else
      match kind with
      | .create =>
        match val with
        | .own id tok prio =>
          if id ≠ i ∨ prio ≠ x.cfg.prio then reject s!"Create by {i} publishes identity {id} priority {prio}"
          else if tok = 0 ∨ s.usedToks.contains tok then reject s!"Create by {i} reuses token {tok}"
          else pure { s with ops := { id := op, inst := i, purpose := .create, key := key, exp := 0, val := val, issued := t } :: s.ops,
                             usedToks := tok :: s.usedToks }
        | _ => reject s!"Create by {i} with a non-canonical payload"
      | .update =>
        match val with
        | .own id tok prio =>
          if id ≠ i ∨ prio ≠ x.cfg.prio then reject s!"Update by {i} publishes identity {id} priority {prio}"
          else if x.lead = some tok then
            -- heartbeat: presents the revision field
            if exp = x.hbRev then
              pure { s with ops := { id := op, inst := i, purpose := .heartbeat, key := key, exp := exp, val := val, issued := t } :: s.ops }
            else reject s!"heartbeat of {i} presents revision {exp}, its revision field holds {x.hbRev}"
          else if x.refusedToks.contains tok ∧ takeoverAllowed x exp then
            pure { s with ops := { id := op, inst := i, purpose := .takeover, key := key, exp := exp, val := val, issued := t } :: s.ops }
          else reject s!"Update by {i} (exp {exp}, token {tok}) is neither its heartbeat (term {repr x.lead}) nor an allowed takeover"
        | _ => reject s!"Update by {i} with a non-canonical payload"
      | .delete =>
        if x.stopDel.isSome then
          pure { s with ops := { id := op, inst := i, purpose := .delete, key := key, exp := 0, val := .empty, issued := t } :: s.ops }
        else reject s!"Delete by {i} outside StopWithContext(DeleteKey)"
      | _ => pure { s with ops := { id := op, inst := i, purpose := .other, key := key, exp := 0, val := .empty, issued := t } :: s.ops }
  | .apply op a =>
    match s.op? op with
    | none => reject s!"apply of unknown op {op}"
    | some p =>
      let mark (s : State) (r : Option Nat) : State :=
        { s with ops := s.ops.map fun q => if q.id = op then { q with applied := some r } else q }
      match a with
      | .ok rev =>
        match p.purpose with
        | .other => pure (mark s (some rev))
        | .create =>
          if (s.live p.key).isSome then reject s!"store applied a Create on a live key"
          else if rev ≠ s.seq + 1 then reject s!"store revision {rev}, model expects {s.seq + 1}"
          else
            let r : Rec := { val := p.val, rev := rev, writer := p.inst }
            let s := (s.setKey p.key (some r))
            pure (mark { s with seq := rev, hist := { who := p.inst, kind := .create, key := p.key, exp := 0, before := none, after := some r } :: s.hist,
                                usedToks := valToks p.val ++ s.usedToks } (some rev))
        | .heartbeat | .takeover =>
          match s.live p.key with
          | none => reject s!"store applied an Update on an absent key"
          | some old =>
            if old.rev ≠ p.exp then reject s!"store applied an Update against revision {p.exp}, live revision is {old.rev}"
            else if rev ≠ s.seq + 1 then reject s!"store revision {rev}, model expects {s.seq + 1}"
            else
              let r : Rec := { val := p.val, rev := rev, writer := p.inst }
              let k : MKind := if p.purpose = .heartbeat then .refresh else .takeover
              let s := (s.setKey p.key (some r))
              pure (mark { s with seq := rev, hist := { who := p.inst, kind := k, key := p.key, exp := p.exp, before := some old, after := some r } :: s.hist,
                                  usedToks := valToks p.val ++ s.usedToks } (some rev))
        | .delete =>
          if rev ≠ s.seq + 1 then reject s!"store revision {rev}, model expects {s.seq + 1}"
          else
            let old := s.live p.key
            let s := s.setKey p.key none
            pure (mark { s with seq := rev, hist := { who := p.inst, kind := .delete, key := p.key, exp := 0, before := old, after := none } :: s.hist } (some rev))
      | _ => pure (mark s none)
  | .ret op r =>
    match s.op? op with
    | none => reject s!"ret of unknown op {op}"
    | some p =>
      let s1 := { s with ops := s.ops.filter (·.id ≠ op) }
      match s1.inst? p.inst with
      | none => pure s1
      | some x =>
        match p.purpose, r with
        | .create, .ok rev _ | .takeover, .ok rev _ =>
          if p.applied ≠ some (some rev) then reject s!"op {op} acknowledged at {rev} but applied {repr p.applied}"
          else match valTok p.val with
            | some tok => pure (s1.setInst { x with acked := (tok, rev) :: x.acked })
            | none => pure s1
        | .create, .err _ =>
          (match valTok p.val with
           | some tok => pure (s1.setInst { x with refusedToks := tok :: x.refusedToks })
           | none => pure s1)
        | .heartbeat, .ok rev _ =>
          if p.applied ≠ some (some rev) then reject s!"op {op} acknowledged at {rev} but applied {repr p.applied}"
          else if x.lead = valTok p.val ∧ t ≤ p.issued + hbTimeout x.cfg then pure (s1.setInst { x with hbRev := rev })
          else pure s1          -- the term has ended or the attempt had already timed out: the answer is discarded
        | .other, .ok rev (some v) => pure (s1.setInst { x with seen := (rev, v) :: x.seen })
        | _, _ => pure s1
  | .expire key rev =>
    match s.live key with
    | some old => if old.rev = rev then
        pure { (s.setKey key none) with hist := { who := 0, kind := .expire, key := key, exp := 0, before := some old, after := none } :: s.hist }
      else reject s!"expiry of {key} at revision {rev}, live revision is {old.rev}"
    | none => reject s!"expiry of absent key {key}"
  | .extPut key rev val =>
    if rev ≠ s.seq + 1 then reject s!"store revision {rev}, model expects {s.seq + 1}" else
    let old := s.live key
    let r : Rec := { val := val, rev := rev, writer := 0 }
    let s := s.setKey key (some r)
    pure { s with seq := rev, hist := { who := 0, kind := .ext, key := key, exp := 0, before := old, after := some r } :: s.hist,
                  usedToks := valToks val ++ s.usedToks }
  | .extDelete key rev =>
    if rev ≠ s.seq + 1 then reject s!"store revision {rev}, model expects {s.seq + 1}" else
    let old := s.live key
    let s := s.setKey key none
    pure { s with seq := rev, hist := { who := 0, kind := .ext, key := key, exp := 0, before := old, after := none } :: s.hist }
  | .flag i _ il tok _ =>
    match s.inst? i with
    | none => pure s
    | some x =>
      if il then
        if x.lead = some tok then pure s                     -- gauge re-asserted
        else match x.acked.find? (·.1 = tok) with
          | some (_, rev) =>
            if x.lead.isSome then reject s!"instance {i} starts a term (token {tok}) while term {repr x.lead} is open"
            else pure (s.setInst { x with lead := some tok, hbRev := rev, acked := x.acked.filter (·.1 ≠ tok) })
          | none => reject s!"instance {i} raises the flag with token {tok} without an acknowledged acquiring write"
      else pure (s.setInst { x with lead := none })
  | .api n i (.stopctx del _ _ _) =>
    match s.inst? i with
    | some x => pure (s.setInst { x with stopDel := if del then some n else x.stopDel })
    | none => pure s
  | .apiRet n i _ =>
    -- a returning StopWithContext ends its deletion window
    match s.inst? i with
    | some x => pure (if x.stopDel = some n then s.setInst { x with stopDel := none } else s)
    | none => pure s
  | _ => pure s

def run (s : State) : List TEv → R State
  | [] => pure s
  | e :: es => do
    let s' ← step s e
    run s' es

end NLE.Own
