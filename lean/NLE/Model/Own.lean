import NLE.Model.Trace
/-
  `Own`: the implementation model for record ownership, fencing tokens and leadership claims
  (properties C01, C05, C10a, the claim clause of C13).

  It is a labelled transition system over the visible events of the harness trace.  `step` is a
  partial function: an event the model does not allow is *rejected* — that is how a trace of the real
  code that the model cannot produce shows up as a broken correspondence.  Everything the instances
  may do to the store is guarded by what the code does (leader/kv_election.go, heartbeat.go,
  watcher.go), at the granularity "one goroutine runs until it blocks":

  * `Create` always publishes a token that this process has never used (uuid.New — assumption A-uuid)
    together with the instance's own id and configured priority, on the instance's own key.
  * An `Update` is either a *heartbeat* — only by a claiming instance, presenting the revision field
    and republishing the token of its term — or a *takeover* — only with takeover enabled and
    priority > 0, against the revision of a record this instance has read, whose stored priority is
    strictly lower, publishing a fresh token (as `Create` does).
  * The revision field of a claiming instance is written only by `becomeLeader(tok, rev)` with the
    revision returned by its own acquiring write and by the heartbeat loop with the revision
    returned by its own refresh (follower-side observations are dropped while leading:
    `observeLeader`).
  * The flag is raised only by `becomeLeader`, i.e. after an own acknowledged acquiring write, with
    that write's token.
  * `Delete` is issued only by `StopWithContext{DeleteKey}`.

  The state carries ghost history (every successful mutation with the record before/after it) so
  that the properties are statements about monotone history.
-/
namespace NLE.Own

structure Rec where
  val : Val
  rev : Nat
  writer : Nat
  deriving Repr, DecidableEq, Inhabited

inductive MKind | create | refresh | takeover | delete | expire | ext
  deriving Repr, DecidableEq, Inhabited

/-- A successful change of a key. -/
structure Mut where
  who : Nat
  kind : MKind
  key : String
  exp : Nat
  before : Option Rec
  after : Option Rec
  deriving Repr, DecidableEq, Inhabited

inductive Purpose | create | heartbeat | takeover | delete | other
  deriving Repr, DecidableEq, Inhabited

structure POp where
  id : Nat
  inst : Nat
  purpose : Purpose
  key : String
  exp : Nat
  val : Val
  applied : Option (Option Nat) := none   -- some (some rev): applied ok; some none: refused / fault / dropped
  issued : Nat := 0
  deriving Repr, DecidableEq, Inhabited

structure Inst where
  cfg : InstCfg
  lead : Option Nat := none            -- token of the term in progress (the flag)
  hbRev : Nat := 0                     -- the revision field while leading
  seen : List (Nat × Val) := []        -- records this instance has read (revision, value)
  acked : List (Nat × Nat) := []       -- (token, revision) of its acknowledged acquiring writes not yet claimed
  stopDel : Option Nat := none         -- the StopWithContext{DeleteKey} call in progress (api number)
  stopOwner : Bool := false           -- that call found the instance leading, or an acquiring write of it was acknowledged since
  halted : Bool := false              -- a stop call has begun, or the run's context was cancelled, since the last successful Start
  awd : Bool := false                 -- an acquiring write was acknowledged while halted: the promotion is refused, the record exists
  startCall : Option Nat := none      -- the Start call in progress (api number)
  deriving Repr, Inhabited

/-- A stop call begins, or the context passed to Start is cancelled: an acknowledged acquiring write that has
    not been claimed (the promotion is about to be refused) leaves an orphan record behind. -/
def Inst.halt (x : Inst) : Inst :=
  { x with halted := true, awd := x.awd || (x.lead.isNone && !x.acked.isEmpty) }

structure State where
  insts : Nat → Option Inst := fun _ => none
  store : String → Option Rec := fun _ => none
  seq : Nat := 0
  ops : List POp := []
  hist : List Mut := []                -- newest first
  usedToks : List Nat := []            -- every token ever issued by a Create call or written into a record
  deriving Inhabited

namespace State

def setInst (s : State) (x : Inst) : State :=
  { s with insts := fun i => if i = x.cfg.id then some x else s.insts i }
def setKey (s : State) (key : String) (r : Option Rec) : State :=
  { s with store := fun k => if k = key then r else s.store k }
def op? (s : State) (id : Nat) : Option POp := s.ops.find? (·.id = id)
def markOp (s : State) (op : Nat) (r : Option Nat) : State :=
  { s with ops := s.ops.map fun q => if q.id = op then { q with applied := some r } else q }
def dropOp (s : State) (op : Nat) : State :=
  { s with ops := s.ops.filter (·.id ≠ op) }
def addOp (s : State) (p : POp) : State := { s with ops := p :: s.ops }
def addMut (s : State) (m : Mut) : State := { s with hist := m :: s.hist }

end State

def valTok : Val → Option Nat
  | .own _ t _ => some t
  | _ => none

def valToks : Val → List Nat
  | .own _ t _ => [t]
  | .raw v => [v.sTok] ++ (if v.mTok ≥ 0 then [v.mTok.toNat] else [])
  | .empty => []

def storedPrio (v : Val) : Option Int :=
  if v.structView.1 then some v.structView.2.2.2 else none

/-- `cfg.Priority > stored priority` as the takeover comparison reads the record. -/
def outranks (prio : Int) (v : Val) : Bool :=
  match storedPrio v with
  | some p => decide (prio > p)
  | none => false

/-- Guard of a takeover `Update`: this instance may replace a record it has read at revision `exp`. -/
def takeoverAllowed (x : Inst) (exp : Nat) : Bool :=
  x.cfg.takeover && decide (x.cfg.prio > 0) && x.seen.any fun rv => rv.1 == exp && outranks x.cfg.prio rv.2

/-- Heartbeat operation time-out: max(H/2, 1 s) (the documented rule). -/
def hbTimeout (c : InstCfg) : Nat := max (c.hb / 2) 1000000000

abbrev R := Except String

def reject {α} (msg : String) : R α := .error msg

/-! ### Event handlers -/

def stepCall (s : State) (t op i : Nat) (kind : OpKind) (key : String) (exp : Nat) (val : Val) : R State :=
  match s.insts i with
  | none => reject s!"call by unknown instance {i}"
  | some x =>
    if (s.op? op).isSome then reject s!"operation id {op} used twice" else
    if key ≠ x.cfg.key then reject s!"instance {i} touches key {key}, its group's key is {x.cfg.key}" else
    match kind with
    | .create =>
      match val with
      | .own id tok prio =>
        if id ≠ i ∨ prio ≠ x.cfg.prio ∨ i ≠ x.cfg.id then reject s!"Create by {i} publishes identity {id} priority {prio}"
        else if tok = 0 ∨ s.usedToks.contains tok then reject s!"Create by {i} reuses token {tok}"
        else pure { (s.addOp { id := op, inst := i, purpose := .create, key := key, exp := 0, val := val, issued := t }) with
                    usedToks := tok :: s.usedToks }
      | _ => reject s!"Create by {i} with a non-canonical payload"
    | .update =>
      match val with
      | .own id tok prio =>
        if id ≠ i ∨ prio ≠ x.cfg.prio ∨ i ≠ x.cfg.id then reject s!"Update by {i} publishes identity {id} priority {prio}"
        else if x.lead = some tok then
          -- heartbeat: presents the revision field
          if exp = x.hbRev then
            pure (s.addOp { id := op, inst := i, purpose := .heartbeat, key := key, exp := exp, val := val, issued := t })
          else reject s!"heartbeat of {i} presents revision {exp}, its revision field holds {x.hbRev}"
        else if x.lead.isSome then reject s!"instance {i} leads (term {repr x.lead}) and issues a takeover write with token {tok}"
        else if tok ≠ 0 ∧ s.usedToks.contains tok = false ∧ takeoverAllowed x exp = true then
          pure { (s.addOp { id := op, inst := i, purpose := .takeover, key := key, exp := exp, val := val, issued := t }) with
                 usedToks := tok :: s.usedToks }
        else reject s!"Update by {i} (exp {exp}, token {tok}) is neither its heartbeat (term {repr x.lead}) nor an allowed takeover"
      | _ => reject s!"Update by {i} with a non-canonical payload"
    | .delete =>
      if x.stopDel.isSome ∧ (x.stopOwner ∨ x.awd) then
        pure (s.addOp { id := op, inst := i, purpose := .delete, key := key, exp := 0, val := .empty, issued := t })
      else reject s!"Delete by {i} outside a StopWithContext(DeleteKey) that found it leading (or acquiring)"
    | _ => pure (s.addOp { id := op, inst := i, purpose := .other, key := key, exp := 0, val := .empty, issued := t })

/-- The store applies a write of instance `p.inst` (ghost history and token bookkeeping included). -/
def applyWrite (s : State) (op : Nat) (p : POp) (rev : Nat) (kind : MKind) (before : Option Rec) : State :=
  let r : Rec := { val := p.val, rev := rev, writer := p.inst }
  ({ ((s.setKey p.key (some r)).addMut { who := p.inst, kind := kind, key := p.key, exp := p.exp, before := before, after := some r }) with
     seq := rev, usedToks := valToks p.val ++ s.usedToks }).markOp op (some rev)

def stepApplyOk (s : State) (op : Nat) (p : POp) (rev : Nat) : R State :=
  match p.purpose with
  | .other => pure (s.markOp op (some rev))
  | .create =>
    if (s.store p.key).isSome then reject s!"store applied a Create on a live key"
    else if rev ≠ s.seq + 1 then reject s!"store revision {rev}, model expects {s.seq + 1}"
    else pure (applyWrite s op p rev .create none)
  | .heartbeat =>
    match s.store p.key with
    | none => reject s!"store applied an Update on an absent key"
    | some old =>
      if old.rev ≠ p.exp then reject s!"store applied an Update against revision {p.exp}, live revision is {old.rev}"
      else if rev ≠ s.seq + 1 then reject s!"store revision {rev}, model expects {s.seq + 1}"
      else pure (applyWrite s op p rev .refresh (some old))
  | .takeover =>
    match s.store p.key with
    | none => reject s!"store applied an Update on an absent key"
    | some old =>
      if old.rev ≠ p.exp then reject s!"store applied an Update against revision {p.exp}, live revision is {old.rev}"
      else if rev ≠ s.seq + 1 then reject s!"store revision {rev}, model expects {s.seq + 1}"
      else pure (applyWrite s op p rev .takeover (some old))
  | .delete =>
    if rev ≠ s.seq + 1 then reject s!"store revision {rev}, model expects {s.seq + 1}"
    else
      pure ({ ((s.setKey p.key none).addMut { who := p.inst, kind := .delete, key := p.key, exp := 0, before := s.store p.key, after := none }) with
              seq := rev }.markOp op (some rev))

def stepApply (s : State) (op : Nat) (a : Applied) : R State :=
  match s.op? op with
  | none => reject s!"apply of unknown op {op}"
  | some p =>
    if p.applied.isSome then reject s!"operation {op} applied twice" else
    match a with
    | .ok rev => stepApplyOk s op p rev
    | _ => pure (s.markOp op none)

def stepRet (s : State) (t op : Nat) (r : Ret) : R State :=
  match s.op? op with
  | none => reject s!"ret of unknown op {op}"
  | some p =>
    let s1 := s.dropOp op
    match s1.insts p.inst with
    | none => pure s1
    | some x =>
      match p.purpose, r with
      | .create, .ok rev _ =>
        if p.applied ≠ some (some rev) then reject s!"op {op} acknowledged at {rev} but applied {repr p.applied}"
        else match valTok p.val with
          | some tok => pure (s1.setInst { x with acked := (tok, rev) :: x.acked, stopOwner := x.stopOwner || x.stopDel.isSome, awd := x.awd || x.halted })
          | none => pure s1
      | .takeover, .ok rev _ =>
        if p.applied ≠ some (some rev) then reject s!"op {op} acknowledged at {rev} but applied {repr p.applied}"
        else match valTok p.val with
          | some tok => pure (s1.setInst { x with acked := (tok, rev) :: x.acked, stopOwner := x.stopOwner || x.stopDel.isSome, awd := x.awd || x.halted })
          | none => pure s1
      | .heartbeat, .ok rev _ =>
        if p.applied ≠ some (some rev) then reject s!"op {op} acknowledged at {rev} but applied {repr p.applied}"
        else if x.lead = valTok p.val ∧ t ≤ p.issued + hbTimeout x.cfg then pure (s1.setInst { x with hbRev := rev })
        else pure s1          -- the term has ended or the attempt had already timed out: the answer is discarded
      | .other, .ok rev (some v) =>
        -- what a read returns must be a version of this key that was written at some point
        if p.key = x.cfg.key ∧ s.hist.any (fun m => m.key == p.key && (match m.after with | some r => r.rev == rev && r.val == v | none => false)) then
          pure (s1.setInst { x with seen := (rev, v) :: x.seen })
        else reject s!"op {op} returned revision {rev} of {p.key}, which was never written"
      | _, _ => pure s1

def stepExpire (s : State) (key : String) (rev : Nat) : R State :=
  match s.store key with
  | some old =>
    if old.rev = rev then
      pure ((s.setKey key none).addMut { who := 0, kind := .expire, key := key, exp := 0, before := some old, after := none })
    else reject s!"expiry of {key} at revision {rev}, live revision is {old.rev}"
  | none => reject s!"expiry of absent key {key}"

/-- Tokens that instances have generated for an acquiring write that has not been applied: nobody
    else can know them (assumption A-uuid). -/
def unpublishedToks (s : State) : List Nat :=
  s.ops.filterMap fun p =>
    if (p.purpose = .create ∨ p.purpose = .takeover) ∧ (p.applied = none ∨ p.applied = some none) then valTok p.val else none

def stepExtPut (s : State) (key : String) (rev : Nat) (val : Val) : R State :=
  if rev ≠ s.seq + 1 then reject s!"store revision {rev}, model expects {s.seq + 1}"
  else if (valToks val).any (fun t => (unpublishedToks s).contains t) then
    reject s!"outside writer publishes a token that an instance generated but has not published (excluded by A-uuid)"
  else
    let r : Rec := { val := val, rev := rev, writer := 0 }
    pure { ((s.setKey key (some r)).addMut { who := 0, kind := .ext, key := key, exp := 0, before := s.store key, after := some r }) with
           seq := rev, usedToks := valToks val ++ s.usedToks }

def stepExtDelete (s : State) (key : String) (rev : Nat) : R State :=
  if rev ≠ s.seq + 1 then reject s!"store revision {rev}, model expects {s.seq + 1}"
  else
    pure { ((s.setKey key none).addMut { who := 0, kind := .ext, key := key, exp := 0, before := s.store key, after := none }) with seq := rev }

def stepFlag (s : State) (i : Nat) (il : Bool) (tok : Nat) : R State :=
  match s.insts i with
  | none => pure s
  | some x =>
    if il then
      if x.lead = some tok then pure s                     -- gauge re-asserted
      else match x.acked.find? (·.1 = tok) with
        | some (_, rev) =>
          if x.lead.isSome then reject s!"instance {i} starts a term (token {tok}) while term {repr x.lead} is open"
          else pure (s.setInst { x with lead := some tok, hbRev := rev, acked := x.acked.filter (·.1 ≠ tok) })
        | none => reject s!"instance {i} raises the flag with token {tok} without an acknowledged acquiring write"
    else pure (s.setInst { x with lead := none })

/-- One visible event.  Events that do not concern this model are accepted unchanged. -/
def step (s : State) (te : TEv) : R State :=
  match te.ev with
  | .inst c =>
    if (s.insts c.id).isSome then reject s!"instance {c.id} declared twice"
    else pure { s with insts := fun i => if i = c.id then some { cfg := c } else s.insts i }
  | .call op i kind key exp val => stepCall s te.t op i kind key exp val
  | .apply op a => stepApply s op a
  | .ret op r => stepRet s te.t op r
  | .expire key rev => stepExpire s key rev
  | .extPut key rev val => stepExtPut s key rev val
  | .extDelete key rev => stepExtDelete s key rev
  | .flag i _ il tok _ => stepFlag s i il tok
  | .api n i (.stopctx del _ _ _) =>
    match s.insts i with
    | some x =>
      -- (a second stop call issued while one with DeleteKey is in progress finds the election stopped and does nothing:
      --  the window stays the first call's)
      if del ∧ x.stopDel.isNone then pure (s.setInst { (x.halt) with stopDel := some n, stopOwner := x.lead.isSome })
      else pure (s.setInst x.halt)
    | none => pure s
  | .api _ i .stop | .cancelCtx i =>
    match s.insts i with
    | some x => pure (s.setInst x.halt)
    | none => pure s
  | .api n i .start =>
    match s.insts i with
    | some x => pure (s.setInst { x with startCall := some n })
    | none => pure s
  | .apiRet n i r =>
    match s.insts i with
    | some x =>
      -- a returning StopWithContext ends its deletion window (and consumes the orphan-record note);
      -- a successful Start begins a new run
      if x.stopDel = some n then pure (s.setInst { x with stopDel := none, awd := false })
      else if x.startCall = some n then
        -- (an acquiring write acknowledged shortly before the restart may still be on its way to `becomeLeader`: the new run
        --  is the one that decides about its promotion, so the note of it is kept)
        pure (s.setInst (if r = .ok then { x with startCall := none, halted := false, awd := false } else { x with startCall := none }))
      else pure s
    | none => pure s
  | _ => pure s

def run (s : State) : List TEv → R State
  | [] => pure s
  | e :: es => do
    let s' ← step s e
    run s' es

end NLE.Own
