import NLE.Model.Trace
import NLE.Gen.Consts
/-
  `Vac`: how a healthy candidate fills a vacancy (property C06) — the follower's periodic check and the acquisition
  round it triggers, as a timed assume-guarantee model of ONE candidate observing the group's key.

  * the watch loop issues a periodic check (a `Get`) every `P` = 500 ms (regenerated), delayed by at most one
    blocking call of the loop (≤ `L`): next check call ≤ previous check call + P + L;
  * every store operation is applied and answered within `L` of its call (hypothesis: responsive store);
  * a check that does not read a record (key missing, or any error) starts an acquisition round: after a jitter of at
    most `J` = 100 ms (regenerated) the round calls `Create` — as soon as no other acquisition attempt of the same instance
    is running (attempts of one instance are serialized; one attempt is at most `B` long: a Create, and with takeover
    enabled a Get and an Update);
  * the store: a `Get` applied on a vacant key does not return a record; a `Create` applied on a vacant key succeeds.
  Time is urgent: it cannot advance past a pending deadline.  No watch notification is needed for any of this.
-/
namespace NLE.Vac

structure Par where
  P : Nat      -- period of the periodic check
  Jmin : Nat   -- minimum jitter of an acquisition round
  J : Nat      -- maximum jitter
  L : Nat      -- bound on call → application → answer of every store operation
  B : Nat      -- longest time another acquisition attempt of the same instance can keep a round waiting
  deriving Repr, DecidableEq, Inhabited

def Par.ofLat (L : Nat) (takeover : Bool) : Par :=
  { P := Gen.checkInterval, Jmin := Gen.jitterMin, J := Gen.jitterMax, L := L, B := if takeover then 3 * L else L }

inductive Chk
  | idle
  | flying (c : Nat)                 -- check called at `c`, not applied yet
  | seen (c : Nat) (vac : Bool)      -- applied: the key was vacant / held a record
  deriving Repr, DecidableEq, Inhabited

structure St where
  now : Nat := 0
  vacant : Option Nat := none        -- the key has been vacant since (from the candidate's healthy-since at the earliest)
  lastCheck : Nat := 0               -- call time of the last completed check (or the start of the loop / of following)
  chk : Chk := .idle
  owed : List Nat := []              -- answer times of checks that read no record: a Create is owed by + J + B
  crts : List Nat := []              -- call times of this candidate's Creates not yet applied
  deriving Repr, DecidableEq, Inhabited

inductive Act
  | advance (t : Nat)
  | vacate                 -- the record disappears: deletion or expiry
  | fill                   -- a write of somebody else makes the key live again
  | checkCall
  | checkApply
  | checkRet (miss : Bool) -- what the candidate read: no record (missing key / error / empty) or a record
  | createCall
  | createApply (c : Nat)  -- the Create called at `c` is applied
  deriving Repr, DecidableEq, Inhabited

/-- Deadline of the check mechanism. -/
def chkDue (p : Par) (s : St) : Nat :=
  match s.chk with
  | .idle => s.lastCheck + p.P + p.L
  | .flying c => c + p.L
  | .seen c _ => c + p.L

/-- May the clock reach `t`? -/
def canAdvance (p : Par) (s : St) (t : Nat) : Bool :=
  decide (s.now ≤ t) && decide (t ≤ chkDue p s) && s.owed.all (fun r => decide (t ≤ r + p.J + p.B)) && s.crts.all (fun c => decide (t ≤ c + p.L))

def step (p : Par) (s : St) : Act → Option St
  | .advance t => if canAdvance p s t then some { s with now := t } else none
  | .vacate => some { s with vacant := some s.now }
  | .fill => some { s with vacant := none }
  | .checkCall =>
    match s.chk with
    | .idle => some { s with chk := .flying s.now }
    | _ => none
  | .checkApply =>
    match s.chk with
    | .flying c => some { s with chk := .seen c s.vacant.isSome }
    | _ => none
  | .checkRet miss =>
    match s.chk with
    | .seen c vac =>
      if vac ∧ ¬ miss then none       -- a Get applied on a vacant key cannot return a record
      else some { s with chk := .idle, lastCheck := c, owed := if miss then s.now :: s.owed else s.owed }
    | _ => none
  | .createCall =>
    some { s with crts := s.now :: s.crts, owed := s.owed.filter (fun r => ¬ (r + p.Jmin ≤ s.now)) }
  | .createApply c =>
    if c ∈ s.crts then some { s with crts := s.crts.erase c, vacant := none }   -- vacant: it succeeds; live: refused, still live
    else none

def run (p : Par) (s : St) : List Act → Option St
  | [] => some s
  | a :: as => match step p s a with
    | some s' => run p s' as
    | none => none

/-- A candidate that starts following (or becomes healthy) at `t0`; a vacancy that exists then counts from `t0`. -/
def init (t0 : Nat) (vacant : Bool) : St := { now := t0, lastCheck := t0, vacant := if vacant then some t0 else none }

/-- The bound of the property: one periodic-check interval + maximum jitter + operation latencies (check answered,
    a running attempt of the same instance finished, Create applied). -/
def bound (p : Par) : Nat := p.P + p.J + 3 * p.L + p.B

end NLE.Vac
