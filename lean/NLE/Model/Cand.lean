import NLE.Model.Vac
/-
  `Cand`: the acceptor that ties the vacancy model `Vac` to implementation traces (property C06).

  Every instance that is a healthy follower (started, no stop call since, not leading, watch loop running, neither
  crashed nor partitioned) carries one `Vac.St`; the trace's events are mapped to `Vac` actions:

  * a `Get` issued by `checkKeyAndReelect` (call site reported by the harness) — `checkCall` / `checkApply` / `checkRet`;
  * a `Create` issued by the instance — `createCall` / `createApply`;
  * any applied deletion or expiry of the group's key — `vacate` for every candidate; any applied write — `fill`;
  * the time stamp of every event — `advance`: a pending deadline that has passed (periodic check overdue, operation
    not answered within the promised latency, Create owed after a miss not issued within the maximum jitter) rejects
    the trace.
  The acceptor runs on scenarios that promise a latency bound and inject no store faults.
-/
namespace NLE.Cand

structure CInst where
  cfg : InstCfg
  running : Bool := false
  flag : Bool := false
  cut : Bool := false
  vac : Option Vac.St := none
  chkOp : Option Nat := none
  crtOps : List (Nat × Nat) := []      -- (op, call time)
  startDue : Option Nat := none        -- a Start succeeded: by then the instance leads or follows (its first attempt is over)
  lastMiss : Option Nat := none        -- a periodic check of this follower found no record then
  lastCreate : Nat := 0                -- its latest Create call
  trigs : List Nat := []               -- the two latest moments at which something could have started a round (see the monitors)
  everCreated : Bool := false
  jitterSuspect : Option (Nat × String) := none   -- a Create that looks like a round without jitter; judged when the clock moves on
                                                  -- (the notification that caused it may be logged after it, at the same instant)
  deriving Repr, Inhabited

structure State where
  lat : Option Nat := none                      -- promised latency bound (none: the acceptor is off)
  key : String := ""
  keyVacant : Bool := true
  insts : List CInst := []
  ops : List (Nat × Nat × OpKind) := []        -- pending operations on the key: (op, instance, kind)
  starts : List (Nat × Nat) := []              -- Start calls in progress: (call, instance)
  ended : Bool := false
  deriving Repr, Inhabited

abbrev R := Except String
def reject {α} (msg : String) : R α := .error msg

def State.get (s : State) (i : Nat) : Option CInst := s.insts.find? (·.cfg.id = i)
def State.set (s : State) (x : CInst) : State := { s with insts := s.insts.map fun y => if y.cfg.id = x.cfg.id then x else y }

/-- Why the clock cannot reach `t`. -/
def overdue (p : Vac.Par) (v : Vac.St) (t : Nat) : String :=
  if t > Vac.chkDue p v then
    match v.chk with
    | .idle => s!"no periodic check since {v.lastCheck}: overdue at {Vac.chkDue p v}"
    | .flying c => s!"periodic check issued at {c} not answered within the promised latency"
    | .seen c _ => s!"periodic check issued at {c} not answered within the promised latency"
  else match v.owed.find? (fun r => decide (t > r + p.J + p.B)) with
    | some r => s!"a periodic check found no record at {r} but no Create followed within the maximum jitter (+ one running attempt)"
    | none => match v.crts.find? (fun c => decide (t > c + p.L)) with
      | some c => s!"Create issued at {c} not applied within the promised latency"
      | none => s!"time goes backwards"

/-- Apply a `Vac` action to an instance's vacancy model, if it has one.  A structurally unexpected action (not a
    missed deadline) ends the tracking of that candidate instead of rejecting. -/
def act (L : Nat) (x : CInst) (a : Vac.Act) : CInst :=
  match x.vac with
  | none => x
  | some v => match Vac.step (Vac.Par.ofLat L x.cfg.takeover) v a with
    | some v' => { x with vac := some v' }
    | none => { x with vac := none }

def advanceAll (L : Nat) (s : State) (t : Nat) : R State := do
  let insts ← s.insts.mapM fun (x : CInst) =>
    match x.vac with
    | none => pure x
    | some v =>
      let p := Vac.Par.ofLat L x.cfg.takeover
      match Vac.step p v (.advance t) with
      | some v' => pure { x with vac := some v' }
      | none => reject s!"instance {x.cfg.id} (healthy follower): {overdue p v t} (now {t})"
  pure { s with insts := insts }

def broadcast (p : Nat) (s : State) (a : Vac.Act) : State :=
  { s with insts := s.insts.map fun x => act p x a }

/-- (Re)start the tracking of a candidate that is now a healthy follower. -/
def follow (s : State) (x : CInst) (t : Nat) : CInst :=
  if x.running ∧ ¬ x.flag ∧ ¬ x.cut ∧ x.vac.isNone then { x with vac := some (Vac.init t s.keyVacant), chkOp := none, crtOps := [] } else x

def isMiss : Ret → Bool
  | .err _ => true
  | .ok _ none => true
  | .ok _ (some v) => match v with | .empty .. => true | _ => false

def step (s : State) (te : TEv) : R State :=
  if s.ended then pure s else
  match te.ev with
  | .end_ => pure { s with ended := true }
  | .inst c => pure { s with insts := s.insts ++ [{ cfg := c }], key := if s.key = "" then c.key else s.key }
  | .hyp _ _ _ _ _ maxLat faultsEnd =>
    pure { s with lat := if maxLat > 0 ∧ faultsEnd = 0 then some maxLat else none }
  | ev =>
    match s.lat with
    | none => pure s
    | some p => do
    let t := te.t
    let s ← advanceAll p s t
    match s.insts.find? (fun x => match x.jitterSuspect with | some (d, _) => decide (d < t) | none => false) with
    | some x => reject ((x.jitterSuspect.map (·.2)).getD "")
    | none =>
    match s.insts.find? (fun x => match x.startDue with | some d => decide (d < t) && x.cfg.key == s.key | none => false) with
    | some x => reject s!"instance {x.cfg.id} was started but by {repr x.startDue} (now {t}) it neither leads nor follows: its first acquisition attempt left it a candidate without a watch loop"
    | none =>
    match ev with
    | .api n i .start => pure { s with starts := (n, i) :: s.starts }
    | .apiRet n i r =>
      if s.starts.any (· == (n, i)) then
        let s := { s with starts := s.starts.filter (· != (n, i)) }
        match s.get i, r with
        -- (the first attempt is a Create, for a takeover-enabled instance possibly followed by a Get and an Update; whatever
        --  its outcome the instance then leads or follows - a candidate that does neither has no watch loop and never checks)
        -- (an attempt of the run that has just ended may still be in flight - a restart by way of the context - and the new
        --  run's attempt waits for it: up to three more operations)
        | some x, .ok =>
          let inFlight := s.ops.any fun o => o.2.1 == i
          pure (s.set { x with running := true, flag := false, vac := none, chkOp := none, crtOps := [], startDue := some (t + (if inFlight then 7 else 4) * p + 2000000) })
        | _, _ => pure s
      else pure s
    | .api _ i .stop | .api _ i (.stopctx _ _ _ _) | .cancelCtx i =>
      match s.get i with
      | some x => pure (s.set { x with running := false, vac := none, startDue := none })
      | none => pure s
    | .crash i | .partition i _ =>
      match s.get i with
      | some x => pure (s.set { x with cut := true, vac := none, startDue := none })
      | none => pure s
    | .flag i _ il _ _ =>
      match s.get i with
      | none => pure s
      | some x =>
        if x.cfg.key ≠ s.key then pure s
        else if il then pure (s.set { x with flag := true, vac := none, startDue := none })
        else pure (s.set (follow s { x with flag := false, startDue := none } t))
    | .call op i kind key _ _ =>
      if key ≠ s.key then pure s else
      let s := { s with ops := (op, i, kind) :: s.ops }
      match kind, s.get i with
      | .create, some x =>
        -- C17: every acquisition round waits its jitter (at least the regenerated minimum) before its first attempt.  A
        -- Create that is the first for a while (no round of this instance can still be running), issued by a tracked
        -- follower sooner than that after the periodic check that found the key vacant, with no watch notification in the
        -- jitter window that could have started a round of its own, is a round that did not wait.
        let roundSpan := 2000000000
        let noJitter := x.vac.isSome && !x.flag &&
          (match x.lastMiss, x.trigs with
           | some r, [t1] => r == t1 && decide (t < r + Gen.jitterMin)
           | some r, t1 :: t0 :: _ => r == t1 && decide (t < r + Gen.jitterMin) && decide (t0 + Gen.jitterMax + p < t)
           | _, _ => false) &&
          (!x.everCreated || decide (x.lastCreate + roundSpan < t))
        let x := if noJitter then { x with jitterSuspect := some (t, s!"instance {i}: Create at {t}, {repr (x.lastMiss.map fun r => t - r)} ns after the periodic check that found the key vacant: the round did not wait its jitter (at least {Gen.jitterMin} ns)") } else x
        pure (s.set { (act p x .createCall) with crtOps := (op, t) :: x.crtOps, lastCreate := t, everCreated := true, lastMiss := none })
      | _, _ => pure s
    | .site op fn =>
      if fn ≠ "checkKeyAndReelect" then pure s else
      match s.ops.find? (·.1 = op) with
      | some (_, i, .get) =>
        match s.get i with
        | some x => pure (s.set { (act p x .checkCall) with chkOp := some op })
        | none => pure s
      | _ => pure s
    | .apply op a =>
      match s.ops.find? (·.1 = op) with
      | none => pure s
      | some (_, i, kind) =>
        -- the candidate's own view first
        let s := match s.get i with
          | some x =>
            if x.chkOp = some op then
              (match a with
               | .ok _ | .fail _ => s.set (act p x .checkApply)
               | _ => s.set { x with vac := none })
            else match x.crtOps.find? (·.1 = op) with
              | some (_, c) =>
                (match a with
                 | .ok _ | .fail _ => s.set { (act p x (.createApply c)) with crtOps := x.crtOps.filter (·.1 ≠ op) }
                 | _ => s.set { x with vac := none })
              | none => s
          | none => s
        -- then what the mutation means for everybody
        match kind, a with
        | .create, .ok _ | .update, .ok _ => pure (broadcast p { s with keyVacant := false } .fill)
        | .delete, .ok _ => pure (broadcast p { s with keyVacant := true } .vacate)
        | _, _ => pure s
    | .ret op r =>
      match s.ops.find? (·.1 = op) with
      | none => pure s
      | some (_, i, _) =>
        let s := { s with ops := s.ops.filter (·.1 ≠ op) }
        match s.get i with
        | some x =>
          if x.chkOp = some op then
            match x.vac with
            | some v =>
              (match Vac.step (Vac.Par.ofLat p x.cfg.takeover) v (.checkRet (isMiss r)) with
               | some v' => pure (s.set { x with vac := some v', chkOp := none, trigs := (t :: x.trigs).take 2, lastMiss := if isMiss r then some t else x.lastMiss })
               | none =>
                 match v.chk with
                 | .seen _ true => reject s!"instance {i}: a periodic check applied on the vacant key returned a record"
                 | _ => pure (s.set { x with vac := none, chkOp := none }))
            | none => pure (s.set { x with chkOp := none })
          else pure s
        | none => pure s
    | .wev _ i _ _ =>
      match s.get i with
      | some x =>
        -- (a notification taken from the channel at the very instant of that Create: its handler's own attempt)
        let js := match x.jitterSuspect with | some (d, m) => if d = t then none else some (d, m) | none => none
        pure (s.set { x with trigs := (t :: x.trigs).take 2, jitterSuspect := js })
      | none => pure s
    | .expire key _ => if key = s.key then pure (broadcast p { s with keyVacant := true } .vacate) else pure s
    | .extDelete key _ => if key = s.key then pure (broadcast p { s with keyVacant := true } .vacate) else pure s
    | .extPut key _ _ => if key = s.key then pure (broadcast p { s with keyVacant := false } .fill) else pure s
    | _ => pure s

def run (s : State) : List TEv → R State
  | [] => pure s
  | e :: es => do
    let s' ← step s e
    run s' es

end NLE.Cand

/-
  `PromptAcc`: ties the watcher assumption of the `Prompt` model (C10 promptness) to implementation traces.  For every
  takeover-enabled follower it tracks the owner id the follower has already observed (watch notifications, reads), and
  requires: a notification that names an already known owner of strictly lower priority is followed by an acquisition
  attempt (a Create call) of the follower — at once, or as soon as a running attempt of the same instance has finished
  (≤ 3L).  Runs on scenarios that promise a responsive store, no outside writer and latencies up to a tenth of the
  heartbeat interval.
-/
namespace NLE.PromptAcc

structure PInst where
  cfg : InstCfg
  running : Bool := false
  flag : Bool := false
  cut : Bool := false
  known : Option Nat := none
  owed : Option Nat := none          -- a Create call is due by then
  deriving Repr, Inhabited

structure State where
  lat : Option Nat := none
  insts : List PInst := []
  ops : List (Nat × Nat × OpKind × Bool) := []   -- (op, instance, kind, issued by the periodic check)
  starts : List (Nat × Nat) := []
  ended : Bool := false
  deriving Repr, Inhabited

abbrev R := Except String
def reject {α} (msg : String) : R α := .error msg

def State.get (s : State) (i : Nat) : Option PInst := s.insts.find? (·.cfg.id = i)
def State.set (s : State) (x : PInst) : State := { s with insts := s.insts.map fun y => if y.cfg.id = x.cfg.id then x else y }

def step (s : State) (te : TEv) : R State :=
  if s.ended then pure s else
  match te.ev with
  | .end_ => pure { s with ended := true }
  | .inst c => pure { s with insts := s.insts ++ [{ cfg := c }] }
  | .hyp resp noOut _ _ _ maxLat faultsEnd =>
    pure { s with lat := if resp ∧ noOut ∧ maxLat > 0 ∧ faultsEnd = 0 then some maxLat else none }
  | ev =>
    match s.lat with
    | none => pure s
    | some L => do
    let t := te.t
    -- deadlines first
    match s.insts.find? (fun x => match x.owed with | some d => decide (d < t) | none => false) with
    | some x => reject s!"instance {x.cfg.id} (priority {x.cfg.prio}, takeover enabled): a notification named the known lower-priority owner, but no acquisition attempt followed by {repr x.owed} (now {t})"
    | none =>
    match ev with
    | .api n i .start => pure { s with starts := (n, i) :: s.starts }
    | .apiRet n i r =>
      if s.starts.any (· == (n, i)) then
        let s := { s with starts := s.starts.filter (· != (n, i)) }
        match s.get i, r with
        | some x, .ok => pure (s.set { x with running := true, flag := false, known := none, owed := none })
        | _, _ => pure s
      else pure s
    | .api _ i .stop | .api _ i (.stopctx _ _ _ _) | .cancelCtx i =>
      match s.get i with
      | some x => pure (s.set { x with running := false, owed := none })
      | none => pure s
    | .crash i | .partition i _ =>
      match s.get i with
      | some x => pure (s.set { x with cut := true, owed := none })
      | none => pure s
    | .flag i _ il _ _ =>
      match s.get i with
      | some x => pure (s.set { x with flag := il, owed := none, known := if il then some i else x.known })
      | none => pure s
    | .site op fn =>
      pure { s with ops := s.ops.map fun o => if o.1 = op then (o.1, o.2.1, o.2.2.1, decide (fn = "checkKeyAndReelect")) else o }
    | .call op i kind _ _ _ =>
      let s := { s with ops := (op, i, kind, false) :: s.ops }
      match kind, s.get i with
      | .create, some x => pure (s.set { x with owed := none })
      | _, _ => pure s
    | .ret op r =>
      match s.ops.find? (·.1 = op) with
      | none => pure s
      | some (_, i, kind, isCheck) =>
        let s := { s with ops := s.ops.filter (·.1 ≠ op) }
        -- only the periodic check records what it read (`observeLeader`); the takeover path's read does not
        match kind, isCheck, r, s.get i with
        | .get, true, .ok _ (some (.own o _ _)), some x => pure (s.set { x with known := if x.flag then x.known else some o })
        | _, _, _, _ => pure s
    | .wev _ i _ v =>
      match s.get i, v with
      | some x, some (.own o _ prio) =>
        if x.flag ∨ ¬ x.running ∨ x.cut then pure s
        else
          let eligible := x.cfg.takeover && decide (x.cfg.prio > prio) && o != i && decide (10 * L ≤ x.cfg.hb)
          if x.known = some o ∧ eligible then
            pure (s.set { x with owed := match x.owed with | some d => some d | none => some (t + 3 * L) })
          else if eligible then pure (s.set { x with known := some o })
          else pure (s.set { x with known := some o, owed := none })   -- the record has changed hands: nobody to preempt
      | _, _ => pure s
    | _ => pure s

def run (s : State) : List TEv → R State
  | [] => pure s
  | e :: es => do
    let s' ← step s e
    run s' es

end NLE.PromptAcc
