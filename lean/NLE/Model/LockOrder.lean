/-
  `LockOrder`: why a ranked acquisition order excludes deadlock among mutexes.

  A snapshot of the goroutines of a process: which mutexes each one holds and which one (if any) it is blocked on.
  Goroutine `a` waits for goroutine `b` when the mutex `a` is blocked on is held by `b` (for a reader/writer mutex
  this over-approximates: two readers do not block each other).  A deadlock among mutexes is a cycle of this
  relation.  If every goroutine only ever requests a mutex ranked strictly above all the mutexes it holds, there is no
  cycle — in particular no goroutine re-acquires a mutex it holds.

  The tie to the code is the regenerated table `Gen.lockOrder` (every acquisition reached while a mutex may be held,
  over all paths and call sites) and the theorems of `Theorems/C11.lean` that rank it.
-/
namespace NLE.LockOrder

structure Snap where
  holds : Nat → List Nat          -- goroutine ↦ mutexes it holds
  wants : Nat → Option Nat        -- goroutine ↦ the mutex it is blocked on

def waitsFor (s : Snap) (a b : Nat) : Prop := ∃ m, s.wants a = some m ∧ m ∈ s.holds b

/-- The discipline: a request is ranked strictly above everything the requester holds. -/
def Ranked (rank : Nat → Nat) (s : Snap) : Prop :=
  ∀ g m, s.wants g = some m → ∀ h, h ∈ s.holds g → rank h < rank m

/-- A non-empty chain of waits `a → … → c`. -/
inductive Chain (s : Snap) : Nat → Nat → Prop
  | one {a b : Nat} : waitsFor s a b → Chain s a b
  | cons {a b c : Nat} : waitsFor s a b → Chain s b c → Chain s a c

theorem chain_head_waits {s : Snap} {a c : Nat} (h : Chain s a c) : ∃ m, s.wants a = some m := by
  cases h with
  | one w => obtain ⟨m, hm, _⟩ := w; exact ⟨m, hm⟩
  | cons w _ => obtain ⟨m, hm, _⟩ := w; exact ⟨m, hm⟩

/-- Along a chain of waits the rank of the requested mutex strictly increases. -/
theorem chain_rank_increases {rank : Nat → Nat} {s : Snap} (hr : Ranked rank s) {a c : Nat} (h : Chain s a c) :
    ∀ ma mc, s.wants a = some ma → s.wants c = some mc → rank ma < rank mc := by
  induction h with
  | one w =>
    intro ma mc ha hc
    obtain ⟨m, hm, hh⟩ := w
    rw [ha] at hm; cases hm
    exact hr _ _ hc _ hh
  | cons w rest ih =>
    intro ma mc ha hc
    obtain ⟨m, hm, hh⟩ := w
    rw [ha] at hm; cases hm
    obtain ⟨mb, hb⟩ := chain_head_waits rest
    have h1 : rank ma < rank mb := hr _ _ hb _ hh
    have h2 := ih mb mc hb hc
    omega

/-- No deadlock: under the discipline no goroutine waits, directly or through others, for itself. -/
theorem no_deadlock {rank : Nat → Nat} {s : Snap} (hr : Ranked rank s) : ¬ ∃ g, Chain s g g := by
  rintro ⟨g, h⟩
  obtain ⟨m, hm⟩ := chain_head_waits h
  have := chain_rank_increases hr h m m hm hm
  omega

/-- Non-vacuity: two goroutines taking two mutexes in opposite orders do deadlock (and are not ranked by anything). -/
def inverted : Snap := { holds := fun g => if g = 0 then [0] else if g = 1 then [1] else [],
                         wants := fun g => if g = 0 then some 1 else if g = 1 then some 0 else none }

example : Chain inverted 0 0 :=
  .cons (b := 1) ⟨1, by simp [inverted], by simp [inverted]⟩ (.one ⟨0, by simp [inverted], by simp [inverted]⟩)

example (rank : Nat → Nat) : ¬ Ranked rank inverted := by
  intro h
  have h0 := h 0 1 (by simp [inverted]) 0 (by simp [inverted])
  have h1 := h 1 0 (by simp [inverted]) 1 (by simp [inverted])
  omega

/-- … and the same two goroutines taking them in one order are ranked. -/
def ordered : Snap := { holds := fun g => if g = 0 then [0] else if g = 1 then [0, 1] else [],
                        wants := fun g => if g = 0 then some 1 else none }

example : Ranked id ordered := by
  intro g m hw h hh
  by_cases h0 : g = 0
  · subst h0; simp [ordered] at hw hh; subst hw; subst hh; decide
  · by_cases h1 : g = 1 <;> simp [ordered, h0, h1] at hw

end NLE.LockOrder
