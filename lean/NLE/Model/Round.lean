import NLE.Model.Backoff
import NLE.Gen.Consts
/-
  Model of one acquisition round (`attemptAcquireWithRetry`, leader/kv_election.go): a jitter
  drawn from [jitterMin, jitterMax), then up to `maxRetries + 1` attempts separated by
  `CalculateBackoff(DefaultBackoffConfig(), retry)`; after the last failed attempt the round
  falls back to follower.  All constants come from `NLE/Gen/Consts.lean` (regenerated).
-/
namespace NLE.Round
open NLE.Backoff

def defaultCfg : BackoffCfg :=
  { init := Gen.defaultInitialBackoff, max := Gen.defaultMaxBackoff,
    mult := Gen.defaultMultiplier, jitter := Gen.defaultJitter }

/-- `jitterMin + time.Duration(rand.Float64() * float64(jitterMax - jitterMin))` for a draw `r0`. -/
def jitterOf (r0 : Rat) : Int :=
  (Gen.jitterMin : Int) + (r0 * (((Gen.jitterMax : Int) - (Gen.jitterMin : Int) : Int) : Rat)).floor

structure RoundRun where
  attempts : List Int       -- instants (relative to the round's spawn) at which an attempt starts
  exhausted : Bool          -- all attempts failed: the round calls becomeFollower
  deriving Repr, DecidableEq

/-- `outcomes`: result of each attempt (`true` = acquired); `draws`: the `rand.Float64()` values used
    by `CalculateBackoff` after each failed attempt.  `k` = loop counter `retry`, `t` = current time. -/
def runFrom : (outcomes : List Bool) → (draws : List Rat) → (k : Nat) → (t : Int) → RoundRun
  | [], _, _, _ => ⟨[], false⟩
  | ok :: rest, draws, k, t =>
    if ok then ⟨[t], false⟩
    else if k ≥ Gen.maxRetries then ⟨[t], true⟩
    else
      let d := backoff defaultCfg k (draws.headD 0)
      let r := runFrom rest draws.tail (k + 1) (t + d)
      ⟨t :: r.attempts, r.exhausted⟩

/-- A whole round spawned at relative time 0. -/
def run (r0 : Rat) (outcomes : List Bool) (draws : List Rat) : RoundRun :=
  runFrom outcomes draws 0 (jitterOf r0)

end NLE.Round
