import NLE.Model.Trace
import NLE.Model.Validate
import NLE.Model.Conn
/-
  `ValAcc`: acceptor for `ValidateToken` / `ValidateTokenOrDemote` calls (property C04).  Each call is
  followed step by step: the leadership flag and the token at the call, the read it issues, the instant
  the answer arrives relative to the caller's deadline; the verdict the API returns must be the verdict of
  `Validate.validateOrDemote` (whose properties are `NLE/Theorems/C04.lean`).
-/
namespace NLE.ValAcc

structure Call where
  n : Nat
  inst : Nat
  orDemote : Bool
  t : Nat
  deadline : Option Nat
  leader : Bool               -- IsLeader() at the call
  tok : Nat                   -- Token() at the call
  op : Option Nat := none     -- the read issued by the call
  answer : Option (Ret × Nat) := none
  deriving Repr, Inhabited

structure Inst where
  id : Nat
  flag : Bool := false
  tok : Nat := 0
  deriving Repr, Inhabited

structure State where
  insts : List Inst := []
  calls : List Call := []
  ended : Bool := false
  deriving Repr, Inhabited

abbrev R := Except String
def reject {α} (msg : String) : R α := .error msg

def getRes : Ret → Validate.GetRes
  | .ok _ (some v) => .entry (Conn.mapViewOf v)
  | .ok _ none => .nilEntry
  | .err _ => .err

/-- The verdicts the model allows for a finished call (two when the answer and the deadline coincide). -/
def allowed (c : Call) (retT : Nat) : List Bool :=
  if ¬ c.leader then [false] else
  match c.answer with
  | none =>
    -- no answer was used: only a call whose deadline passed (or whose token was empty) can return
    [false]
  | some (r, at_) =>
    let mk (ctxWins : Bool) : Bool :=
      Validate.validateToken { localTok := c.tok, me := c.inst, ctxDoneAtEntry := false, ctxWins := ctxWins, get := getRes r }
    match c.deadline with
    | none => [mk false]
    | some d => if at_ < d then [mk false] else if at_ = d then [mk false, false] else [false]

def step (s : State) (te : TEv) : R State :=
  if s.ended then pure s else
  let t := te.t
  match te.ev with
  | .end_ => pure { s with ended := true }
  | .inst c => pure { s with insts := s.insts ++ [{ id := c.id }] }
  | .flag i _ il tok _ =>
    pure { s with insts := s.insts.map fun x => if x.id = i then { x with flag := il, tok := if il then tok else x.tok } else x }
  | .api n i (.validate cto) | .api n i (.validateOrDemote cto) =>
    match s.insts.find? (·.id = i) with
    | none => pure s
    | some x =>
      let od := match te.ev with | .api _ _ (.validateOrDemote _) => true | _ => false
      pure { s with calls := { n := n, inst := i, orDemote := od, t := t, deadline := if cto = 0 then none else some (t + cto),
                               leader := x.flag, tok := x.tok } :: s.calls }
  | .call op i .get _ _ _ =>
    -- the first read issued by the instance at the instant of a leader's validate call belongs to that call
    match s.calls.find? (fun c => c.inst == i && c.t == t && c.leader && c.op.isNone && c.tok != 0) with
    | some c => pure { s with calls := s.calls.map fun c' => if c'.n = c.n then { c' with op := some op } else c' }
    | none => pure s
  | .ret op r =>
    pure { s with calls := s.calls.map fun c => if c.op = some op ∧ c.answer.isNone then { c with answer := some (r, t) } else c }
  | .apiRet n i (.verdict v tokSeen _) =>
    match s.calls.find? (·.n = n) with
    | none => pure s
    | some c =>
      let s' := { s with calls := s.calls.filter (·.n ≠ n) }
      if tokSeen ≠ c.tok ∧ c.leader then reject s!"instance {i}: the call read token {tokSeen}, the model's term token is {c.tok}"
      else if (allowed c t).contains v then pure s'
      else reject s!"instance {i}: Validate returned {v}; the model allows {allowed c t} (leader at call: {c.leader}, token {c.tok}, answer {repr c.answer}, deadline {repr c.deadline})"
  | _ => pure s

def run (s : State) : List TEv → R State
  | [] => pure s
  | e :: es => do
    let s' ← step s e
    run s' es

end NLE.ValAcc
