import NLE.Model.Trace
import NLE.Model.Classify
import NLE.Gen.Consts
import NLE.Gen.Patterns
/-
  `HB`: the heartbeat loop of one leadership term (leader/heartbeat.go) — health checks, refresh
  attempts, failure counting, time-outs — as a deterministic machine, and its acceptor over traces
  (properties C03 and C12).

  All numbers come from `NLE/Gen/Consts.lean` (regenerated from the source on every run): the
  transient-failure limit, the default health threshold, the health-check deadline, the update time-out
  rule.  Errors are classified by the regenerated `IsPermanentError` steps.
-/
namespace NLE.HB

/-- `maxHealthFailures`: the configured threshold, or the default when it is not positive. -/
def healthThreshold (maxFail : Nat) : Nat := if maxFail = 0 then Gen.healthDefaultThreshold else maxFail

/-- `updateTimeout := HeartbeatInterval / div`, but at least the floor. -/
def updateTimeout (hb : Nat) : Nat := max (hb / Gen.hbTimeoutDiv) Gen.hbTimeoutFloor

/-! ### Decision logic -/

/-- One health check: new count of consecutive unhealthy results, and whether the loop demotes. -/
def onHealth (m run : Nat) (healthy : Bool) : Nat × Bool :=
  if healthy then (0, false)
  else (run + 1, decide (run + 1 ≥ m))

/-- The index of the tick at which the health mechanism demotes, for a sequence of results of one term. -/
def healthDemoteAt (m : Nat) : (run : Nat) → (idx : Nat) → List Bool → Option Nat
  | _, _, [] => none
  | run, idx, r :: rs =>
    let (run', d) := onHealth m run r
    if d then some idx else healthDemoteAt m run' (idx + 1) rs

inductive Outcome | ok | permanent | transient
  deriving DecidableEq, Repr

/-- One refresh attempt: new count of consecutive failures, and whether the loop demotes. -/
def onOutcome (fails : Nat) (o : Outcome) : Nat × Bool :=
  match o with
  | .ok => (0, false)
  | .permanent => (fails, true)
  | .transient => (fails + 1, decide (fails + 1 ≥ Gen.hbMaxFailures))

/-- The index of the attempt at whose completion the loop demotes. -/
def refreshDemoteAt : (fails : Nat) → (idx : Nat) → List Outcome → Option Nat
  | _, _, [] => none
  | fails, idx, o :: os =>
    let (f', d) := onOutcome fails o
    if d then some idx else refreshDemoteAt f' (idx + 1) os

/-- How the loop sees an answer of the store: the error kinds of the harness are the NATS client's errors. -/
def errOf : ErrKind → Classify.Err
  | .wrongseq => .api 10071 "wrong last sequence: 0".toList
  | .exists_ => .wrap [] ": key exists".toList (.api 10071 "wrong last sequence: 0".toList)
  | .notfound => .leaf "nats: key not found".toList ["nats.ErrKeyNotFound"]
  | .timeout => .leaf "nats: timeout".toList ["nats.ErrTimeout"]
  | .noresponders => .leaf "nats: no responders available for request".toList ["nats.ErrNoResponders"]
  | .closed => .leaf "nats: connection closed".toList ["nats.ErrConnectionClosed"]
  | .other => .leaf "nats: other".toList []

def isPermanent (e : Classify.Err) : Bool := Classify.classify (fun _ => false) Gen.permanentSteps (some e)

def outcomeOf : Ret → Outcome
  | .ok _ _ => .ok
  | .err k => if isPermanent (errOf k) then .permanent else .transient

/-! ### Acceptor -/

structure Term where
  tok : Nat
  since : Nat
  run : Nat := 0                         -- consecutive unhealthy checks of this term
  fails : Nat := 0                       -- consecutive failed refresh attempts
  pending : Option (Nat × Nat) := none   -- (op, start) of the attempt in flight
  lastStart : Nat := 0                   -- start of the previous attempt (or of the term)
  lastFinish : Nat := 0
  attempts : Nat := 0                    -- refresh attempts of this term so far
  mustDemote : Option Nat := none        -- the loop has decided to demote at that instant
  lastHealth : Option (Nat × Bool) := none -- instant and result of the latest health check of the term
  deriving Repr, Inhabited

structure Inst where
  cfg : InstCfg
  term : Option Term := none
  halted : Bool := false                 -- a stop call has begun or the run's context was cancelled (until the next term)
  otherCause : Option Nat := none        -- instant of the latest event that can end a term from outside the loop (watch event, read, notification)
  deriving Repr, Inhabited

structure State where
  insts : List Inst := []
  ops : List (Nat × Nat) := []           -- heartbeat ops: (op id, instance)
  reads : List (Nat × Nat) := []         -- reads in flight: (op id, instance)
  ended : Bool := false
  deriving Repr, Inhabited

def State.get (s : State) (i : Nat) : Option Inst := s.insts.find? (·.cfg.id = i)
def State.set (s : State) (x : Inst) : State := { s with insts := s.insts.map fun y => if y.cfg.id = x.cfg.id then x else y }

abbrev R := Except String
def reject {α} (msg : String) : R α := .error msg

/-- A pending attempt that has not been answered within the time-out counts as a transient failure at that instant. -/
def expire (c : InstCfg) (tm : Term) (now : Nat) : Term :=
  match tm.pending with
  | some (_, start) =>
    if start + updateTimeout c.hb ≤ now then
      let (f, d) := onOutcome tm.fails .transient
      { tm with pending := none, fails := f, lastFinish := start + updateTimeout c.hb,
                mustDemote := if d then (match tm.mustDemote with | some t => some t | none => some (start + updateTimeout c.hb)) else tm.mustDemote }
    else tm
  | none => tm

/-- The latest instant at which the loop issues its next refresh attempt: the tick after the previous attempt began, or
    the end of that attempt if it took longer, plus the health check that precedes the refresh. -/
def nextAttemptBy (c : InstCfg) (tm : Term) : Nat :=
  max tm.lastFinish (tm.lastStart + c.hb) + (if c.hasHealth then Gen.healthTimeout else 0)

def step (s : State) (te : TEv) : R State :=
  if s.ended then pure s else
  let t := te.t
  -- deadlines first: a decision to demote must show as a cleared flag at that very instant
  let late := s.insts.find? fun x => match x.term with
    | some tm => (match (expire x.cfg tm t).mustDemote with | some d => decide (d < t) | none => false)
    | none => false
  match late with
  | some x => reject s!"instance {x.cfg.id}: the heartbeat loop demotes at {repr ((x.term.map fun tm => (expire x.cfg tm t).mustDemote))} but the flag is still raised at {t}"
  | none =>
  -- … and so must the loop's pace: while the term lasts, with no attempt in flight and no decision to demote, the next
  -- attempt is issued within a tick of the previous one (or at once when that one took longer than a tick)
  let idle := s.insts.find? fun x => match x.term with
    | some tm =>
      let tm := expire x.cfg tm t
      !x.halted && tm.pending.isNone && tm.mustDemote.isNone &&
        decide (t > nextAttemptBy x.cfg tm)
    | none => false
  match idle with
  | some x => reject s!"instance {x.cfg.id}: no refresh attempt since {repr (x.term.map (·.lastStart))} (previous one finished at {repr (x.term.map fun tm => (expire x.cfg tm t).lastFinish)}): the next one was due by {repr (x.term.map fun tm => nextAttemptBy x.cfg (expire x.cfg tm t))}, now {t}"
  | none =>
  match te.ev with
  | .end_ => pure { s with ended := true }
  | .inst c => pure { s with insts := s.insts ++ [{ cfg := c }] }
  | .flag i _ il tok _ =>
    match s.get i with
    | none => pure s
    | some x =>
      if il then
        match x.term with
        | some tm => if tm.tok = tok then pure s else pure (s.set { x with halted := false, term := some { tok := tok, since := t, lastStart := t, lastFinish := t } })
        | none => pure (s.set { x with halted := false, term := some { tok := tok, since := t, lastStart := t, lastFinish := t } })
      else
        -- the flag is lowered at the very instant of an unhealthy check, with the count below the threshold, no failed refresh
        -- decided or in flight, no stop call, and nothing else at this instant that could have ended the term: the loop
        -- demoted on too few unhealthy results
        match x.term with
        | some tm =>
          let tm := expire x.cfg tm t
          if tm.lastHealth = some (t, false) ∧ tm.mustDemote.isNone ∧ tm.pending.isNone ∧ ¬ x.halted ∧ x.otherCause ≠ some t ∧
             tm.run < healthThreshold x.cfg.maxFail then
            reject s!"instance {i}: demoted at an unhealthy check with {tm.run} consecutive unhealthy results, threshold {healthThreshold x.cfg.maxFail}"
          else pure (s.set { x with term := none })
        | none => pure (s.set { x with term := none })
  | .api _ i .stop | .api _ i (.stopctx _ _ _ _) | .cancelCtx i =>
    match s.get i with
    | some x => pure (s.set { x with halted := true })
    | none => pure s
  | .wev _ i _ _ | .conn i _ =>
    match s.get i with
    | some x => pure (s.set { x with otherCause := some t })
    | none => pure s
  | .health i _ res rem =>
    match s.get i with
    | none => pure s
    | some x =>
      if rem > (Gen.healthTimeout : Int) ∨ rem < 0 then reject s!"instance {i}: health check context expires in {rem} ns"
      else match x.term with
        | none => pure s      -- the term ended while the check was running: its result is ignored
        | some tm =>
          let tm := expire x.cfg tm t
          if tm.mustDemote.isSome then reject s!"instance {i}: health check after the loop decided to demote"
          else
            let (run, d) := onHealth (healthThreshold x.cfg.maxFail) tm.run res
            pure (s.set { x with term := some { tm with run := run, mustDemote := if d then some t else none, lastHealth := some (t, res) } })
  | .call op i .update _ _ (.own id tok _) =>
    match s.get i with
    | none => pure s
    | some x =>
      match x.term with
      | none => pure s                       -- not a heartbeat (takeover by a follower)
      | some tm =>
        if id ≠ i ∨ tok ≠ tm.tok then pure s
        else
          let tm := expire x.cfg tm t
          if tm.mustDemote.isSome then reject s!"instance {i}: refresh attempt after the loop decided to demote"
          else if tm.pending.isSome then reject s!"instance {i}: refresh attempt while the previous one is neither answered nor timed out"
          else if t > nextAttemptBy x.cfg tm then
            reject s!"instance {i}: refresh attempt at {t}, later than a tick after the previous attempt (start {tm.lastStart}, finish {tm.lastFinish})"
          else if t < tm.since + (tm.attempts + 1) * x.cfg.hb then
            -- the loop is paced by a ticker of period H created when the term began: the k-th attempt cannot precede the k-th tick
            reject s!"instance {i}: refresh attempt number {tm.attempts + 1} of the term at {t}, before the tick at {tm.since + (tm.attempts + 1) * x.cfg.hb}"
          else pure { (s.set { x with term := some { tm with pending := some (op, t), lastStart := t, attempts := tm.attempts + 1 } }) with ops := (op, i) :: s.ops }
  | .call op i .get _ _ _ => pure { s with reads := (op, i) :: s.reads }
  | .ret op r =>
    match s.ops.find? (·.1 = op) with
    | none =>
      -- the answer to a read (validation, reconnect verification) can end the term at this instant
      match s.reads.find? (·.1 = op) with
      | some (_, i) =>
        let s := { s with reads := s.reads.filter (·.1 ≠ op) }
        match s.get i with
        | some x => pure (s.set { x with otherCause := some t })
        | none => pure s
      | none => pure s
    | some (_, i) =>
      let s := { s with ops := s.ops.filter (·.1 ≠ op) }
      match s.get i with
      | none => pure s
      | some x =>
        match x.term with
        | none => pure s
        | some tm =>
          let tm := expire x.cfg tm t
          match tm.pending with
          | some (pop, _) =>
            if pop ≠ op then pure (s.set { x with term := some tm })   -- an answer that arrives after its time-out is discarded
            else
              let (f, d) := onOutcome tm.fails (outcomeOf r)
              pure (s.set { x with term := some { tm with pending := none, fails := f, lastFinish := t,
                                                          mustDemote := if d then some t else tm.mustDemote } })
          | none => pure (s.set { x with term := some tm })
  | _ => pure s

def run (s : State) : List TEv → R State
  | [] => pure s
  | e :: es => do
    let s' ← step s e
    run s' es

end NLE.HB
