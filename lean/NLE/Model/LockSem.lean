/-
  `LockSem`: a reader/writer mutex as a state machine over the events of several goroutines, and the lemma the
  lock discipline of C20 rests on — two accesses by different goroutines that both hold the mutex, at least one of them
  exclusively, are separated by a release of the first goroutine followed by an acquisition of the second (the
  synchronisation edge of the Go memory model for sync.Mutex / sync.RWMutex).
-/
namespace NLE.LockSem

inductive Ev
  | acqW (g : Nat) | relW (g : Nat) | acqR (g : Nat) | relR (g : Nat)
  | acc (g : Nat) (write : Bool)
  deriving Repr, DecidableEq

structure LS where
  writer : Option Nat := none
  readers : List Nat := []
  deriving Repr, DecidableEq

def step (s : LS) : Ev → Option LS
  | .acqW g => if s.writer = none ∧ s.readers = [] then some { s with writer := some g } else none
  | .relW g => if s.writer = some g then some { s with writer := none } else none
  | .acqR g => if s.writer = none then some { s with readers := g :: s.readers } else none
  | .relR g => if g ∈ s.readers then some { s with readers := s.readers.erase g } else none
  | .acc _ _ => some s

def run (s : LS) : List Ev → Option LS
  | [] => some s
  | e :: es => match step s e with
    | some s' => run s' es
    | none => none

def holdsW (s : LS) (g : Nat) : Prop := s.writer = some g
def holds (s : LS) (g : Nat) : Prop := s.writer = some g ∨ g ∈ s.readers

/-- The mutex is never held exclusively and shared at once. -/
def Inv (s : LS) : Prop := ∀ g, s.writer = some g → s.readers = []

def isRelBy (g : Nat) (e : Ev) : Prop := e = .relW g ∨ e = .relR g
def isAcqBy (g : Nat) (e : Ev) : Prop := e = .acqW g ∨ e = .acqR g

theorem inv_init : Inv {} := by intro g h; simp at h

theorem step_inv {s s' : LS} {e : Ev} (inv : Inv s) (h : step s e = some s') : Inv s' := by
  cases e with
  | acqW g => simp only [step] at h; split at h <;> simp at h; subst h; rename_i hc; intro _ _; exact hc.2
  | relW g => simp only [step] at h; split at h <;> simp at h; subst h; intro _ hh; simp at hh
  | acqR g => simp only [step] at h; split at h <;> simp at h; subst h; rename_i hc; intro g' hh; simp [hc] at hh
  | relR g =>
    simp only [step] at h; split at h <;> simp at h; subst h
    intro g' hh
    have := inv g' hh
    simp [this]
  | acc g w => simp only [step] at h; cases h; exact inv

theorem run_inv {s s' : LS} (inv : Inv s) (evs : List Ev) (h : run s evs = some s') : Inv s' := by
  induction evs generalizing s with
  | nil => simp [run] at h; subst h; exact inv
  | cons e es ih =>
    simp only [run] at h
    split at h
    · rename_i s1 h1; exact ih (step_inv inv h1) h
    · cases h

theorem run_append {s s' : LS} (a b : List Ev) (h : run s (a ++ b) = some s') : ∃ sm, run s a = some sm ∧ run sm b = some s' := by
  induction a generalizing s with
  | nil => exact ⟨s, rfl, h⟩
  | cons e es ih =>
    simp only [List.cons_append, run] at h ⊢
    split at h
    · rename_i s1 h1
      obtain ⟨sm, h2, h3⟩ := ih h
      exact ⟨sm, h2, h3⟩
    · cases h

/-- While the exclusive holder does not release, it stays the exclusive holder and nobody else gets in. -/
theorem keepW {s s' : LS} {g1 : Nat} (inv : Inv s) (hw : s.writer = some g1) (evs : List Ev) (h : run s evs = some s')
    (hno : ∀ e ∈ evs, e ≠ .relW g1) : s'.writer = some g1 ∧ s'.readers = [] := by
  induction evs generalizing s with
  | nil => simp [run] at h; subst h; exact ⟨hw, inv g1 hw⟩
  | cons e es ih =>
    simp only [run] at h
    split at h
    · rename_i s1 h1
      have hr := inv g1 hw
      have hs1 : s1 = s := by
        cases e with
        | acqW g => simp [step, hw] at h1
        | relW g =>
          simp only [step] at h1
          split at h1
          · rename_i hc
            rw [hw] at hc
            have : g = g1 := by simpa using hc.symm
            subst this
            exact absurd rfl (hno _ (List.mem_cons_self ..))
          · cases h1
        | acqR g => simp [step, hw] at h1
        | relR g => simp [step, hr] at h1
        | acc g w => simp [step] at h1; exact h1.symm
      subst hs1
      exact ih inv hw h (fun e he => hno e (List.mem_cons_of_mem _ he))
    · cases h

/-- While a shared holder does not release, it stays a holder and nobody holds the mutex exclusively. -/
theorem keepR {s s' : LS} {g1 : Nat} (inv : Inv s) (hr : g1 ∈ s.readers) (evs : List Ev) (h : run s evs = some s')
    (hno : ∀ e ∈ evs, e ≠ .relR g1) : g1 ∈ s'.readers ∧ s'.writer = none := by
  have hwn : ∀ {t : LS}, Inv t → g1 ∈ t.readers → t.writer = none := by
    intro t it ht
    cases hw : t.writer with
    | none => rfl
    | some g => have := it g hw; rw [this] at ht; cases ht
  induction evs generalizing s with
  | nil => simp [run] at h; subst h; exact ⟨hr, hwn inv hr⟩
  | cons e es ih =>
    simp only [run] at h
    split at h
    · rename_i s1 h1
      have inv1 := step_inv inv h1
      have hr1 : g1 ∈ s1.readers := by
        cases e with
        | acqW g =>
          simp only [step] at h1
          split at h1
          · rename_i hc; rw [hc.2] at hr; cases hr
          · cases h1
        | relW g => simp only [step] at h1; split at h1 <;> simp at h1; subst h1; exact hr
        | acqR g => simp only [step] at h1; split at h1 <;> simp at h1; subst h1; exact List.mem_cons_of_mem _ hr
        | relR g =>
          simp only [step] at h1
          split at h1
          · simp at h1; subst h1
            have hne : g1 ≠ g := by
              intro heq; subst heq
              exact absurd rfl (hno _ (List.mem_cons_self ..))
            exact (List.mem_erase_of_ne hne).mpr hr
          · cases h1
        | acc g w => simp [step] at h1; subst h1; exact hr
      exact ih inv1 hr1 h (fun e he => hno e (List.mem_cons_of_mem _ he))
    · cases h

/-- A goroutine that does not hold the mutex and later does has acquired it in between. -/
theorem needAcq {s s' : LS} {g2 : Nat} (hn : ¬ holds s g2) (evs : List Ev) (h : run s evs = some s') (hh : holds s' g2) :
    ∃ a q c, evs = a ++ q :: c ∧ isAcqBy g2 q := by
  induction evs generalizing s with
  | nil => simp [run] at h; subst h; exact absurd hh hn
  | cons e es ih =>
    simp only [run] at h
    split at h
    · rename_i s1 h1
      by_cases hq : isAcqBy g2 e
      · exact ⟨[], e, es, rfl, hq⟩
      · have hn1 : ¬ holds s1 g2 := by
          unfold holds at hn ⊢
          unfold isAcqBy at hq
          cases e with
          | acqW g =>
            simp only [step] at h1; split at h1 <;> simp at h1; subst h1
            intro hc; rcases hc with hc | hc
            · simp at hc; subst hc; exact hq (Or.inl rfl)
            · exact hn (Or.inr hc)
          | relW g =>
            simp only [step] at h1; split at h1 <;> simp at h1; subst h1
            intro hc; rcases hc with hc | hc
            · simp at hc
            · exact hn (Or.inr hc)
          | acqR g =>
            simp only [step] at h1; split at h1 <;> simp at h1; subst h1
            intro hc; rcases hc with hc | hc
            · exact hn (Or.inl hc)
            · rcases List.mem_cons.mp hc with hc | hc
              · subst hc; exact hq (Or.inr rfl)
              · exact hn (Or.inr hc)
          | relR g =>
            simp only [step] at h1; split at h1 <;> simp at h1; subst h1
            intro hc; rcases hc with hc | hc
            · exact hn (Or.inl hc)
            · exact hn (Or.inr (List.mem_of_mem_erase hc))
          | acc g w => simp [step] at h1; subst h1; exact hn
        obtain ⟨a, q, c, he, hq'⟩ := ih hn1 h
        exact ⟨e :: a, q, c, by rw [he]; rfl, hq'⟩
    · cases h

/-- The same for exclusive holding. -/
theorem needAcqW {s s' : LS} {g2 : Nat} (hn : ¬ holdsW s g2) (evs : List Ev) (h : run s evs = some s') (hh : holdsW s' g2) :
    ∃ a c, evs = a ++ Ev.acqW g2 :: c := by
  induction evs generalizing s with
  | nil => simp [run] at h; subst h; exact absurd hh hn
  | cons e es ih =>
    simp only [run] at h
    split at h
    · rename_i s1 h1
      by_cases hq : e = .acqW g2
      · exact ⟨[], es, by rw [hq]; rfl⟩
      · have hn1 : ¬ holdsW s1 g2 := by
          unfold holdsW at hn ⊢
          cases e with
          | acqW g =>
            simp only [step] at h1; split at h1 <;> simp at h1; subst h1
            intro hc; simp at hc; subst hc; exact hq rfl
          | relW g => simp only [step] at h1; split at h1 <;> simp at h1; subst h1; simp
          | acqR g => simp only [step] at h1; split at h1 <;> simp at h1; subst h1; exact hn
          | relR g => simp only [step] at h1; split at h1 <;> simp at h1; subst h1; exact hn
          | acc g w => simp [step] at h1; subst h1; exact hn
        obtain ⟨a, c, he⟩ := ih hn1 h
        exact ⟨e :: a, c, by rw [he]; rfl⟩
    · cases h

/-- Either no element satisfies `p`, or the list splits at the first one that does. -/
theorem splitFirst (p : Ev → Prop) [DecidablePred p] (l : List Ev) :
    (∀ e ∈ l, ¬ p e) ∨ ∃ a r b, l = a ++ r :: b ∧ p r ∧ ∀ e ∈ a, ¬ p e := by
  induction l with
  | nil => exact Or.inl (by intro e he; cases he)
  | cons x xs ih =>
    by_cases hx : p x
    · exact Or.inr ⟨[], x, xs, rfl, hx, by intro e he; cases he⟩
    · rcases ih with h | ⟨a, r, b, he, hr, ha⟩
      · exact Or.inl (by intro e he; rcases List.mem_cons.mp he with rfl | he; exact hx; exact h e he)
      · exact Or.inr ⟨x :: a, r, b, by rw [he]; rfl, hr, by
          intro e he'; rcases List.mem_cons.mp he' with rfl | he'; exact hx; exact ha e he'⟩

/-- **Mutual exclusion orders conflicting accesses.**  `s1` is the mutex state at the first access (goroutine `g1`),
    `mid` the events up to the second access (goroutine `g2 ≠ g1`) where the state is `s2`.  If both goroutines hold the
    mutex at their access and at least one of them holds it exclusively, then `mid` contains a release by `g1` followed
    by an acquisition by `g2`. -/
theorem conflicting_accesses_ordered {s1 s2 : LS} {g1 g2 : Nat} (inv : Inv s1) (mid : List Ev) (hrun : run s1 mid = some s2)
    (h1 : holds s1 g1) (h2 : holds s2 g2) (hne : g1 ≠ g2) (hex : holdsW s1 g1 ∨ holdsW s2 g2) :
    ∃ a r b q c, mid = a ++ r :: (b ++ q :: c) ∧ isRelBy g1 r ∧ isAcqBy g2 q := by
  by_cases hw1 : holdsW s1 g1
  · -- g1 holds exclusively
    rcases splitFirst (fun e => e = .relW g1) mid with hnone | ⟨a, r, b, he, hr, ha⟩
    · obtain ⟨k1, k2⟩ := keepW inv hw1 mid hrun hnone
      exfalso
      rcases h2 with h2 | h2
      · rw [k1] at h2; simp at h2; exact hne h2
      · rw [k2] at h2; cases h2
    · subst he
      obtain ⟨sa, ra, rb⟩ := run_append a (r :: b) hrun
      obtain ⟨k1, k2⟩ := keepW inv hw1 a ra ha
      simp only [run] at rb
      have hr' : r = .relW g1 := hr
      subst hr'
      simp only [step, k1, if_true] at rb
      have hn : ¬ holds { sa with writer := none } g2 := by
        unfold holds; simp [k2]
      obtain ⟨a', q, c, hb, hq⟩ := needAcq hn b rb h2
      exact ⟨a, _, a', q, c, by rw [hb], Or.inl rfl, hq⟩
  · -- g1 holds shared, so g2 holds exclusively
    have hr1 : g1 ∈ s1.readers := by
      rcases h1 with h | h
      · exact absurd h hw1
      · exact h
    have hw2 : holdsW s2 g2 := by
      rcases hex with h | h
      · exact absurd h hw1
      · exact h
    rcases splitFirst (fun e => e = .relR g1) mid with hnone | ⟨a, r, b, he, hr, ha⟩
    · obtain ⟨_, k2⟩ := keepR inv hr1 mid hrun hnone
      exfalso
      unfold holdsW at hw2
      rw [k2] at hw2; cases hw2
    · subst he
      obtain ⟨sa, ra, rb⟩ := run_append a (r :: b) hrun
      obtain ⟨k1, k2⟩ := keepR inv hr1 a ra ha
      simp only [run] at rb
      have hr' : r = .relR g1 := hr
      subst hr'
      simp only [step, k1, if_true] at rb
      have hn : ¬ holdsW { sa with readers := sa.readers.erase g1 } g2 := by
        unfold holdsW; simp [k2]
      obtain ⟨a', c, hb⟩ := needAcqW hn b rb hw2
      exact ⟨a, _, a', _, c, by rw [hb], Or.inr rfl, Or.inl rfl⟩

end NLE.LockSem
