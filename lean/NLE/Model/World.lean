import NLE.Model.Trace
/-
  The *world model*: reference KV store + bookkeeping of everything visible about each instance.
  It accepts any behaviour of the instances (it is total): this is the ground on which the property
  monitors (`NLE/Model/Monitors.lean`) are evaluated, both on traces of the real code and — via the
  theorems — on every execution of the implementation model.
-/
namespace NLE

structure Rec where
  val : Val
  rev : Nat
  writer : Nat       -- instance id; 0 = an outside writer
  wt : Nat           -- time of the write
  deriving Repr, DecidableEq, Inhabited

inductive MutKind | create | update | delete | expire | extPut | extDelete
  deriving Repr, DecidableEq, Inhabited

/-- A change of a key (successful mutation), with the record before and after. -/
structure Mut where
  t : Nat
  who : Nat            -- 0 = outside / expiry
  kind : MutKind
  key : String
  exp : Nat
  before : Option Rec
  after : Option Rec
  deriving Repr, DecidableEq, Inhabited

structure PendingOp where
  id : Nat
  inst : Nat
  kind : OpKind
  key : String
  exp : Nat
  val : Val
  issued : Nat
  applied : Option Applied := none
  appliedAt : Nat := 0
  inStopAtCall : Bool := false   -- issued while a StopWithContext{DeleteKey} of the instance was in progress
  ledAtStop : Bool := false      -- … and that call had found the instance leading
  deleteNth : Nat := 0           -- for a Delete: which Delete of the instance's stop calls in progress this is (1 = the first)
  site : String := ""             -- the library function that issued the operation
  deriving Repr, DecidableEq, Inhabited

structure ApiCall where
  n : Nat
  inst : Nat
  kind : ApiKind
  t : Nat
  ownerAtCall : Bool := false -- stop: the live record was this instance's when the call was made
  tokAtCall : Nat := 0        -- validate: token of the caller's term when the call was made
  sawValid : List Nat := []   -- validate: tokens `k` such that the record was live = own(inst, k) at some moment of the call
  flagAtCall : Bool := false
  demotesAtCall : Nat := 0
  superseded : Bool := false  -- stop: a Start of the same instance was called while this call was in progress
  deriving Repr, DecidableEq, Inhabited

structure CtxW where
  cid : Nat
  tok : Nat
  cancelled : Bool := false
  cancelledEarly : Option Nat := none   -- cancelled at that time while the term was in progress and the callback running
  cbRunning : Bool := true
  termEnded : Bool := false
  deriving Repr, DecidableEq, Inhabited

structure InstW where
  cfg : InstCfg
  flag : Bool := false
  flagTok : Nat := 0            -- token shown at the last flag=1 edge
  gauge : Bool := false         -- last value given to the is-leader gauge
  gaugeLast : Option Bool := none  -- the same, none while the gauge was never written
  transCount : Nat := 0         -- transitions recorded (Metrics.IncTransitions calls)
  termOpen : Bool := false      -- a promotion of the current term has been seen and no demotion since
  promotes : Nat := 0
  demotes : Nat := 0
  lastCbPromote : Bool := false -- the last callback dispatched was a promotion
  stopsInProgress : Nat := 0
  everStarted : Bool := false
  startedAt : Nat := 0
  candidateSince : Nat := 0     -- latest of: Start, last loss of leadership, healing of a partition
  stoppedSince : Option Nat := none   -- a stop returned ok at that time and no Start was called since
  takeoverLateReported : Bool := false
  opsDuringStop : List (Nat × String × Nat) := []   -- store operations (op, issuing function, time) issued while a stop call was in progress
  runToks : List Nat := []            -- tokens this instance put into store calls issued since its last Start
  lastStaleWev : Nat := 0             -- latest delivery of a watch notification older than the record it describes
  stopCalledSince : Option Nat := none
  lastTo : Nat := 1             -- to-state of the last recorded transition (CANDIDATE right after Start)
  lastOwnTok : Nat := 0         -- token of this instance's latest successful write
  orphanTok : Option Nat := none -- token of an acquiring write of this run acknowledged after the run had ended (stop call begun / context cancelled): never claimed, the record exists
  lastAckRev : Nat := 0         -- revision of its latest successful write whose answer was delivered
  lastAckAt : Nat := 0          -- when that answer was delivered
  lastAcqRev : Nat := 0         -- revision of its latest acknowledged acquiring write (Create, takeover Update)
  lastAcqAt : Nat := 0          -- when that answer was delivered
  lastDeleteFailedAt : Option Nat := none   -- its latest Delete that was refused, lost or not answered in time
  claimedToks : List Nat := []  -- tokens for which the flag was raised
  promoToks : List Nat := []    -- tokens that promotion callbacks were handed
  ctxs : List CtxW := []
  healthRun : Nat := 0          -- consecutive unhealthy results in the current term
  verifyReadDue : Option Nat := none -- a reconnect notification found the instance leading: its verification's first read is due by then
  trigs : List Nat := []            -- the two latest moments at which something could have started an acquisition round of this
                                    -- (non-leading) instance: a watch notification, a periodic check or Watch call that failed or found nothing
  lastMissAt : Option Nat := none   -- the latest of them that was a periodic check finding no record
  lastCreateAt : Option Nat := none -- its latest Create call
  jitterSuspect : Option (Nat × String) := none  -- a Create that looks like a round without jitter; judged when the clock moves on
  lastCutAt : Option Nat := none     -- the latest change of this instance's reachability (partition, healing, crash)
  stopDeletes : Nat := 0             -- Deletes issued since the latest stop call of this instance began
  spawns : List Nat := []            -- moments (of the last few seconds) at which an acquisition round or a single takeover attempt of this instance began
  spacingSuspect : Option (Nat × String) := none  -- two Creates of what can only be one round, closer than the smallest backoff; judged when the clock moves on
  runCancelledAt : Option Nat := none  -- the application cancelled the context of the current run then (no Start since)
  claimDue : Option Nat := none      -- an acquiring write of this (running) instance was acknowledged: it reports leadership by then
  createDebtAt : Option Nat := none  -- a Create call that nothing accounted for when it was logged (the notification that caused it is logged after it, at the same instant)
  createCredit : Int := 0        -- Create calls still covered by what could have started them: one per accepted Start, four per
                                -- acquisition round (vacancy notification, periodic check that found nothing), one per takeover opportunity
  healthDemoted : Bool := false -- this instance has been demoted by the health mechanism at least once
  cut : Bool := false           -- crashed / partitioned
  recentCalls : List Nat := []  -- times of the store calls of the last 100 ms (C13: no spinning)
  -- heartbeat bookkeeping (C03)
  hbPending : Option (Nat × Nat) := none   -- (op id, call time) of the refresh attempt in flight
  hbLastOkStart : Nat := 0      -- start of the last successful refresh (or of the acquiring write)
  hbFails : Nat := 0            -- consecutive failed refresh attempts
  noProgressReported : Bool := false -- the 'no successful refresh for too long' clause has fired for the current stretch
  lostAt : Option Nat := none   -- the record was replaced / deleted / expired underneath at that time (while leading)
  demoteDue : Option (Nat × String) := none  -- the instance must have stopped claiming by then (and why)
  lastHealthAt : Option (Nat × Bool) := none -- time and result of the latest health check of the current term
  discAt : Option Nat := none   -- latest disconnect notification
  graceDue : Option Nat := none -- the instant the grace mechanism must demote (latest disconnect + G), while the obligation is open
  graceTie : Option Nat := none -- a reconnect notification arrived at the very instant the grace period expired: demoting then is as right as not demoting
  verifyOpen : Option (Nat × Bool) := none  -- reconnect notification at that time while leading; still "record never mine since"
  deriving Repr, Inhabited

structure Fail where
  prop : String
  clause : String
  line : Nat
  detail : String
  deriving Repr, Inhabited

structure World where
  now : Nat := 0
  line : Nat := 0
  insts : List InstW := []
  store : List (String × Rec) := []
  tombs : List (String × Nat) := []     -- delete markers (the subject's last sequence)
  seq : Nat := 0
  ops : List PendingOp := []
  hist : List Mut := []          -- newest first
  tokensSeen : List Nat := []    -- every token that ever appeared in a record version
  apis : List ApiCall := []
  fails : List Fail := []        -- newest first
  storeMismatch : List String := []
  ended : Bool := false
  cov : List (String × Nat) := []            -- how often each property's trigger occurred (coverage, not a verdict)
  vacantSince : List (String × Nat) := []   -- keys without a live record, since when (C06)
  vacantOutside : List String := []         -- keys whose record an outside party removed (until somebody leads again)
  ownerSince : List (String × Int × Nat) := []  -- per key: id in the live record (map view) and since when it has been that id
  deriving Repr, Inhabited

namespace World

def hit (w : World) (name : String) : World :=
  match w.cov.lookup name with
  | some n => { w with cov := (name, n + 1) :: w.cov.filter (·.1 != name) }
  | none => { w with cov := (name, 1) :: w.cov }

def inst? (w : World) (i : Nat) : Option InstW := w.insts.find? (·.cfg.id = i)

def setInst (w : World) (x : InstW) : World :=
  { w with insts := w.insts.map fun y => if y.cfg.id = x.cfg.id then x else y }

def updInst (w : World) (i : Nat) (f : InstW → InstW) : World :=
  { w with insts := w.insts.map fun y => if y.cfg.id = i then f y else y }

def live (w : World) (key : String) : Option Rec := w.store.lookup key

def setKey (w : World) (key : String) (r : Option Rec) : World :=
  let rest := w.store.filter (·.1 ≠ key)
  match r with
  | none => { w with store := rest }
  | some r => { w with store := (key, r) :: rest }

def op? (w : World) (id : Nat) : Option PendingOp := w.ops.find? (·.id = id)

def valToks : Val → List Nat
  | .own _ t _ => [t]
  | .raw v => [v.sTok] ++ (if v.mTok ≥ 0 then [v.mTok.toNat] else [])
  | .empty => []

/-- Record a mutation of `key` by `who` at the current time. -/
def mutate (w : World) (who : Nat) (kind : MutKind) (key : String) (exp : Nat) (newVal : Option Val) : World :=
  let before := w.live key
  -- expiry (stream MaxAge) removes the value without consuming a sequence number
  let rev := if kind = .expire then w.seq else w.seq + 1
  let after := newVal.map fun v => ({ val := v, rev := rev, writer := who, wt := w.now } : Rec)
  let w1 := w.setKey key after
  let w1 := { w1 with tombs := match kind with
    | .delete | .extDelete => (key, rev) :: w1.tombs.filter (·.1 != key)
    | .expire => w1.tombs
    | _ => w1.tombs.filter (·.1 != key) }
  { w1 with seq := rev,
            hist := { t := w.now, who := who, kind := kind, key := key, exp := exp, before := before, after := after } :: w.hist,
            tokensSeen := (match newVal with | some v => valToks v | none => []) ++ w.tokensSeen }

/-- What the reference store answers when `op` is applied now. -/
def storeAnswer (w : World) (op : PendingOp) : Applied :=
  match op.kind with
  | .create => match w.live op.key with
    | some _ => .fail .exists_
    | none => .ok (w.seq + 1)
  | .update =>
    -- an Update must present the subject's last sequence: the live record's revision, else the delete marker's, else 0
    let cur := match w.live op.key with
      | some r => r.rev
      | none => (w.tombs.lookup op.key).getD 0
    if cur = op.exp then .ok (w.seq + 1) else .fail .wrongseq
  | .get => match w.live op.key with
    | some r => .ok r.rev
    | none => .fail .notfound
  | .delete => .ok (w.seq + 1)
  | .watch => .ok 0

end World
end NLE
