import NLE.Model.Config
import NLE.Gen.ConfigRules
/-!
# C16 — configuration validation accepts exactly the documented configurations

The rule list `Gen.configRules` is regenerated from `leader/validation.go` on every run;
the theorems below are therefore re-checked against what the code says now.
-/
namespace NLE.Theorems.C16
open NLE.Config

theorem wrap64_id {x : Int} (h1 : -9223372036854775808 ≤ x) (h2 : x ≤ 9223372036854775807) :
    wrap64 x = x := by
  unfold wrap64; omega

/-- Main theorem: for every configuration whose durations are in range, `validateConfig`
    accepts exactly the documented configurations. -/
theorem accepts_iff_documented (c : Cfg) (h : InRange c) :
    validate Gen.configRules c = none ↔ Documented c := by
  obtain ⟨h1, h2, h3, h4, h5, h6, h7, h8⟩ := h
  have w3 : wrap64 (c.hb * 3) = c.hb * 3 := wrap64_id (by omega) (by omega)
  have w2 : wrap64 (c.hb * 2) = c.hb * 2 := wrap64_id (by omega) (by omega)
  simp only [Gen.configRules, validate, Rule.fires, Cond.eval, IExp.eval, Cfg.int, Cfg.str, Cfg.bool,
    List.all_cons, List.all_nil, Bool.and_true, Bool.true_and, w3, w2, Documented]
  cases hb : c.bucket <;> cases hg : c.group <;> cases hi : c.id <;> cases ht : c.takeover <;>
    simp <;> grind

/-- When it rejects, the field it names really offends a documented rule. -/
theorem rejects_names_offender (c : Cfg) (h : InRange c) (f : String)
    (hv : validate Gen.configRules c = some f) : Offends c f := by
  obtain ⟨h1, h2, h3, h4, h5, h6, h7, h8⟩ := h
  have w3 : wrap64 (c.hb * 3) = c.hb * 3 := wrap64_id (by omega) (by omega)
  have w2 : wrap64 (c.hb * 2) = c.hb * 2 := wrap64_id (by omega) (by omega)
  simp only [Gen.configRules, validate, Rule.fires, Cond.eval, IExp.eval, Cfg.int, Cfg.str, Cfg.bool,
    List.all_cons, List.all_nil, Bool.and_true, Bool.true_and, w3, w2] at hv
  unfold Offends
  cases hb : c.bucket <;> cases hg : c.group <;> cases hi : c.id <;> cases ht : c.takeover <;>
    simp [hb, hg, hi, ht] at hv ⊢ <;> grind

/-- Validation happens before the store is contacted: the constructor's first statement is the
    `validateConfig` call and `NewElection` delegates straight to the constructor (facts regenerated
    from the AST). -/
theorem validates_before_anything_else :
    Gen.constructorValidatesFirst = true ∧ Gen.newElectionDelegates = true := by decide

/-- Non-vacuity: a documented, in-range configuration exists and is accepted. -/
def sampleCfg : Cfg :=
  { bucket := "b".toList, group := "g".toList, id := "A".toList, ttl := 3000000000, hb := 1000000000,
    val := 0, grace := 0, maxFail := 0, prio := 0, takeover := false }
example : InRange sampleCfg ∧ Documented sampleCfg ∧ validate Gen.configRules sampleCfg = none := by
  refine ⟨by unfold InRange sampleCfg; decide, by decide, by decide⟩

/-- Outside `InRange` the product `3 * HeartbeatInterval` wraps: a configuration with a
    heartbeat interval of 2^62 ns is accepted although TTL < 3·H (noted, not claimed). -/
example : validate Gen.configRules
    { sampleCfg with hb := 4611686018427387904, ttl := 4611686018427387904 } = none := by decide

end NLE.Theorems.C16
