import NLE.Model.World
import NLE.Gen.Shape
/-!
# C14 — the store contract the election relies on

`World.storeAnswer` / `World.mutate` are the store model against which (a) the reference store of the harness is
compared on every trace of every scenario and (b), through the reference store, the library's real adapter on an
embedded nats-server (harness mode `nats`: Create / Update with latest, stale and bogus revisions / Get / Delete /
expiry / Watch, arbitrary values; results, error classes, revisions and the watcher's event sequence must coincide).
The laws below are proved for the model; the coincidence clause of the property is that differential.

The model follows JetStream KV: an `Update` must present the subject's last sequence — the live record's revision,
else the delete marker's, else 0; expiry (MaxAge) removes a value without consuming a sequence number.
-/
namespace NLE.Theorems.C14
open NLE NLE.World

theorem lookup_cons {α} (k' a : String) (b : α) (l : List (String × α)) :
    List.lookup k' ((a, b) :: l) = if k' = a then some b else List.lookup k' l := by
  simp only [List.lookup]
  cases h : (k' == a)
  · have : k' ≠ a := by simpa using h
    simp [this]
  · have : k' = a := by simpa using h
    simp [this]

theorem lookup_filter_ne {α} (l : List (String × α)) (k k' : String) (h : k' ≠ k) :
    (l.filter (fun x => decide (x.1 ≠ k))).lookup k' = l.lookup k' := by
  induction l with
  | nil => rfl
  | cons x xs ih =>
    obtain ⟨a, b⟩ := x
    by_cases ha : a = k
    · have hp : decide ((a, b).1 ≠ k) = false := by simp [ha]
      rw [List.filter_cons_of_neg (by simpa using hp), lookup_cons, ih]
      have : k' ≠ a := by rw [ha]; exact h
      simp [this]
    · have hp : decide ((a, b).1 ≠ k) = true := by simp [ha]
      rw [List.filter_cons_of_pos (by simpa using hp), lookup_cons, lookup_cons, ih]

theorem lookup_filter_self {α} (l : List (String × α)) (k : String) :
    (l.filter (fun x => decide (x.1 ≠ k))).lookup k = none := by
  induction l with
  | nil => rfl
  | cons x xs ih =>
    obtain ⟨a, b⟩ := x
    by_cases ha : a = k
    · have hp : decide ((a, b).1 ≠ k) = false := by simp [ha]
      rw [List.filter_cons_of_neg (by simpa using hp), ih]
    · have hp : decide ((a, b).1 ≠ k) = true := by simp [ha]
      rw [List.filter_cons_of_pos (by simpa using hp), lookup_cons, ih]
      have : k ≠ a := fun e => ha e.symm
      simp [this]

/-- What a key holds after `setKey`. -/
theorem live_setKey (w : World) (k : String) (r : Option Rec) (k' : String) :
    (w.setKey k r).live k' = if k' = k then r else w.live k' := by
  unfold setKey live
  by_cases h : k' = k
  · subst h
    cases r with
    | none => simp only [if_true]; exact lookup_filter_self _ _
    | some r => simp only [if_true]; rw [lookup_cons]; simp
  · cases r with
    | none => simp only [h, if_false]; exact lookup_filter_ne _ _ _ h
    | some r => simp only [h, if_false]; rw [lookup_cons]; simp only [h, if_false]; exact lookup_filter_ne _ _ _ h

def mkOp (kind : OpKind) (key : String) (exp : Nat) (val : Val) : PendingOp :=
  { id := 0, inst := 0, kind := kind, key := key, exp := exp, val := val, issued := 0 }

/-- Create succeeds exactly when the key has no live value — also after deletion or expiry (both leave no live
    value) — and then returns the next sequence number. -/
theorem create_ok_iff (w : World) (key : String) (v : Val) :
    (w.storeAnswer (mkOp .create key 0 v) = .ok (w.seq + 1) ↔ w.live key = none) ∧
    (w.storeAnswer (mkOp .create key 0 v) = .fail .exists_ ↔ (w.live key).isSome) := by
  unfold storeAnswer mkOp
  cases h : w.live key <;> simp [h]

/-- The sequence an Update must present. -/
def lastSeq (w : World) (key : String) : Nat :=
  match w.live key with
  | some r => r.rev
  | none => (w.tombs.lookup key).getD 0

/-- Update succeeds exactly when the given revision is the key's latest sequence; for a live record that is its
    revision. -/
theorem update_ok_iff (w : World) (key : String) (exp : Nat) (v : Val) :
    (w.storeAnswer (mkOp .update key exp v) = .ok (w.seq + 1) ↔ exp = lastSeq w key) ∧
    (w.storeAnswer (mkOp .update key exp v) = .fail .wrongseq ↔ exp ≠ lastSeq w key) := by
  unfold storeAnswer mkOp lastSeq
  cases h : w.live key <;> simp [h] <;> constructor <;> (first | exact eq_comm | exact not_congr eq_comm)

theorem update_live_ok_iff (w : World) (key : String) (exp : Nat) (v : Val) (r : Rec) (h : w.live key = some r) :
    w.storeAnswer (mkOp .update key exp v) = .ok (w.seq + 1) ↔ exp = r.rev := by
  rw [(update_ok_iff w key exp v).1, lastSeq, h]

/-- Get returns the latest live value (its revision), or "not found" when there is none. -/
theorem get_latest (w : World) (key : String) :
    (∀ r, w.live key = some r → w.storeAnswer (mkOp .get key 0 .empty) = .ok r.rev) ∧
    (w.live key = none → w.storeAnswer (mkOp .get key 0 .empty) = .fail .notfound) := by
  unfold storeAnswer mkOp
  constructor
  · intro r h; simp [h]
  · intro h; simp [h]

/-- A successful write makes the written value the live one at the next sequence number; revisions strictly
    increase with every change of any key (expiry consumes none). -/
theorem write_effect (w : World) (who : Nat) (key : String) (exp : Nat) (v : Val) (kind : MutKind)
    (hk : kind = .create ∨ kind = .update ∨ kind = .extPut) :
    (w.mutate who kind key exp (some v)).live key = some { val := v, rev := w.seq + 1, writer := who, wt := w.now } ∧
    (w.mutate who kind key exp (some v)).seq = w.seq + 1 ∧
    (∀ k', k' ≠ key → (w.mutate who kind key exp (some v)).live k' = w.live k') := by
  have hne : kind ≠ .expire := by rcases hk with h | h | h <;> rw [h] <;> decide
  unfold mutate
  simp only [hne, if_false, Option.map_some]
  refine ⟨?_, by first | rfl | trivial, ?_⟩
  · show (World.setKey w key _).live key = _
    rw [live_setKey]; simp
  · intro k' hk'
    show (World.setKey w key _).live k' = _
    rw [live_setKey]; simp [hk']

/-- Deletion leaves no live value and records the delete marker's sequence; expiry leaves no live value and
    consumes no sequence number. -/
theorem delete_effect (w : World) (who : Nat) (key : String) :
    (w.mutate who .delete key 0 none).live key = none ∧ (w.mutate who .delete key 0 none).seq = w.seq + 1 ∧
    (w.mutate who .delete key 0 none).tombs.lookup key = some (w.seq + 1) := by
  unfold mutate
  refine ⟨?_, rfl, ?_⟩
  · show (World.setKey w key none).live key = none
    rw [live_setKey]; simp
  · simp [List.lookup]

theorem expire_effect (w : World) (key : String) :
    (w.mutate 0 .expire key 0 none).live key = none ∧ (w.mutate 0 .expire key 0 none).seq = w.seq := by
  unfold mutate
  refine ⟨?_, rfl⟩
  show (World.setKey w key none).live key = none
  rw [live_setKey]; simp

/-- The change log only grows, newest first: a subscriber that remembers the length of the log at subscription
    finds exactly the later changes, in order, above that mark. -/
theorem history_grows (w : World) (who : Nat) (kind : MutKind) (key : String) (exp : Nat) (v : Option Val) :
    ∃ m, (w.mutate who kind key exp v).hist = m :: w.hist ∧ m.key = key ∧ m.kind = kind := by
  unfold mutate; exact ⟨_, rfl, rfl, rfl⟩

/-- The library's adapter creates its update channel and forwarding goroutine once per watcher (AST fact). -/
theorem adapter_updates_once : Gen.adapterUpdatesOnce = true := by decide

end NLE.Theorems.C14
