import NLE.Model.HB
import NLE.Gen.Shape
/-!
# C12 — health-based demotion happens at exactly the configured failure count

`HB.onHealth` / `HB.healthDemoteAt` are the decision logic of the heartbeat loop's health branch, with the
default threshold and the check deadline regenerated from the source.  The counter is per term: the acceptor
starts every term with `run = 0` (the code resets `healthFailureCount` in `becomeLeader`).
-/
namespace NLE.Theorems.C12
open NLE NLE.HB

/-- The default threshold is 3 and each check gets a context that expires within 100 ms (regenerated constants). -/
theorem constants : Gen.healthDefaultThreshold = 3 ∧ Gen.healthTimeout = 100000000 := by decide

theorem threshold_default : healthThreshold 0 = 3 := by decide
theorem threshold_set (m : Nat) (h : m ≠ 0) : healthThreshold m = m := by simp [healthThreshold, h]

/-- The loop's counter after a sequence of results. -/
def runAfter (run : Nat) : List Bool → Nat
  | [] => run
  | r :: rs => runAfter (onHealth 0 run r).1 rs

/-- Number of consecutive unhealthy results at the end of a sequence (declaratively). -/
def trailingUnhealthy (l : List Bool) : Nat := (l.reverse.takeWhile (· == false)).length

theorem takeWhile_append_singleton (p : Bool → Bool) (a : List Bool) (x : Bool) :
    (a ++ [x]).takeWhile p = if a.all p then a ++ (if p x then [x] else []) else a.takeWhile p := by
  induction a with
  | nil => cases hx : p x <;> simp [List.takeWhile, hx]
  | cons y ys ih =>
    cases hy : p y
    · simp [List.takeWhile, hy]
    · simp only [List.cons_append, List.takeWhile, hy, List.all_cons, Bool.true_and, ih]
      split <;> simp

theorem takeWhile_all (p : Bool → Bool) (l : List Bool) (h : l.all p = true) : l.takeWhile p = l := by
  induction l with
  | nil => rfl
  | cons y ys ih =>
    simp only [List.all_cons, Bool.and_eq_true] at h
    simp [List.takeWhile, h.1, ih h.2]

/-- The counter is the number of consecutive unhealthy results at the end of the sequence (plus the initial
    count if nothing but unhealthy results have been seen): any healthy result restarts the count. -/
theorem runAfter_eq (l : List Bool) (run : Nat) :
    runAfter run l = if l.all (· == false) then run + l.length else trailingUnhealthy l := by
  induction l generalizing run with
  | nil => simp [runAfter]
  | cons r rs ih =>
    simp only [runAfter, onHealth]
    cases r with
    | true =>
      simp only [if_true, List.all_cons, Bool.true_eq_false, beq_iff_eq, Bool.false_and, if_false]
      rw [ih 0]
      simp only [trailingUnhealthy, List.reverse_cons, takeWhile_append_singleton, List.all_reverse]
      split <;> simp_all
    | false =>
      simp only [Bool.false_eq_true, if_false, List.all_cons, beq_self_eq_true, Bool.true_and]
      rw [ih (run + 1)]
      simp only [trailingUnhealthy, List.reverse_cons, takeWhile_append_singleton, List.all_reverse]
      split <;> simp_all <;> omega

theorem runAfter_zero (l : List Bool) : runAfter 0 l = trailingUnhealthy l := by
  rw [runAfter_eq]
  split
  · rename_i h
    simp only [trailingUnhealthy, Nat.zero_add]
    have : l.reverse.takeWhile (· == false) = l.reverse := takeWhile_all _ _ (by rw [List.all_reverse]; exact h)
    rw [this]; simp
  · rfl

/-- `onHealth` with threshold m decides "demote" exactly when the new count reaches m; the count itself does not
    depend on the threshold. -/
theorem onHealth_fst (m run : Nat) (r : Bool) : (onHealth m run r).1 = (onHealth 0 run r).1 := by
  unfold onHealth; split <;> rfl

theorem onHealth_snd (m run : Nat) (r : Bool) : (onHealth m run r).2 = true ↔ r = false ∧ run + 1 ≥ m := by
  unfold onHealth; cases r <;> simp

/-- The loop demotes at the first tick at which the count of consecutive unhealthy results reaches the threshold:
    `healthDemoteAt m run idx rs = some n` iff `n = idx + k` for the least `k` with `runAfter run (rs.take (k+1)) ≥ m`. -/
theorem demote_at_first_reach (m : Nat) (hm : 0 < m) (rs : List Bool) :
    ∀ (run idx : Nat), run < m → ∀ n,
      healthDemoteAt m run idx rs = some n ↔
        ∃ k, n = idx + k ∧ k < rs.length ∧ runAfter run (rs.take (k + 1)) ≥ m ∧ ∀ k' < k, runAfter run (rs.take (k' + 1)) < m := by
  induction rs with
  | nil => intro run idx _ n; simp [healthDemoteAt]
  | cons r rs ih =>
    intro run idx hrun n
    simp only [healthDemoteAt]
    have hfst := onHealth_fst m run r
    have hsnd := onHealth_snd m run r
    cases hd : (onHealth m run r).2 with
    | true =>
      have hd' := hsnd.mp hd
      simp only [hd, if_true, Option.some.injEq]
      constructor
      · intro h; subst h
        refine ⟨0, rfl, by simp, ?_, by intro k' hk'; omega⟩
        simp only [List.take, runAfter, onHealth, hd'.1]
        simp; omega
      · rintro ⟨k, rfl, _, hk, hmin⟩
        cases k with
        | zero => rfl
        | succ k =>
          have := hmin 0 (by omega)
          simp only [List.take, runAfter, onHealth, hd'.1] at this
          simp at this; omega
    | false =>
      simp only [hd, Bool.false_eq_true, if_false]
      have hrun' : (onHealth m run r).1 < m := by
        unfold onHealth at hd ⊢
        cases r <;> simp at hd ⊢ <;> omega
      rw [ih (onHealth m run r).1 (idx + 1) hrun' n]
      have hnot : runAfter run (List.take 1 (r :: rs)) < m := by
        simp only [List.take, runAfter]; rw [← hfst]; exact hrun'
      constructor
      · rintro ⟨k, rfl, hk, hreach, hmin⟩
        refine ⟨k + 1, by omega, by simp; omega, ?_, ?_⟩
        · simp only [List.take, runAfter]; rw [← hfst]; exact hreach
        · intro k' hk'
          cases k' with
          | zero => exact hnot
          | succ k' =>
            simp only [List.take, runAfter]; rw [← hfst]; exact hmin k' (by omega)
      · rintro ⟨k, rfl, hk, hreach, hmin⟩
        cases k with
        | zero => exact absurd hreach (by simp only [Nat.zero_add]; omega)
        | succ k =>
          refine ⟨k, by omega, by simpa using hk, ?_, ?_⟩
          · simp only [List.take, runAfter] at hreach; rw [← hfst] at hreach; exact hreach
          · intro k' hk'
            have := hmin (k' + 1) (by omega)
            simp only [List.take, runAfter] at this; rw [← hfst] at this; exact this

/-- **C12.** With threshold `m ≥ 1`, for every sequence of results of one term: the health mechanism demotes at
    tick `n` exactly when `n` is the first tick at which the last `m` (or more) consecutive results are unhealthy —
    never after fewer, and any healthy result in between restarts the count. -/
theorem health_demotion_exact (m : Nat) (hm : 0 < m) (rs : List Bool) (n : Nat) :
    healthDemoteAt m 0 0 rs = some n ↔
      n < rs.length ∧ trailingUnhealthy (rs.take (n + 1)) ≥ m ∧ ∀ n' < n, trailingUnhealthy (rs.take (n' + 1)) < m := by
  rw [demote_at_first_reach m hm rs 0 0 hm n]
  constructor
  · rintro ⟨k, rfl, hk, hr, hmin⟩
    simp only [Nat.zero_add]
    refine ⟨hk, by rw [← runAfter_zero]; exact hr, ?_⟩
    intro n' hn'; rw [← runAfter_zero]; exact hmin n' hn'
  · rintro ⟨hn, hr, hmin⟩
    refine ⟨n, by omega, hn, by rw [runAfter_zero]; exact hr, ?_⟩
    intro k' hk'; rw [runAfter_zero]; exact hmin k' hk'

/-- Non-vacuity / sanity: threshold 3, results U U H U U U H: demotion at index 5 and not before. -/
example : healthDemoteAt 3 0 0 [false, false, true, false, false, false, true] = some 5 := by decide
example : healthDemoteAt (healthThreshold 0) 0 0 [false, false, false] = some 2 := by decide
example : healthDemoteAt 1 0 0 [true, false] = some 1 := by decide

/-- AST fact: `becomeLeader` resets the health failure count (the count is per term). -/
theorem shape : Gen.healthCountResetPerTerm = true := by decide


end NLE.Theorems.C12
