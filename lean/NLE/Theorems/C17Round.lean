import NLE.Model.Round
import NLE.Theorems.C17
import NLE.Gen.Shape
/-!
# C17 (election round clause)

"Each acquisition round of an election waits a random 10–100 ms before its first attempt and makes
at most four attempts separated by that backoff."  The numbers in the statements are the
*documented* literals; the definitions use the constants regenerated from the source, so a changed
constant breaks these proofs.
-/
namespace NLE.Theorems.C17Round
open NLE NLE.Backoff NLE.Round

/-- The jitter before the first attempt lies in [10 ms, 100 ms] for every draw in [0,1). -/
theorem jitter_window (r0 : Rat) (h0 : 0 ≤ r0) (h1 : r0 < 1) :
    10000000 ≤ jitterOf r0 ∧ jitterOf r0 ≤ 100000000 := by
  unfold jitterOf
  have hc : (((Gen.jitterMax : Int) - (Gen.jitterMin : Int) : Int) : Rat) = 90000000 := by
    simp [Gen.jitterMax, Gen.jitterMin]
  rw [hc]
  have hlo : (0 : Int) ≤ (r0 * 90000000).floor := Rat.le_floor_iff.mpr (by
    have : (0 : Rat) ≤ r0 * 90000000 := Rat.mul_nonneg h0 (by decide)
    simpa using this)
  have hhi : (r0 * 90000000).floor < 90000000 := Rat.floor_lt_iff.mpr (by
    have : r0 * 90000000 < 1 * 90000000 := by grind
    simpa using this)
  simp only [Gen.jitterMin]
  omega

/-- At most four attempts per round, whatever the outcomes and draws. -/
theorem runFrom_attempts_le (outcomes : List Bool) (draws : List Rat) (k : Nat) (t : Int) (hk : k ≤ 3) :
    (runFrom outcomes draws k t).attempts.length + k ≤ 4 := by
  induction outcomes generalizing draws k t with
  | nil => simp [runFrom]; omega
  | cons o rest ih =>
    unfold runFrom
    split
    · simp; omega
    · split
      · simp; omega
      · rename_i _ hlt
        simp only [Gen.maxRetries] at hlt
        have := ih draws.tail (k + 1) (t + backoff defaultCfg k (draws.headD 0)) (by omega)
        simp at this ⊢; omega

theorem at_most_four_attempts (r0 : Rat) (outcomes : List Bool) (draws : List Rat) :
    (run r0 outcomes draws).attempts.length ≤ 4 := by
  have := runFrom_attempts_le outcomes draws 0 (jitterOf r0) (by omega)
  simpa [run] using this

/-- The default backoff configuration (regenerated) is well-formed, so `C17.backoff_int_bounds` applies
    to every wait of a round. -/
theorem defaultCfg_wf : defaultCfg.WF := by
  unfold BackoffCfg.WF defaultCfg
  simp only [Gen.defaultInitialBackoff, Gen.defaultMaxBackoff, Gen.defaultMultiplier, Gen.defaultJitter]
  refine ⟨by decide, by decide, by grind, by grind, by grind⟩

/-- Consecutive attempts are separated by exactly `CalculateBackoff(Default, retry)`: the second
    attempt of a round whose first attempt failed starts `backoff Default 0 r` after the first, and
    that wait lies within ±10 % of 50 ms. -/
theorem second_attempt_after_backoff (r0 r : Rat) (rest : List Bool) (ds : List Rat) (o2 : Bool)
    (hr0 : 0 ≤ r) (hr1 : r < 1) :
    let rr := run r0 (false :: o2 :: rest) (r :: ds)
    rr.attempts.head? = some (jitterOf r0) ∧
    (rr.attempts.drop 1).head? = some (jitterOf r0 + backoff defaultCfg 0 r) ∧
    45000000 ≤ backoff defaultCfg 0 r ∧ backoff defaultCfg 0 r ≤ 55000000 := by
  intro rr
  have hb := C17.backoff_int_bounds defaultCfg defaultCfg_wf 0 r hr0 hr1
  have hlo : backoffLo defaultCfg 0 = 45000000 := by
    unfold backoffLo base defaultCfg
    simp only [Gen.defaultInitialBackoff, Gen.defaultMaxBackoff, Gen.defaultMultiplier, Gen.defaultJitter]
    have h : (min (((5000000000:Nat):Int):Rat) ((((50000000:Nat):Int):Rat) * (20 / 10) ^ 0) * (1 - 1 / 10)) = ((45000000 : Int) : Rat) := by
      simp; grind
    rw [h]; exact Rat.floor_intCast _
  have hhi : backoffHi defaultCfg 0 = 55000000 := by
    unfold backoffHi base defaultCfg
    simp only [Gen.defaultInitialBackoff, Gen.defaultMaxBackoff, Gen.defaultMultiplier, Gen.defaultJitter]
    have h : (min (((5000000000:Nat):Int):Rat) ((((50000000:Nat):Int):Rat) * (20 / 10) ^ 0) * (1 + 1 / 10)) = ((55000000 : Int) : Rat) := by
      simp; grind
    rw [h]; exact Rat.ceil_intCast _
  refine ⟨?_, ?_, by omega, by omega⟩
  · simp [rr, run, runFrom, Gen.maxRetries]
  · cases o2 <;> simp [rr, run, runFrom, Gen.maxRetries]

/-- The smallest value of each of the round's three backoffs (attempt numbers 0, 1, 2): 45, 90 and 180 ms. -/
theorem backoffLo_values :
    backoffLo defaultCfg 0 = 45000000 ∧ backoffLo defaultCfg 1 = 90000000 ∧ backoffLo defaultCfg 2 = 180000000 := by
  refine ⟨?_, ?_, ?_⟩
  · unfold backoffLo base defaultCfg
    simp only [Gen.defaultInitialBackoff, Gen.defaultMaxBackoff, Gen.defaultMultiplier, Gen.defaultJitter]
    have h : (min (((5000000000:Nat):Int):Rat) ((((50000000:Nat):Int):Rat) * (20 / 10) ^ 0) * (1 - 1 / 10)) = ((45000000 : Int) : Rat) := by
      simp; grind
    rw [h]; exact Rat.floor_intCast _
  · unfold backoffLo base defaultCfg
    simp only [Gen.defaultInitialBackoff, Gen.defaultMaxBackoff, Gen.defaultMultiplier, Gen.defaultJitter]
    have h : (min (((5000000000:Nat):Int):Rat) ((((50000000:Nat):Int):Rat) * (20 / 10) ^ 1) * (1 - 1 / 10)) = ((90000000 : Int) : Rat) := by
      simp; grind
    rw [h]; exact Rat.floor_intCast _
  · unfold backoffLo base defaultCfg
    simp only [Gen.defaultInitialBackoff, Gen.defaultMaxBackoff, Gen.defaultMultiplier, Gen.defaultJitter]
    have h : (min (((5000000000:Nat):Int):Rat) ((((50000000:Nat):Int):Rat) * (20 / 10) ^ 2) * (1 - 1 / 10)) = ((180000000 : Int) : Rat) := by
      simp; grind
    rw [h]; exact Rat.floor_intCast _

/-- Every backoff of a round is at least 45 ms, whatever the draw. -/
theorem round_backoff_ge (k : Nat) (hk : k < 3) (r : Rat) (hr0 : 0 ≤ r) (hr1 : r < 1) :
    45000000 ≤ backoff defaultCfg k r := by
  have hb := (C17.backoff_int_bounds defaultCfg defaultCfg_wf k r hr0 hr1).2.1
  obtain ⟨h0, h1, h2⟩ := backoffLo_values
  have : k = 0 ∨ k = 1 ∨ k = 2 := by omega
  rcases this with rfl | rfl | rfl <;> omega

/-- The attempts of a round (from loop counter `k`, time `t`) begin with `t` … -/
theorem runFrom_head (outcomes : List Bool) (draws : List Rat) (k : Nat) (t : Int) :
    (runFrom outcomes draws k t).attempts = [] ∨ (runFrom outcomes draws k t).attempts.head? = some t := by
  cases outcomes with
  | nil => left; simp [runFrom]
  | cons o rest =>
    right
    unfold runFrom
    split
    · simp
    · split <;> simp

/-- … and consecutive attempts are at least 45 ms apart (the draws are `rand.Float64()` values; a missing draw
    counts as 0).  This is the bound the trace clause `attempts-not-spaced` checks Create calls against. -/
theorem runFrom_spaced (outcomes : List Bool) (draws : List Rat) (k : Nat) (t : Int) (hk : k ≤ 3)
    (hd : ∀ r ∈ draws, 0 ≤ r ∧ r < 1) :
    List.Pairwise (fun a b => a + 45000000 ≤ b) (runFrom outcomes draws k t).attempts ∧
    ∀ a ∈ (runFrom outcomes draws k t).attempts, t ≤ a := by
  induction outcomes generalizing draws k t with
  | nil => simp [runFrom]
  | cons o rest ih =>
    unfold runFrom
    split
    · simp
    · split
      · simp
      · rename_i _ hlt
        simp only [Gen.maxRetries] at hlt
        have hr : 0 ≤ draws.headD 0 ∧ draws.headD 0 < 1 := by
          cases draws with
          | nil => exact ⟨by simp [List.headD], by simp [List.headD]; decide⟩
          | cons r rs => simpa using hd r (by simp)
        have hge := round_backoff_ge k (by omega) (draws.headD 0) hr.1 hr.2
        have ⟨ih1, ih2⟩ := ih draws.tail (k + 1) (t + backoff defaultCfg k (draws.headD 0)) (by omega)
          (fun r hr' => hd r (List.mem_of_mem_tail hr'))
        refine ⟨?_, ?_⟩
        · simp only [List.pairwise_cons]
          exact ⟨fun b hb => by have := ih2 b hb; omega, ih1⟩
        · intro a ha
          simp only [List.mem_cons] at ha
          rcases ha with rfl | ha
          · omega
          · have := ih2 a ha; omega

theorem attempts_spaced (r0 : Rat) (outcomes : List Bool) (draws : List Rat) (hd : ∀ r ∈ draws, 0 ≤ r ∧ r < 1) :
    List.Pairwise (fun a b => a + 45000000 ≤ b) (run r0 outcomes draws).attempts :=
  (runFrom_spaced outcomes draws 0 (jitterOf r0) (by omega) hd).1

/-- Where the store log's Create calls come from (regenerated from the source on every run): the only function that
    issues a Create is `attemptAcquire`, with one call site, so an attempt is at most one Create; attempts are made by
    Start (one), by the round (`attemptAcquireWithRetry`, at most four: `at_most_four_attempts`) and by the watcher's
    takeover opportunity (one).  This is what the trace monitor's `more-creates-than-attempts` clause counts against. -/
theorem one_create_per_attempt :
    Gen.kvCreateCallers = ["kvElection.attemptAcquire"] ∧
    Gen.attemptAcquireCallers = ["kvElection.Start", "kvElection.attemptAcquireWithRetry", "kvElection.handleWatchEvent"] ∧
    Gen.attemptPriorityTakeoverCallers = ["kvElection.attemptAcquire"] := by
  decide +kernel

/-- What can make an instance issue Creates: `Start` (one attempt of its own), an acquisition round, a takeover
    opportunity seen by the watcher (one attempt). -/
inductive Spawn where
  | start
  | round (r0 : Rat) (outcomes : List Bool) (draws : List Rat)
  | opportunity

/-- Creates issued (one per attempt: `one_create_per_attempt`). -/
def Spawn.creates : Spawn → Nat
  | .start => 1
  | .round r0 o d => (run r0 o d).attempts.length
  | .opportunity => 1

/-- What the trace monitor books for it (`more-creates-than-attempts`). -/
def Spawn.credit : Spawn → Nat
  | .start => 1
  | .round .. => 4
  | .opportunity => 1

/-- Whatever an instance's rounds draw and however their attempts end, the Creates it issues never exceed what the
    monitor has booked: the clause cannot fail on code that follows the round model. -/
theorem creates_le_credit (ss : List Spawn) : (ss.map Spawn.creates).sum ≤ (ss.map Spawn.credit).sum := by
  induction ss with
  | nil => simp
  | cons s rest ih =>
    have h : s.creates ≤ s.credit := by
      cases s with
      | start => simp [Spawn.creates, Spawn.credit]
      | opportunity => simp [Spawn.creates, Spawn.credit]
      | round r0 o d => simpa [Spawn.creates, Spawn.credit] using at_most_four_attempts r0 o d
    simp only [List.map_cons, List.sum_cons]; omega

/-- The bound is reached: a round whose four attempts all fail. -/
example : (Spawn.round 0 [false, false, false, false] []).creates = 4 := by
  simp [Spawn.creates, run, runFrom, Gen.maxRetries]

end NLE.Theorems.C17Round
