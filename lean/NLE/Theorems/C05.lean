import NLE.Proofs.OwnTok
import NLE.Theorems.C01
import NLE.Gen.Shape
/-!
# C05 — fencing tokens are unique per leadership term and constant within it

Assumption A-uuid is built into the model: a `Create` / takeover call is accepted only with a token that
was never issued or written before, and an outside writer cannot publish a token an instance has
generated but not yet published.
-/
namespace NLE.Theorems.C05
open NLE NLE.Own

/-- Every successful acquisition (creation or preemption) publishes a fencing token that occurs in no
    earlier version of any record: in the newest-first history, for every split `pre ++ m :: post` with
    `m` an acquiring write, the token of `m` is not among the tokens of `post`. -/
theorem acquisition_token_fresh {evs : List TEv} {s : State} (h : run {} evs = .ok s)
    (pre post : List Mut) (m : Mut) (hsplit : s.hist = pre ++ m :: post) (hk : m.kind = .create ∨ m.kind = .takeover) :
    ∀ t ∈ afterToks m, t ∉ post.flatMap afterToks := by
  have hf := (reachable_tok h).fresh
  rw [hsplit] at hf
  clear hsplit
  induction pre with
  | nil => exact hf.2 hk
  | cons a pre ih => exact ih hf.1

/-- Every refresh republishes exactly the token and identity of the version it replaces. -/
theorem refresh_keeps_token {evs : List TEv} {s : State} (h : run {} evs = .ok s)
    (m : Mut) (hm : m ∈ s.hist) (hw : m.who ≠ 0) (hk : m.kind = .refresh) :
    ∃ old r tok p p', m.before = some old ∧ m.after = some r ∧ old.val = .own m.who tok p ∧ r.val = .own m.who tok p' := by
  obtain ⟨old, r, tok, p, p', hb, ha, _, _, hov, hrv⟩ := C01.refresh_same_token h m hm hw hk
  exact ⟨old, r, tok, p, p', hb, ha, hov, hrv⟩

/-- While an instance reports leadership, its token (what `Token()` returns and what the promotion
    callback received) is the token it published in a record it wrote itself, at the revision its next
    heartbeat presents. -/
theorem leader_token_is_own_records_token {evs : List TEv} {s : State} (h : run {} evs = .ok s)
    (i : Nat) (x : Inst) (tok : Nat) (hx : s.insts i = some x) (hl : x.lead = some tok) :
    OwnWrite s i x.cfg.key x.hbRev tok :=
  (reachable_inv h).leadOwn i x tok hx hl

/-- Non-vacuity: in the trace of `C01.f10Trace` two acquisitions happen (tokens 1 and 3). -/
example : (match run {} C01.f10Trace with
    | .ok s => s.hist.map (fun m => (m.kind, afterToks m))
    | .error _ => []) = [(.delete, []), (.takeover, [3]), (.create, [1])] := by decide

/-- AST facts: the token field is written only by `becomeLeader` (and the constructor); the takeover write publishes a
    new uuid; a promotion is refused while the instance already leads (no second token within a term); `Token()` — which the
    heartbeat reads, after its leadership re-check, to build the refresh — returns the stored token whatever the flag says. -/
theorem shape :
    Gen.tokenWriters = ["kvElection.becomeLeader", "newKVElection"] ∧ Gen.takeoverFreshToken = true ∧
    Gen.becomeLeaderRefusesWhenLeading = true ∧ Gen.tokenAccessorIsTheStoredToken = true := by decide

/-- … and the promotion callback is handed the token that `becomeLeader` was called with (captured when the term began,
    inside the critical section - not read from the field when the callback's goroutine gets to run, which may be after the
    term has ended and the next has begun). -/
theorem callback_token_is_the_terms : Gen.promoteSignalsStart = true := by decide


end NLE.Theorems.C05
