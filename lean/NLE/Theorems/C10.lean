import NLE.Theorems.C01
import NLE.Proofs.PromptInv
/-!
# C10 — priority takeover preempts only strictly lower priority, and promptly

Safety is proved in the ownership model.  Promptness (a higher-priority, takeover-enabled follower leads within
three heartbeat intervals) is proved in the timed model `NLE.Prompt` of the mechanism — the incumbent's refresh
cadence, notification of every refresh, "second notification of a known owner starts a takeover attempt" — and
validated end-to-end on implementation traces by the monitor `C10/takeover-not-prompt`; the model's assumptions
about the watcher are not tied to the code by an acceptor (partial).
-/
namespace NLE.Theorems.C10
open NLE NLE.Own

/-- An instance replaces another instance's live record only if takeover is enabled in its own
    configuration and its priority is strictly greater than the priority stored in that record — for
    every configuration of priorities and flags and every timing. -/
theorem preempts_only_strictly_lower {evs : List TEv} {s : State} (h : run {} evs = .ok s)
    (m : Mut) (hm : m ∈ s.hist) (hw : m.who ≠ 0) (old : Rec) (hb : m.before = some old) (hforeign : old.writer ≠ m.who)
    (hk : m.kind = .create ∨ m.kind = .refresh ∨ m.kind = .takeover) :
    ∃ x, s.insts m.who = some x ∧ x.cfg.takeover = true ∧
      (∃ p, storedPrio old.val = some p ∧ x.cfg.prio > p) := by
  obtain ⟨x, hx, htk, hout, _⟩ := C01.foreign_record_only_by_takeover h m hm hw old hb hforeign hk
  refine ⟨x, hx, htk, ?_⟩
  unfold outranks at hout
  split at hout
  · rename_i p hp
    exact ⟨p, hp, by simpa using hout⟩
  · cases hout

/-- With takeover disabled an instance never replaces a foreign record. -/
theorem no_takeover_when_disabled {evs : List TEv} {s : State} (h : run {} evs = .ok s)
    (m : Mut) (hm : m ∈ s.hist) (hw : m.who ≠ 0) (x : Inst) (hx : s.insts m.who = some x) (hoff : x.cfg.takeover = false)
    (old : Rec) (hb : m.before = some old) (hk : m.kind = .create ∨ m.kind = .refresh ∨ m.kind = .takeover) :
    old.writer = m.who := by
  by_cases hf : old.writer = m.who
  · exact hf
  · obtain ⟨x', hx', htk, _⟩ := preempts_only_strictly_lower h m hm hw old hb hf hk
    rw [hx] at hx'; cases hx'
    rw [hoff] at htk; cases htk

/-- Non-vacuity: the takeover in `C01.f10Trace` replaces a record of priority 1 by an instance of priority 2. -/
example : (match run {} C01.f10Trace with
    | .ok s => s.hist.any (fun m => m.kind == .takeover && m.who == 2)
    | .error _ => false) = true := by decide

/-! ### Promptness -/

open NLE.Prompt in
/-- In every execution of the mechanism with `W + 4L < H`, as long as the follower does not lead the clock has not
    passed `since + 2(H+L) + W + 3L`: two refresh intervals of the incumbent (the first notification makes the owner
    known, the second starts the attempt), one notification delay, one attempt. -/
theorem takeover_within_bound (p : Prompt.Par) (hpar : p.W + 4 * p.L < p.H) (t0 hb : Nat) (pend known : Bool)
    (hhb : hb ≤ t0) (hdue : t0 ≤ hb + p.H + p.L) (hp : pend = true → t0 ≤ hb + p.W)
    (acts : List Prompt.Act) (s : Prompt.St) (h : Prompt.run p (Prompt.init t0 hb pend known) acts = some s)
    (hl : s.lead = false) : s.now ≤ s.since + Prompt.bound p := by
  have inv := Prompt.run_inv hpar (Prompt.inv_init p t0 hb pend known hhb hdue hp) acts h
  exact Nat.le_trans (Prompt.now_le_dl inv hl) (inv.progress hl)

/-- `since` never changes: it is the instant the follower became eligible. -/
theorem since_fixed (p : Prompt.Par) (t0 hb : Nat) (pend known : Bool) (acts : List Prompt.Act) (s : Prompt.St)
    (h : Prompt.run p (Prompt.init t0 hb pend known) acts = some s) : s.since = t0 := by
  have gen : ∀ (acts : List Prompt.Act) (s0 s : Prompt.St), Prompt.run p s0 acts = some s → s.since = s0.since := by
    intro acts
    induction acts with
    | nil => intro s0 s h; simp [Prompt.run] at h; subst h; rfl
    | cons a as ih =>
      intro s0 s h
      simp only [Prompt.run] at h
      split at h
      · rename_i s1 h1
        have e1 : s1.since = s0.since := by
          cases a <;> simp only [Prompt.step] at h1
          · split at h1
            · cases h1; rfl
            · split at h1 <;> cases h1; rfl
          · split at h1
            · cases h1; rfl
            · split at h1 <;> cases h1; rfl
          · split at h1
            · cases h1
            · split at h1
              · cases h1; rfl
              · split at h1 <;> cases h1 <;> rfl
          · split at h1 <;> cases h1; rfl
        rw [ih s1 s h, e1]
      · cases h
  exact gen acts _ s h

/-- With operation latency and notification delay up to a tenth of the heartbeat interval the bound is below three
    intervals. -/
theorem within_three_intervals (p : Prompt.Par) (hL : 10 * p.L ≤ p.H) (hW : 10 * p.W ≤ p.H) (hH : 0 < p.H) :
    p.W + 4 * p.L < p.H ∧ Prompt.bound p < 3 * p.H := by
  unfold Prompt.bound
  constructor <;> omega

/-! Non-vacuity: H = 1000, L = W = 100; the follower becomes eligible right after a refresh and leads at 2 600. -/
def p0 : Prompt.Par := { H := 1000, L := 100, W := 100 }
example : (match Prompt.run p0 (Prompt.init 0 0 false false)
      [.advance 1100, .hbApply, .advance 1200, .deliver, .advance 2200, .hbApply, .advance 2300, .deliver, .advance 2600, .attemptEnd] with
    | some s => s.lead && s.now == 2600 && decide (s.now = s.since + Prompt.bound p0) | none => false) = true := by decide
/-- The clock cannot pass a stage's deadline. -/
example : Prompt.run p0 (Prompt.init 0 0 false false) [.advance 1101] = none := by decide

end NLE.Theorems.C10
