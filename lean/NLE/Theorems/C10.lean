import NLE.Theorems.C01
/-!
# C10 — priority takeover preempts only strictly lower priority (safety clause)

The promptness clause (a higher-priority instance leads within three heartbeat intervals) is a timed
two-instance argument; it is validated on traces by the monitor `C10/...` and not proved (see DESIGN.md §9).
-/
namespace NLE.Theorems.C10
open NLE NLE.Own

/-- An instance replaces another instance's live record only if takeover is enabled in its own
    configuration and its priority is strictly greater than the priority stored in that record — for
    every configuration of priorities and flags and every timing. -/
theorem preempts_only_strictly_lower {evs : List TEv} {s : State} (h : run {} evs = .ok s)
    (m : Mut) (hm : m ∈ s.hist) (hw : m.who ≠ 0) (old : Rec) (hb : m.before = some old) (hforeign : old.writer ≠ m.who)
    (hk : m.kind = .create ∨ m.kind = .refresh ∨ m.kind = .takeover) :
    ∃ x, s.insts m.who = some x ∧ x.cfg.takeover = true ∧
      (∃ p, storedPrio old.val = some p ∧ x.cfg.prio > p) := by
  obtain ⟨x, hx, htk, hout, _⟩ := C01.foreign_record_only_by_takeover h m hm hw old hb hforeign hk
  refine ⟨x, hx, htk, ?_⟩
  unfold outranks at hout
  split at hout
  · rename_i p hp
    exact ⟨p, hp, by simpa using hout⟩
  · cases hout

/-- With takeover disabled an instance never replaces a foreign record. -/
theorem no_takeover_when_disabled {evs : List TEv} {s : State} (h : run {} evs = .ok s)
    (m : Mut) (hm : m ∈ s.hist) (hw : m.who ≠ 0) (x : Inst) (hx : s.insts m.who = some x) (hoff : x.cfg.takeover = false)
    (old : Rec) (hb : m.before = some old) (hk : m.kind = .create ∨ m.kind = .refresh ∨ m.kind = .takeover) :
    old.writer = m.who := by
  by_cases hf : old.writer = m.who
  · exact hf
  · obtain ⟨x', hx', htk, _⟩ := preempts_only_strictly_lower h m hm hw old hb hf hk
    rw [hx] at hx'; cases hx'
    rw [hoff] at htk; cases htk

/-- Non-vacuity: the takeover in `C01.f10Trace` replaces a record of priority 1 by an instance of priority 2. -/
example : (match run {} C01.f10Trace with
    | .ok s => s.hist.any (fun m => m.kind == .takeover && m.who == 2)
    | .error _ => false) = true := by decide

end NLE.Theorems.C10
