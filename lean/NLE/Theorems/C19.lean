import NLE.Proofs.LifeInv
import NLE.Gen.Shape
/-!
# C19 — the promotion context lives exactly as long as the term
-/
namespace NLE.Theorems.C19
open NLE NLE.Life

/-- A promotion context is cancelled only after its term has ended, its callback has returned, or the run itself is
    being ended (a stop call has begun and its critical section is about to lower the flag; the application has
    cancelled the context it passed to Start; the library has reported the term's duration, which it does inside the
    critical section that ends the term): while the instance still leads that term, with none of these under way,
    and the callback is running, a cancellation is not an execution of the model. -/
theorem not_cancelled_while_leading {x x' : Inst} {cid : Nat} (h : stepCtxDone x cid = .ok x') :
    ∃ c ∈ x.ctxs, c.cid = cid ∧
      (c.termOver = true ∨ c.cbRunning = false ∨ x.stopPendingTrans = true ∨ x.ctxCancelled = true ∨ x.ending = true) := by
  unfold stepCtxDone at h
  split at h
  · rename_i c hc
    split at h
    · rename_i hg
      refine ⟨c, List.mem_of_find?_eq_some hc, by simpa using List.find?_some hc, ?_⟩
      rcases hg with hg | hg | hg | hg | hg
      · exact Or.inl hg
      · exact Or.inr (Or.inl (by simpa using hg))
      · exact Or.inr (Or.inr (Or.inl hg))
      · exact Or.inr (Or.inr (Or.inr (Or.inl hg)))
      · exact Or.inr (Or.inr (Or.inr (Or.inr hg)))
    · cases h
  · cases h

/-- A context whose term is not over belongs to the term in progress: the flag is raised with that term's token. -/
theorem live_context_belongs_to_current_term {x : Inst} (inv : LInv x) (c : Ctx) (hc : c ∈ x.ctxs) (hl : c.termOver = false) :
    x.flag = true ∧ x.termTok = c.tok :=
  inv.ctxLive c hc hl

/-- When the flag is cleared — demotion for any reason, or a stop call — every promotion context of the instance
    belongs to an ended term (the model cancels with the term; the trace shows the cancellation at the next
    quiescent point, which `statusOk` requires). -/
theorem term_end_marks_contexts (x : Inst) : ∀ c ∈ (clearFlag x).ctxs, x.flag = true → c.termOver = true := by
  intro c hc hf
  simp only [clearFlag, hf, if_true, List.mem_map] at hc
  obtain ⟨c0, _, rfl⟩ := hc
  rfl

/-- At every quiescent point the model accepts, the contexts of ended terms are cancelled. -/
theorem cancelled_at_quiescent_points {x : Inst} {st : Nat} {il il2 : Bool} {tok : Nat}
    (hok : statusOk x st il tok il2 = none) : ∀ c ∈ x.ctxs, c.termOver = true → c.cancelled = true := by
  unfold statusOk at hok
  repeat' (split at hok; · cases hok)
  rename_i hany
  intro c hc hto
  simp only [List.any_eq_true, not_exists, not_and, Bool.and_eq_true, Bool.not_eq_true'] at hany
  have := hany c hc
  simpa using this hto

/-- AST facts: `becomeLeader` derives a per-term context, runs the term's loops and the promotion callback under it, and
    `becomeFollower` cancels it. -/
theorem shape : Gen.termContextPerTerm = true ∧ Gen.termCancelledOnDemotion = true := by decide


end NLE.Theorems.C19
