import NLE.Model.HB
/-!
# C03 — a deposed or cut-off leader stops claiming leadership within a bounded time

Decision logic and timing of the heartbeat loop (`NLE/Model/HB.lean`), with the failure limit, the time-out rule
and the error classification regenerated from the source.  The acceptor `HB.step` ties the schedule assumptions
(`Chain` below) and the decisions to every trace of the real code.

(a) A refresh that the store refuses (record replaced / deleted / expired: "wrong last sequence" or "key not found")
    is a permanent error: the loop demotes at the completion of that attempt, which is the first attempt that is
    applied after the change; it completes at most H + 2T after the change.
(b) Transport failures and time-outs are transient: the loop demotes at the completion of the third consecutive
    failed attempt; that is at most 3·max(T,H) + T after the start of the last successful refresh, which is within
    the documented 3H + 3T whenever T ≤ 3H — for H < 333 ms the documented bound does not hold (known finding F25,
    counterexample below).
-/
namespace NLE.Theorems.C03
open NLE NLE.HB

/-! ### Constants and classification (regenerated) -/

theorem constants : Gen.hbMaxFailures = 3 ∧ Gen.hbTimeoutDiv = 2 ∧ Gen.hbTimeoutFloor = 1000000000 := by decide

/-- The update time-out is max(H/2, 1 s). -/
theorem updateTimeout_doc (hb : Nat) : updateTimeout hb = max (hb / 2) 1000000000 := by
  simp [updateTimeout, Gen.hbTimeoutDiv, Gen.hbTimeoutFloor]

/-- What the store answers to a refresh of a record that was replaced, deleted or has expired is permanent;
    time-outs, no-responders and closed connections are transient; success is success. -/
theorem refused_refresh_is_permanent :
    outcomeOf (.err .wrongseq) = .permanent ∧ outcomeOf (.err .notfound) = .permanent := by decide

theorem transport_failures_are_transient :
    outcomeOf (.err .timeout) = .transient ∧ outcomeOf (.err .noresponders) = .transient ∧
    outcomeOf (.err .closed) = .transient := by decide

/-! ### Decisions -/

/-- A permanent error demotes at the completion of that very attempt, whatever the count. -/
theorem permanent_demotes_at_once (fails : Nat) : (onOutcome fails .permanent).2 = true := rfl

/-- A success resets the count and never demotes. -/
theorem success_resets (fails : Nat) : onOutcome fails .ok = (0, false) := rfl

/-- A transient failure demotes exactly when it is the third in a row. -/
theorem transient_demotes_at_third (fails : Nat) : (onOutcome fails .transient).2 = true ↔ fails + 1 ≥ 3 := by
  simp [onOutcome, Gen.hbMaxFailures]

/-- After a success, three transient failures in a row demote at the completion of the third and not before;
    with fewer the loop keeps claiming. -/
theorem three_in_a_row (idx : Nat) (rest : List Outcome) :
    refreshDemoteAt 0 idx (.ok :: .transient :: .transient :: .transient :: rest) = some (idx + 3) ∧
    refreshDemoteAt 0 idx [.ok, .transient, .transient] = none ∧
    refreshDemoteAt 0 idx [.transient, .transient, .ok, .transient, .transient] = none := by
  simp [refreshDemoteAt, onOutcome, Gen.hbMaxFailures]

/-- The count of consecutive failures the loop holds after a sequence of outcomes without a permanent one. -/
def failsAfter (f : Nat) : List Outcome → Nat
  | [] => f
  | o :: os => failsAfter (onOutcome f o).1 os

/-- General form: the loop demotes at the first attempt that is a permanent failure or the third consecutive
    transient failure. -/
theorem demote_at_first (os : List Outcome) :
    ∀ (f idx : Nat), f < 3 → ∀ n,
      refreshDemoteAt f idx os = some n ↔
        ∃ k, n = idx + k ∧ k < os.length ∧
          (os[k]? = some .permanent ∨ (os[k]? = some .transient ∧ failsAfter f (os.take k) + 1 ≥ 3)) ∧
          ∀ k' < k, ¬ (os[k']? = some .permanent ∨ (os[k']? = some .transient ∧ failsAfter f (os.take k') + 1 ≥ 3)) := by
  induction os with
  | nil => intro f idx _ n; simp [refreshDemoteAt]
  | cons o os ih =>
    intro f idx hf n
    simp only [refreshDemoteAt]
    cases hd : (onOutcome f o).2 with
    | true =>
      simp only [if_true, Option.some.injEq]
      have hcond : o = .permanent ∨ (o = .transient ∧ f + 1 ≥ 3) := by
        cases o <;> simp [onOutcome, Gen.hbMaxFailures] at hd ⊢
        omega
      constructor
      · intro h; subst h
        refine ⟨0, rfl, by simp, ?_, by intro k' hk'; omega⟩
        simpa [failsAfter] using hcond
      · rintro ⟨k, rfl, _, _, hmin⟩
        cases k with
        | zero => rfl
        | succ k =>
          exfalso
          apply hmin 0 (by omega)
          simpa [failsAfter] using hcond
    | false =>
      simp only [Bool.false_eq_true, if_false]
      have hncond : ¬ (o = .permanent ∨ (o = .transient ∧ f + 1 ≥ 3)) := by
        cases o <;> simp [onOutcome, Gen.hbMaxFailures] at hd ⊢
        omega
      have hf' : (onOutcome f o).1 < 3 := by
        cases o <;> simp [onOutcome, Gen.hbMaxFailures] at hd ⊢ <;> omega
      rw [ih (onOutcome f o).1 (idx + 1) hf' n]
      constructor
      · rintro ⟨k, rfl, hk, hc, hmin⟩
        refine ⟨k + 1, by omega, by simp; omega, ?_, ?_⟩
        · simpa [failsAfter] using hc
        · intro k' hk'
          cases k' with
          | zero => simpa [failsAfter] using hncond
          | succ k' => simpa [failsAfter] using hmin k' (by omega)
      · rintro ⟨k, rfl, hk, hc, hmin⟩
        cases k with
        | zero => exfalso; apply hncond; simpa [failsAfter] using hc
        | succ k =>
          refine ⟨k, by omega, by simpa using hk, ?_, ?_⟩
          · simpa [failsAfter] using hc
          · intro k' hk'
            simpa [failsAfter] using hmin (k' + 1) (by omega)

/-! ### Timing -/

/-- A refresh attempt: when it was issued and when the loop had its outcome (answer or time-out). -/
structure Att where
  start : Nat
  finish : Nat

/-- What the ticker and the time-out guarantee about consecutive attempts of one term (checked on every trace by
    `HB.step`): an attempt completes within T; the next one is issued at the next tick, or — when the previous one
    outlasted it — immediately (the ticker buffers one tick). -/
def Chain (H T : Nat) : List Att → Prop
  | [] => True
  | [a] => a.start ≤ a.finish ∧ a.finish ≤ a.start + T
  | a :: b :: rest => a.start ≤ a.finish ∧ a.finish ≤ a.start + T ∧ b.start ≤ max a.finish (a.start + H) ∧ Chain H T (b :: rest)

/-- (b) The third consecutive failed attempt completes at most 3·max(T,H) + T after the start of the last
    successful refresh. -/
theorem third_failure_bound (H T : Nat) (a0 a1 a2 a3 : Att) (h : Chain H T [a0, a1, a2, a3]) :
    a3.finish ≤ a0.start + 3 * max T H + T := by
  simp only [Chain] at h
  obtain ⟨_, h0, h01, _, h1, h12, _, h2, h23, _, h3⟩ := h
  simp only [Nat.max_def] at *
  split at h01 <;> split at h12 <;> split at h23 <;> split <;> omega

/-- … which is within the documented 3H + 3T whenever the time-out does not exceed three intervals. -/
theorem third_failure_bound_documented (H T : Nat) (hT : T ≤ 3 * H) (a0 a1 a2 a3 : Att) (h : Chain H T [a0, a1, a2, a3]) :
    a3.finish ≤ a0.start + 3 * H + 3 * T := by
  have := third_failure_bound H T a0 a1 a2 a3 h
  simp only [Nat.max_def] at this
  split at this <;> omega

/-- With the regenerated time-out rule the hypothesis `T ≤ 3H` is exactly `H ≥ 333 333 334 ns`. -/
theorem timeout_le_three_intervals (hb : Nat) (h : 333333334 ≤ hb) : updateTimeout hb ≤ 3 * hb := by
  rw [updateTimeout_doc]
  simp only [Nat.max_def]
  split <;> omega

/-- Known finding F25: for H = 100 ms (T = 1 s) a schedule the model allows exceeds the documented bound:
    a refresh that takes 990 ms followed by three time-outs completes 3.99 s after its start; 3H + 3T = 3.3 s. -/
theorem documented_bound_fails_for_small_H :
    ∃ a0 a1 a2 a3 : Att, Chain 100000000 (updateTimeout 100000000) [a0, a1, a2, a3] ∧
      a3.finish > a0.start + 3 * 100000000 + 3 * updateTimeout 100000000 := by
  refine ⟨⟨0, 990000000⟩, ⟨990000000, 1990000000⟩, ⟨1990000000, 2990000000⟩, ⟨2990000000, 3990000000⟩, ?_, ?_⟩
  · simp [Chain, updateTimeout_doc]
  · simp [updateTimeout_doc]

/-- (a) The record changes at `c`.  If an attempt `a` was in flight (issued before the change), it may still
    succeed; the next attempt `b` is applied after the change, is refused (permanent) and the loop demotes at its
    completion, which is at most H + 2T after the change. -/
theorem next_attempt_after_change_bound (H T c : Nat) (a b : Att) (h : Chain H T [a, b]) (hin : a.start ≤ c) :
    b.finish ≤ c + H + 2 * T := by
  simp only [Chain] at h
  obtain ⟨_, ha, hab, _, hb⟩ := h
  simp only [Nat.max_def] at hab
  split at hab <;> omega

/-- … and if no attempt is in flight at the change (the previous one, `a`, had completed before), the next
    attempt completes at most H + T after the change. -/
theorem next_attempt_after_change_bound_idle (H T c : Nat) (a b : Att) (h : Chain H T [a, b]) (hdone : a.finish ≤ c) :
    b.finish ≤ c + H + T := by
  simp only [Chain] at h
  obtain ⟨_, ha, hab, _, hb⟩ := h
  simp only [Nat.max_def] at hab
  split at hab <;> omega

end NLE.Theorems.C03
