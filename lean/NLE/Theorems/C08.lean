import NLE.Proofs.LifeInv
import NLE.Gen.Shape
/-!
# C08 — promotion and demotion callbacks mirror leadership exactly

Model: `NLE/Model/Life.lean`.  Callback *dispatch* is what the library decides (promotion inside
`becomeLeader`'s critical section, demotion by `stepDown` iff it cleared a flag, by a stop call iff the
instance led when the call began); callback *start* is what the trace shows.  The theorems hold for every
event sequence the model accepts.
-/
namespace NLE.Theorems.C08
open NLE NLE.Life

/-- Every instance of every reachable state satisfies the lifecycle invariant. -/
theorem reachable {evs : List TEv} {s : Sys} (h : run {} evs = .ok s) : ∀ x ∈ s.st.insts, LInv x :=
  run_inv sys_init evs h

/-- Callback bookkeeping in every reachable state (callbacks registered): promotions started or owed equal
    demotions started or owed plus one iff the flag is raised; at most one demotion is ever owed. -/
theorem callbacks_balance {x : Inst} (inv : LInv x) (hcb : x.callbacks = true) :
    x.promotes + o2n x.promoOwed = x.demotes + x.demoteOwed + x.stopDemoteOwed + b2n x.flag ∧
    x.demoteOwed + x.stopDemoteOwed + b2n x.flag ≤ 1 :=
  ⟨inv.balance hcb, inv.atMostOne⟩

/-- A promotion callback starts only when promotions and demotions are level, with the token of the term
    it was dispatched for; a demotion callback starts only when promotions lead by one.  Hence the two
    strictly alternate, starting with a promotion. -/
theorem promote_when_level {x x' : Inst} {tok cid : Nat} {dn : Bool} (inv : LInv x) (hcb : x.callbacks = true)
    (h : stepPromote x tok cid dn = .ok x') :
    x.promotes = x.demotes ∧ x.promoOwed = some tok ∧ x'.promotes = x.promotes + 1 ∧ x'.demotes = x.demotes := by
  unfold stepPromote at h
  split at h
  · rename_i t ht
    split at h
    · cases h
    · rename_i htok
      simp only [ne_eq, Decidable.not_not] at htok
      split at h
      · cases h
      · cases h
        have hb := inv.balance hcb
        have ho := inv.owedTerm (by simp [ht])
        simp only [o2n, ht, Option.isSome_some, if_true] at hb
        subst htok
        exact ⟨by omega, ht, rfl, rfl⟩
  · cases h

theorem demote_when_ahead {x x' : Inst} (inv : LInv x) (hcb : x.callbacks = true) (h : stepDemote x = .ok x') :
    x.promotes = x.demotes + 1 ∧ x.flag = false ∧ x'.demotes = x.demotes + 1 ∧ x'.promotes = x.promotes := by
  have hb := inv.balance hcb
  have h1 := inv.atMostOne
  unfold stepDemote at h
  split at h
  · cases h
  · rename_i hf
    split at h
    · cases h
    · rename_i hp
      have hpn : o2n x.promoOwed = 0 := by simp [o2n] at hp ⊢; simp [hp]
      have hfl : b2n x.flag = 0 := by simp [b2n]; simpa using hf
      split at h
      · cases h; exact ⟨by omega, by simpa using hf, rfl, rfl⟩
      · split at h
        · cases h; exact ⟨by omega, by simpa using hf, rfl, rfl⟩
        · cases h

/-- Whenever the instance is not in the middle of a stop call, at a quiescent point (a `status` line the
    model accepts) it reports leadership exactly when promotions outnumber demotions by one. -/
theorem mirror_at_quiescent_points {x : Inst} (inv : LInv x) (hcb : x.callbacks = true)
    {st : Nat} {il il2 : Bool} {tok : Nat} (hok : statusOk x st il tok il2 = none) (hnostop : x.stops = []) :
    (il2 = true ↔ x.promotes = x.demotes + 1) ∧ (il2 = false ↔ x.promotes = x.demotes) := by
  have hb := inv.balance hcb
  unfold statusOk at hok
  split at hok; · cases hok
  split at hok; · cases hok
  split at hok; · cases hok
  rename_i hobs
  simp only [not_or, ne_eq, Decidable.not_not] at hobs
  split at hok; · cases hok
  split at hok; · cases hok
  rename_i howed
  simp only [not_or, not_and, Nat.not_lt, Nat.le_zero_eq] at howed
  obtain ⟨hpo, hdo, hso⟩ := howed
  have hso' : x.stopDemoteOwed = 0 := hso (by simp [hnostop])
  have hpn : o2n x.promoOwed = 0 := by simp [o2n]; simpa using hpo
  rw [hobs.2.2]
  cases hf : x.flag <;> simp [hf, b2n] at hb ⊢ <;> omega

/-- AST facts: `becomeFollower` is called only by `stepDown`, the initial acquisition and an exhausted round (both while
    not leading); `OnDemote` is invoked only by `stepDown`, `Stop` and `StopWithContext`; every demotion cause goes
    through `stepDown` (`Start`: the goroutine that steps down when the caller's context ends the run); a promotion is refused while the instance already leads. -/
theorem shape :
    Gen.becomeFollowerCallers = ["kvElection.Start", "kvElection.attemptAcquireWithRetry", "kvElection.stepDown"] ∧
    Gen.onDemoteCallers = ["kvElection.Stop", "kvElection.StopWithContext", "kvElection.stepDown"] ∧
    Gen.stepDownCallers = ["disconnectHandler.handleGracePeriodExpired", "kvElection.Start", "kvElection.handleHealthCheckFailure",
      "kvElection.handleHeartbeatFailure", "kvElection.handleReconnectVerificationFailed", "kvElection.handleValidationFailure",
      "kvElection.handleWatchEvent"] ∧
    Gen.becomeLeaderRefusesWhenLeading = true ∧ Gen.roundChecksLeader = true := by decide

/-- The order in which the two callbacks *start* (the promotion callback runs in its own goroutine): the promotion
    goroutine signals that it is about to call OnPromote, and whoever ends the term — `becomeFollower`, `Stop`,
    `StopWithContext` — waits for that signal inside the critical section that clears the flag, before any OnDemote
    can be invoked.  Together with the dispatch order proved above this makes the model's event order the order an
    observer sees under real parallelism (checked by the stress mode). -/
theorem callback_start_order_shape : Gen.promoteSignalsStart = true ∧ Gen.termEndAwaitsPromoteStart = true := by decide


end NLE.Theorems.C08
