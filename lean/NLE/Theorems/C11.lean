import NLE.Model.Conn
import NLE.Theorems.C04
import NLE.Model.LockOrder
import NLE.Gen.Locks
/-!
# C11 — disconnect grace period: demote exactly when it elapses, verify on reconnect

Decision logic of `NLE/Model/Conn.lean` with the regenerated constants; the acceptor `Conn.step` ties it to
every trace: a demotion the model decides must show as a cleared flag at that very instant, the verification's
reads are followed read by read.  Absence of deadlock among the library's mutexes is the ranked lock order below
(`lock_order_ranked`, `no_mutex_deadlock`: regenerated table of every nested acquisition + the theorem of
`NLE/Model/LockOrder.lean`); crashes and waits that are not mutexes are left to the harness watchdog.
-/
namespace NLE.Theorems.C11
open NLE NLE.Conn

/-- The grace period is the configured one, or max(3 heartbeat intervals, 5 s) when it is 0. -/
theorem grace_doc (c : InstCfg) : grace c = if c.grace ≠ 0 then c.grace else max (3 * c.hb) 5000000000 := by
  simp [grace, Gen.graceDefaultMul, Gen.graceDefaultFloor]

/-- A disconnect notification received while leading arms the timer for exactly now + G, replacing any earlier one. -/
theorem disconnect_arms (x : Inst) (now : Nat) (hf : x.flag = true) :
    (onDisconnect x now).timerDue = some (now + grace x.cfg) := by simp [onDisconnect, hf]

/-- … and one received while not leading changes nothing. -/
theorem disconnect_not_leading (x : Inst) (now : Nat) (hf : x.flag = false) : onDisconnect x now = x := by
  simp [onDisconnect, hf]

/-- After any sequence of disconnect notifications received while leading (flapping without reconnect), the timer
    is due exactly G after the latest one: never earlier. -/
theorem due_after_latest_disconnect (x : Inst) (hf : x.flag = true) (ds : List Nat) (d : Nat) :
    ((ds ++ [d]).foldl onDisconnect x).timerDue = some (d + grace x.cfg) ∧
    ((ds ++ [d]).foldl onDisconnect x).flag = true ∧ ((ds ++ [d]).foldl onDisconnect x).cfg = x.cfg := by
  induction ds generalizing x with
  | nil => simp [onDisconnect, hf]
  | cons a as ih =>
    have h1 : (onDisconnect x a).flag = true := by simp [onDisconnect, hf]
    have h2 : (onDisconnect x a).cfg = x.cfg := by simp [onDisconnect, hf]
    have := ih (onDisconnect x a) h1
    simp only [List.cons_append, List.foldl_cons]
    rw [h2] at this
    exact this

/-- A reconnect notification cancels the timer (no grace demotion) and, while leading, starts the verification
    after the regenerated 100 ms settle time. -/
theorem reconnect_cancels (x : Inst) (now : Nat) :
    (onReconnect x now).timerDue = none ∧
    (x.flag = true → (onReconnect x now).verify = some (.settle (now + 100000000))) := by
  refine ⟨rfl, ?_⟩
  intro hf
  simp [onReconnect, Gen.reconnectSettle, hf]

/-- The grace mechanism decides to demote only when the timer fires, i.e. at its deadline `d` with `d ≤ t`, and it
    does so iff the instance still leads: never before G has elapsed, and exactly then. -/
theorem fire_spec (x : Inst) (t : Nat) (hnone : x.mustDemote = none) :
    ((fire x t).mustDemote = none ∨ ∃ d, x.timerDue = some d ∧ d ≤ t ∧ x.flag = true ∧ (fire x t).mustDemote = some d) ∧
    (∀ d, x.timerDue = some d → d ≤ t → x.flag = true → (fire x t).mustDemote = some d) := by
  unfold fire
  cases hd : x.timerDue with
  | none => simp [hnone]
  | some d =>
    by_cases hle : d ≤ t
    · cases hf : x.flag <;> simp [hle, onExpiry, hf, hnone]
    · simp [hle, hnone]

/-- After a reconnect the leader keeps leadership iff the verification's read shows its own identity and token:
    the verdict of the validation read is positive exactly when the record's JSON object carries a string `id`
    equal to the instance id and a string `token` equal to the instance's (non-empty) token. -/
theorem verify_verdict_iff (x : Inst) (tok : Nat) (r : Ret) :
    verifyVerdict x tok r = true ↔
      tok ≠ 0 ∧ ∃ rev v, r = .ok rev (some v) ∧ (mapViewOf v).ok = true ∧
        (mapViewOf v).token = .str tok ∧ (mapViewOf v).id = .str x.cfg.id := by
  unfold verifyVerdict
  cases r with
  | err k => simp
  | ok rev ov =>
    cases ov with
    | none => simp
    | some v =>
      rw [C04.validate_iff]
      constructor
      · rintro ⟨h1, _, _, w, hw, hok, ht, hi⟩
        cases hw
        exact ⟨h1, rev, v, rfl, hok, ht, hi⟩
      · rintro ⟨h1, rev', v', hr, hok, ht, hi⟩
        cases hr
        exact ⟨h1, rfl, rfl, _, rfl, hok, ht, hi⟩

/-- Non-vacuity: leader with the default grace period for H = 1 s, disconnect at t = 10 s: the timer is due at 15 s;
    at 14.9 s nothing is decided, at 15 s the model demotes. -/
def sampleCfg : InstCfg := { id := 1, key := "g", prio := 0, takeover := false, hb := 1000000000, ttl := 3000000000, val := 0,
                             grace := 0, maxFail := 0, hasHealth := false, connMon := true, storeTTL := 3000000000, callbacks := true }
example :
    let x := onDisconnect { cfg := sampleCfg, flag := true } 10000000000
    x.timerDue = some 15000000000 ∧ (fire x 14900000000).mustDemote = none ∧ (fire x 15000000000).mustDemote = some 15000000000 := by
  decide

/-! ## No deadlock among the library's mutexes -/

/-- Rank of the library's mutexes, by owning struct: the disconnect handler's first, then the election's, then the
    connection monitor's. -/
def muRank : String → Nat
  | "disconnectHandler" => 0
  | "kvElection" => 1
  | "natsConnectionMonitor" => 2
  | _ => 3

/-- Every mutex acquisition that the code can reach while another mutex of the library may be held (all paths, all call
    sites, deferred functions included; regenerated table) requests a strictly higher-ranked mutex — in particular no
    mutex is ever requested by a goroutine that may hold it. -/
theorem lock_order_ranked : Gen.lockOrder.all (fun e => decide (muRank e.1 < muRank e.2.1)) = true := by decide +kernel

/-- The nested acquisitions as they stand: the grace-timer handler reads the election's run context under its own mutex;
    `Start` wires the connection monitor under the election's mutex. -/
theorem lock_order_pairs :
    (Gen.lockOrder.map fun e => (e.1, e.2.1, e.2.2.1)) =
      [("disconnectHandler", "kvElection", "kvElection.runContext"),
       ("kvElection", "natsConnectionMonitor", "natsConnectionMonitor.OnDisconnect"),
       ("kvElection", "natsConnectionMonitor", "natsConnectionMonitor.OnReconnect"),
       ("kvElection", "natsConnectionMonitor", "natsConnectionMonitor.Start")] := by decide +kernel

/-- Hence no deadlock among these mutexes: in every snapshot of goroutines whose (held, requested) pairs all come from
    the table, nobody waits — directly or through others — for itself. -/
theorem no_mutex_deadlock (s : LockOrder.Snap) (name : Nat → String)
    (htable : ∀ g m, s.wants g = some m → ∀ h, h ∈ s.holds g → ∃ e ∈ Gen.lockOrder, e.1 = name h ∧ e.2.1 = name m) :
    ¬ ∃ g, LockOrder.Chain s g g := by
  apply LockOrder.no_deadlock (rank := fun m => muRank (name m))
  intro g m hw h hh
  obtain ⟨e, he, h1, h2⟩ := htable g m hw h hh
  have := List.all_eq_true.mp lock_order_ranked e he
  simp only [decide_eq_true_eq] at this
  rw [h1, h2] at this
  exact this

/-- The blocking waits that the code can reach while a mutex may be held (channel receives, selects without default,
    WaitGroup waits, store operations, sleeps, application callbacks): the wait for the promotion goroutine's start
    signal (which that goroutine gives before it takes any lock: C08 `callback_start_order_shape`) and the connection
    monitor's wait for its own (empty) wait group.  No store operation, sleep or application callback under a mutex. -/
theorem waits_under_lock :
    (Gen.lockWaits.map fun w => (w.1, w.2.1, w.2.2.1, w.2.2.2.1)) =
      [("chan", "e.promoteStarted", "kvElection", "kvElection.awaitPromoteStarted"),
       ("wg.Wait", "m.wg", "natsConnectionMonitor", "natsConnectionMonitor.Stop")] := by decide +kernel

end NLE.Theorems.C11
