import NLE.Proofs.OwnInv
import NLE.Gen.Shape
import NLE.Theorems.C03
import NLE.Theorems.C04
/-!
# C13 — arbitrary record contents and outside interference never crash, hang or promote

* Termination: one acquisition attempt issues at most three store operations (Create, Get, Update) whatever the
  record holds — the attempt is a straight-line decision, and the regenerated call graph shows that neither
  `attemptAcquire` nor `attemptPriorityTakeover` can reach itself.  Every retry is paced by a timer (round jitter and
  backoff: C17; periodic check: 500 ms).  On the implementation, panics, stack overflows, hangs and store
  hammering are detected by the harness (process exit status, watchdog, `C13/store-hammering`, `C13/panic`).
* Claim: the flag is raised only with the token of an acquiring write of the same instance that the store applied
  and acknowledged — whatever bytes the record held before and whoever rewrote it in between.
* A leader whose record was tampered with: its refresh is refused (permanent error, C03) and `ValidateToken` is
  negative (C04).
-/
namespace NLE.Theorems.C13
open NLE NLE.Own

/-- Store operations of one `attemptAcquire` call as a function of the answers it gets: `Create`; if that fails and
    takeover is enabled (priority > 0): `Get`; if the record parses and its priority is strictly lower: `Update`. -/
def attemptOps (takeover : Bool) (createOk : Bool) (getRes : Option Val) (prio : Int) : List OpKind :=
  if createOk then [.create]
  else if !takeover then [.create]
  else match getRes with
    | none => [.create, .get]
    | some v => if outranks prio v then [.create, .get, .update] else [.create, .get]

/-- At most three store operations per attempt, for every record value (any bytes, as read by both decoders). -/
theorem attempt_at_most_three_ops (takeover createOk : Bool) (getRes : Option Val) (prio : Int) :
    (attemptOps takeover createOk getRes prio).length ≤ 3 := by
  unfold attemptOps
  repeat' split
  all_goals simp

/-- An unparsable record (struct decoder fails) is never preempted and never makes the attempt loop. -/
theorem unparsable_record_no_update (prio : Int) (v : View) (h : v.structOk = false) :
    attemptOps true false (some (.raw v)) prio = [.create, .get] := by
  simp [attemptOps, outranks, storedPrio, Val.structView, h]

/-- The acquisition path cannot reach itself (regenerated call graph): `attemptAcquire` is called only by `Start`, a
    retry round and the watcher's takeover goroutine; `attemptPriorityTakeover` only by `attemptAcquire`; `Create` only
    by `attemptAcquire`; `Update` only by the takeover path and the heartbeat loop. -/
theorem no_recursion_in_acquisition :
    Gen.attemptAcquireCallers = ["kvElection.Start", "kvElection.attemptAcquireWithRetry", "kvElection.handleWatchEvent"] ∧
    Gen.attemptPriorityTakeoverCallers = ["kvElection.attemptAcquire"] ∧
    Gen.kvCreateCallers = ["kvElection.attemptAcquire"] ∧
    Gen.kvUpdateCallers = ["kvElection.attemptPriorityTakeover", "kvElection.heartbeatLoop"] := by decide

/-- Claim clause: whenever the model raises the flag of an instance with token `tok` (a new term), that instance
    has an acknowledged acquiring write with exactly that token; in every reachable state a claiming instance's
    token is the token of a record it wrote itself. -/
theorem flag_needs_own_acknowledged_write {s s' : State} {i tok : Nat} {x : Inst} (hx : s.insts i = some x)
    (hnew : x.lead ≠ some tok) (h : stepFlag s i true tok = .ok s') : ∃ rev, (tok, rev) ∈ x.acked := by
  unfold stepFlag at h
  rw [hx] at h
  simp only [if_true] at h
  split at h
  · rename_i hl; exact absurd hl hnew
  · split at h
    · rename_i tk rev hfind
      have hmem := List.mem_of_find?_eq_some hfind
      have : tk = tok := by simpa using List.find?_some hfind
      subst this
      exact ⟨rev, hmem⟩
    · cases h

theorem claim_backed_by_own_write {evs : List TEv} {s : State} (h : run {} evs = .ok s)
    (i : Nat) (x : Inst) (tok : Nat) (hx : s.insts i = some x) (hl : x.lead = some tok) :
    OwnWrite s i x.cfg.key x.hbRev tok :=
  (reachable_inv h).leadOwn i x tok hx hl

/-- A leader whose record was overwritten or deleted by an outside party: its next refresh is refused with a
    permanent error (so it demotes at once, C03) and `ValidateToken` is negative for any record that does not carry
    its id and token (C04). -/
theorem tampered_leader_is_demoted :
    HB.outcomeOf (.err .wrongseq) = .permanent ∧ HB.outcomeOf (.err .notfound) = .permanent ∧
    (∀ c : Validate.Call, (∃ v, c.get = .entry v ∧ (v.ok = false ∨ v.token ≠ .str c.localTok ∨ v.id ≠ .str c.me)) →
      Validate.validateToken c = false) :=
  ⟨C03.refused_refresh_is_permanent.1, C03.refused_refresh_is_permanent.2,
   fun c h => C04.failsafe c (Or.inr (Or.inr (Or.inr (Or.inr (Or.inr h)))))⟩

end NLE.Theorems.C13
