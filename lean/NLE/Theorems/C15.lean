import NLE.Model.Classify
import NLE.Gen.Patterns
/-!
# C15 — error classification is total, exclusive and faithful to the NATS client

`Gen.permanentSteps` / `Gen.transientSteps` are regenerated from `leader/error.go` on every
run.  All theorems quantify over every error value of the algebra `Classify.Err`
(arbitrary texts, arbitrary nesting of `%w` wrapping and of the library's error types).
-/
namespace NLE.Theorems.C15
open NLE NLE.Classify NLE.Text

/-- `IsPermanentError` -/
def isPermanent (e : Option Err) : Bool := classify (fun _ => false) Gen.permanentSteps e
/-- `IsTransientError` (its nested call of `IsPermanentError` is the function above). -/
def isTransient (e : Option Err) : Bool := classify (fun x => isPermanent (some x)) Gen.transientSteps e

/-- The chain of `e` contains a context error or a `TimeoutError`. -/
def ctxOrTimeout (e : Err) : Bool :=
  e.is "context.Canceled" || e.is "context.DeadlineExceeded" || e.asTimeout

/-- nil is neither permanent nor transient. -/
theorem nil_neither : isPermanent none = false ∧ isTransient none = false := by decide

/-- Never both. -/
theorem exclusive (e : Option Err) : ¬ (isPermanent e = true ∧ isTransient e = true) := by
  cases e with
  | none => decide
  | some e =>
    intro ⟨hp, ht⟩
    simp [isTransient, classify, Gen.transientSteps, runSteps, hp] at ht

/-- Every non-nil error is one of the two. -/
theorem total (e : Err) : isPermanent (some e) = true ∨ isTransient (some e) = true := by
  cases hp : isPermanent (some e) with
  | true => exact Or.inl rfl
  | false =>
    right
    simp only [isTransient, classify, Gen.transientSteps, runSteps, hp]
    simp
    repeat' split
    all_goals rfl

/-- Hence: exactly one. -/
theorem exactly_one (e : Err) : isPermanent (some e) = !isTransient (some e) := by
  have h1 := exclusive (some e)
  have h2 := total e
  cases hp : isPermanent (some e) <;> cases ht : isTransient (some e) <;> simp_all

/-- Context cancellation, deadline expiry and `TimeoutError` are transient at any nesting depth of
    `%w` (and inside the library's own error types). -/
theorem ctx_timeout_transient (e : Err) (h : ctxOrTimeout e = true) :
    isPermanent (some e) = false ∧ isTransient (some e) = true := by
  have hp : isPermanent (some e) = false := by
    simp only [ctxOrTimeout, Bool.or_eq_true] at h
    simp only [isPermanent, classify, Gen.permanentSteps, runSteps]
    rcases h with (h | h) | h <;> simp [h]
  refine ⟨hp, ?_⟩
  have := total e
  simpa [hp] using this

/-- Configuration, permission and missing-bucket sentinels are permanent, also when wrapped, as long
    as the chain holds no context error / time-out (for chains holding both kinds the two "also when
    wrapped" clauses of the property contradict each other; the code lets the context error win). -/
theorem config_perm_bucket_permanent (e : Err) (h0 : ctxOrTimeout e = false)
    (h : e.is "ErrInvalidConfig" = true ∨ e.is "ErrPermissionDenied" = true ∨ e.is "ErrBucketNotFound" = true) :
    isPermanent (some e) = true := by
  simp only [ctxOrTimeout, Bool.or_eq_false_iff] at h0
  obtain ⟨⟨h1, h2⟩, h3⟩ := h0
  simp only [isPermanent, classify, Gen.permanentSteps, runSteps, h1, h2, h3]
  rcases h with h | h | h <;> simp [h]

theorem lower_invalid : lower "invalid".toList = "invalid".toList := by decide
theorem wls_split : "wrong last sequence: ".toList = "wrong last sequence".toList ++ ": ".toList := by decide
theorem lower_wls : lower "wrong last sequence".toList = "wrong last sequence".toList := by decide

/-- A `ValidationError` (what the constructor returns for a bad configuration) is permanent. -/
theorem validation_error_permanent (f r : List Char) (v : Option (List Char)) : isPermanent (some (.validation0 f v r)) = true := by
  have hm : matchesCI (Err.text (.validation0 f v r)) "invalid" = true := by
    have hs : kInvalidCfg = "invalid".toList ++ " configuration: field ".toList := by decide
    have : Err.text (.validation0 f v r) =
        [] ++ ("invalid".toList ++ (" configuration: field ".toList ++ (f ++ (optVal v ++ optPart kColon r)))) := by
      simp only [Err.text, hs, List.append_assoc, List.nil_append]
    unfold matchesCI
    rw [this, lower_append, lower_append, lower_invalid]
    exact containsSub_mid _ _ _
  simp [isPermanent, classify, Gen.permanentSteps, runSteps, Err.is, Err.asTimeout, hm]

/-- Any error whose text contains the NATS client's "wrong last sequence" and whose chain holds no
    context error / time-out is permanent. -/
theorem wrong_last_sequence_permanent (e : Err) (a b : List Char)
    (ht : e.text = a ++ ("wrong last sequence".toList ++ b)) (h0 : ctxOrTimeout e = false) :
    isPermanent (some e) = true := by
  simp only [ctxOrTimeout, Bool.or_eq_false_iff] at h0
  obtain ⟨⟨h1, h2⟩, h3⟩ := h0
  have hm : matchesCI e.text "wrong last sequence" = true := by
    unfold matchesCI
    rw [ht, lower_append, lower_append, lower_wls]
    exact containsSub_mid _ _ _
  simp [isPermanent, classify, Gen.permanentSteps, runSteps, h1, h2, h3, hm]

/-- The error nats.go returns for a failed revision-checked `Update` (API error 10071,
    "nats: wrong last sequence: N"), for every N. -/
theorem nats_update_conflict_permanent (n : List Char) :
    isPermanent (some (.api 10071 ("wrong last sequence: ".toList ++ n))) = true := by
  apply wrong_last_sequence_permanent _ kNats (": ".toList ++ n)
  · simp only [Err.text, wls_split, List.append_assoc]
  · simp [ctxOrTimeout, Err.is, Err.asTimeout]

/-- The error nats.go returns for `Create` on an existing key:
    `fmt.Errorf("%w: %s", apiErr, "key exists")`, for every N. -/
theorem nats_create_exists_permanent (n : List Char) :
    isPermanent (some (.wrap [] ": key exists".toList (.api 10071 ("wrong last sequence: ".toList ++ n)))) = true := by
  apply wrong_last_sequence_permanent _ kNats (": ".toList ++ n ++ ": key exists".toList)
  · simp only [Err.text, wls_split, List.append_assoc, List.nil_append]
  · simp [ctxOrTimeout, Err.is, Err.asTimeout]

/-- The mock store's and reference texts for the same conflict. -/
theorem revision_mismatch_permanent :
    isPermanent (some (.leaf "revision mismatch".toList [])) = true := by decide

/-- nats.go's time-out, no-responders and connection-closed errors are transient. -/
theorem nats_transient :
    isTransient (some (.leaf "nats: timeout".toList ["nats.ErrTimeout"])) = true ∧
    isTransient (some (.leaf "nats: no responders available for request".toList ["nats.ErrNoResponders"])) = true ∧
    isTransient (some (.leaf "nats: connection closed".toList ["nats.ErrConnectionClosed"])) = true := by
  decide

/-- The client's permission errors, its missing-bucket error and its key-exists sentinel are permanent, bare and
    wrapped with `%w` (texts as in nats.go). -/
theorem nats_permission_bucket_exists_permanent :
    isPermanent (some (.leaf "nats: permissions violation".toList [])) = true ∧
    isPermanent (some (.leaf "nats: authorization violation".toList [])) = true ∧
    isPermanent (some (.leaf "nats: authentication expired".toList [])) = true ∧
    isPermanent (some (.leaf "nats: authentication revoked".toList [])) = true ∧
    isPermanent (some (.leaf "nats: bucket not found".toList [])) = true ∧
    isPermanent (some (.leaf "nats: key exists".toList ["nats.ErrKeyExists"])) = true ∧
    isPermanent (some (.wrap "kv: ".toList [] (.leaf "nats: permissions violation".toList []))) = true ∧
    isPermanent (some (.wrap "create: ".toList [] (.leaf "nats: key exists".toList ["nats.ErrKeyExists"]))) = true := by
  decide

/-- The heartbeat's own time-out error (what `heartbeatLoop` builds) is transient. -/
theorem heartbeat_timeout_transient (d : List Char) :
    isTransient (some (.timeout0 "heartbeat update".toList d)) = true :=
  (ctx_timeout_transient _ (by simp [ctxOrTimeout, Err.asTimeout])).2

/-- Non-vacuity: a deeply wrapped `TimeoutError` whose text contains a permanent pattern satisfies
    the hypothesis of `ctx_timeout_transient` (this is the input that the pinned tree got wrong). -/
example : ctxOrTimeout (.wrap "ctx: ".toList [] (.timeout1 "op".toList "1s".toList (.leaf "key not found".toList []))) = true := by
  decide
example : ctxOrTimeout (.wrap "x: ".toList [] (.leaf "invalid config".toList ["ErrInvalidConfig"])) = false ∧
    Err.is "ErrInvalidConfig" (.wrap "x: ".toList [] (.leaf "invalid config".toList ["ErrInvalidConfig"])) = true := by decide

end NLE.Theorems.C15
