import NLE.Gen.Locks
import NLE.Model.LockSem
/-!
# C20 — the public API is free of data races (lock discipline)

`NLE/Gen/Locks.lean` is regenerated from the source on every run: every syntactic access to a field of the three
structs that carry the library's shared state (`kvElection`, `disconnectHandler`, `natsConnectionMonitor`), with the
mutexes certainly held there (must-hold analysis inside each function, entry locksets propagated over the package's
call graph, goroutine and callback bodies starting with nothing held).  Fields of `sync` / `sync/atomic` types and fields
never written after construction are race-free by themselves; the theorems below are about the remaining, mutable
fields.

* `LockSem.conflicting_accesses_ordered` (proved for every execution of a reader/writer mutex): two accesses by
  different goroutines that both hold the mutex, at least one exclusively, are separated by a release of the one and
  an acquisition by the other — the happens-before edge of the Go memory model.
* `writes_exclusive`, `reads_locked`: on the current tree every write of a mutable field holds its struct's mutex
  exclusively and every read holds it at least shared — except reads of the election context `kvElection.ctx`.
* `ctx_unlocked_readers`: the functions that read `kvElection.ctx` without the mutex are exactly the listed ones, all of
  them bodies of goroutines of a run (tracked by the election's WaitGroup, started after `Start` wrote the field and
  joined before `StopWithContext` clears it) or connection callbacks that return early unless the instance leads.
  For those the ordering is by construction (go statement, WaitGroup), not by the mutex: assumption A-run-hb of
  DESIGN.md, which does not cover a `Start` that follows a stop call that gave up waiting (partial).
The search side is the concurrent API driver under the Go race detector (`harness/race_mode.go`).
-/
namespace NLE.Theorems.C20
open NLE

/-- Every write of a mutable field holds the owning struct's mutex exclusively. -/
theorem writes_exclusive : (Gen.lockAccesses.all fun a => !a.write || a.held == 2) = true := by decide +kernel

/-- Every read of a mutable field other than the election context holds the owning struct's mutex. -/
theorem reads_locked :
    (Gen.lockAccesses.all fun a => a.write || (a.struct == "kvElection" && a.field == "ctx") || decide (a.held ≥ 1)) = true := by
  decide +kernel

/-- The functions that read the election context without the mutex. -/
def ctxUnlockedReaders : List String :=
  ((Gen.lockAccesses.filter fun a => a.struct == "kvElection" && a.field == "ctx" && a.held == 0).map (·.fn)).eraseDups

theorem ctx_unlocked_readers : ctxUnlockedReaders =
    ["disconnectHandler.handleDisconnect", "disconnectHandler.handleGracePeriodExpired",
     "kvElection.handleReconnectVerificationFailed", "kvElection.handleValidationFailure",
     "kvElection.handleHeartbeatFailure", "kvElection.handleHealthCheckFailure", "kvElection.attemptAcquire",
     "kvElection.becomeLeader", "kvElection.attemptPriorityTakeover", "kvElection.becomeFollower", "kvElection.stepDown",
     "kvElection.handleWatchEvent"] := by decide +kernel

/-- No method of the public API is among them: API callers always take the mutex to look at the context. -/
theorem api_reads_ctx_locked :
    (Gen.lockAccesses.all fun a => !(a.struct == "kvElection" && a.field == "ctx" && a.held == 0) ||
      !(["kvElection.Start", "kvElection.Stop", "kvElection.StopWithContext", "kvElection.IsLeader", "kvElection.LeaderID",
         "kvElection.Token", "kvElection.Status", "kvElection.ValidateToken", "kvElection.ValidateTokenOrDemote",
         "kvElection.OnPromote", "kvElection.OnDemote", "kvElection.handleReconnect"].contains a.fn)) = true := by decide +kernel

/-- The fields the discipline is about (everything else is a sync type or immutable after construction). -/
theorem mutable_fields : (Gen.lockFields.filter (·.2.2 == "mutable")).map (fun x => (x.1, x.2.1)) =
    [("kvElection", "cancel"), ("kvElection", "ctx"), ("kvElection", "onDemote"), ("kvElection", "onPromote"),
     ("kvElection", "stopped"), ("kvElection", "stopping"), ("kvElection", "termCancel"),
     ("disconnectHandler", "disconnectedAt"), ("disconnectHandler", "timer"),
     ("natsConnectionMonitor", "cancel"), ("natsConnectionMonitor", "ctx"), ("natsConnectionMonitor", "disconnectHandler"),
     ("natsConnectionMonitor", "reconnectHandler")] := by decide +kernel

/-- Conflicting pairs: any two accesses to the same mutable field other than the election context, at least one of
    them a write, both hold the struct's mutex and the writer holds it exclusively — the hypotheses of
    `LockSem.conflicting_accesses_ordered`. -/
theorem conflicting_pairs_protected (a b : Gen.LockAccess) (ha : a ∈ Gen.lockAccesses) (hb : b ∈ Gen.lockAccesses)
    (hsame : a.struct = b.struct ∧ a.field = b.field) (hctx : ¬ (a.struct = "kvElection" ∧ a.field = "ctx"))
    (hw : a.write = true ∨ b.write = true) :
    a.held ≥ 1 ∧ b.held ≥ 1 ∧ ((a.write = true ∧ a.held = 2) ∨ (b.write = true ∧ b.held = 2)) := by
  have W := List.all_eq_true.mp writes_exclusive
  have R := List.all_eq_true.mp reads_locked
  have held_of (c : Gen.LockAccess) (hc : c ∈ Gen.lockAccesses) (hcx : ¬ (c.struct = "kvElection" ∧ c.field = "ctx")) : c.held ≥ 1 := by
    have w := W c hc
    have r := R c hc
    cases hcw : c.write with
    | true => simp [hcw] at w; omega
    | false =>
      simp only [hcw, Bool.false_or, Bool.or_eq_true, Bool.and_eq_true, beq_iff_eq, decide_eq_true_eq] at r
      rcases r with r | r
      · exact absurd r hcx
      · exact r
  have hbx : ¬ (b.struct = "kvElection" ∧ b.field = "ctx") := by rw [← hsame.1, ← hsame.2]; exact hctx
  refine ⟨held_of a ha hctx, held_of b hb hbx, ?_⟩
  rcases hw with h | h
  · have w := W a ha; simp [h] at w; exact Or.inl ⟨h, w⟩
  · have w := W b hb; simp [h] at w; exact Or.inr ⟨h, w⟩

/-- The ordering lemma the discipline rests on, restated here (for every execution of the mutex). -/
theorem mutex_orders_conflicting_accesses {s1 s2 : LockSem.LS} {g1 g2 : Nat} (inv : LockSem.Inv s1) (mid : List LockSem.Ev)
    (hrun : LockSem.run s1 mid = some s2) (h1 : LockSem.holds s1 g1) (h2 : LockSem.holds s2 g2) (hne : g1 ≠ g2)
    (hex : LockSem.holdsW s1 g1 ∨ LockSem.holdsW s2 g2) :
    ∃ a r b q c, mid = a ++ r :: (b ++ q :: c) ∧ LockSem.isRelBy g1 r ∧ LockSem.isAcqBy g2 q :=
  LockSem.conflicting_accesses_ordered inv mid hrun h1 h2 hne hex

/-! Non-vacuity of the ordering lemma: writer 1, then reader 2. -/
example : LockSem.run {} [.acqW 1, .acc 1 true, .relW 1, .acqR 2, .acc 2 false] = some { writer := none, readers := [2] } := by decide
/-- Without the release the second goroutine cannot get in. -/
example : LockSem.run {} [.acqW 1, .acc 1 true, .acqR 2] = none := by decide

end NLE.Theorems.C20
