import NLE.Gen.Shape
import NLE.Gen.Locks
import NLE.Model.LockSem
/-!
# C20 — the public API is free of data races (lock discipline)

`NLE/Gen/Locks.lean` is regenerated from the source on every run: every syntactic access to a field of the three
structs that carry the library's shared state (`kvElection`, `disconnectHandler`, `natsConnectionMonitor`), with the
mutexes certainly held there (must-hold analysis inside each function, entry locksets propagated over the package's
call graph, goroutine and callback bodies starting with nothing held).  Fields of `sync` / `sync/atomic` types and fields
never written after construction are race-free by themselves; the theorems below are about the remaining, mutable
fields.

* `LockSem.conflicting_accesses_ordered` (proved for every execution of a reader/writer mutex): two accesses by
  different goroutines that both hold the mutex, at least one exclusively, are separated by a release of the one and
  an acquisition by the other — the happens-before edge of the Go memory model.
* `writes_exclusive`, `reads_locked`: on the current tree every write of a mutable field holds its struct's mutex
  exclusively and every read holds it at least shared; `ctx_unlocked_readers`: no function reads the election context
  without the mutex (before the repair of finding R4 twelve functions did: goroutines of an earlier run raced with the
  `Start` that follows a stop call which gave up waiting).
The search side is the concurrent API driver under the Go race detector (`harness/race_mode.go`).
-/
namespace NLE.Theorems.C20
open NLE

/-- Every write of a mutable field holds the owning struct's mutex exclusively. -/
theorem writes_exclusive : (Gen.lockAccesses.all fun a => !a.write || a.held == 2) = true := by decide +kernel

/-- Every read of a mutable field holds the owning struct's mutex (shared or exclusive). -/
theorem reads_locked : (Gen.lockAccesses.all fun a => a.write || decide (a.held ≥ 1)) = true := by decide +kernel

/-- In particular no function reads the election context `kvElection.ctx` without the mutex (goroutines of a run get the
    context as a parameter or through the locked accessor `runContext`). -/
theorem ctx_unlocked_readers :
    ((Gen.lockAccesses.filter fun a => a.struct == "kvElection" && a.field == "ctx" && a.held == 0).map (·.fn)) = [] := by
  decide +kernel

/-- The fields the discipline is about (everything else is a sync type or immutable after construction). -/
theorem mutable_fields : (Gen.lockFields.filter (·.2.2 == "mutable")).map (fun x => (x.1, x.2.1)) =
    [("kvElection", "cancel"), ("kvElection", "ctx"), ("kvElection", "onDemote"), ("kvElection", "onPromote"),
     ("kvElection", "promoteStarted"), ("kvElection", "stopped"), ("kvElection", "stopping"), ("kvElection", "termCancel"),
     ("kvElection", "windingDown"),
     ("disconnectHandler", "disconnectedAt"), ("disconnectHandler", "timer"),
     ("natsConnectionMonitor", "cancel"), ("natsConnectionMonitor", "ctx"), ("natsConnectionMonitor", "disconnectHandler"),
     ("natsConnectionMonitor", "reconnectHandler")] := by decide +kernel

/-- Conflicting pairs: any two accesses to the same mutable field, at least one of them a write, both hold the struct's
    mutex and the writer holds it exclusively — the hypotheses of `LockSem.conflicting_accesses_ordered`. -/
theorem conflicting_pairs_protected (a b : Gen.LockAccess) (ha : a ∈ Gen.lockAccesses) (hb : b ∈ Gen.lockAccesses)
    (hw : a.write = true ∨ b.write = true) :
    a.held ≥ 1 ∧ b.held ≥ 1 ∧ ((a.write = true ∧ a.held = 2) ∨ (b.write = true ∧ b.held = 2)) := by
  have W := List.all_eq_true.mp writes_exclusive
  have R := List.all_eq_true.mp reads_locked
  have held_of (c : Gen.LockAccess) (hc : c ∈ Gen.lockAccesses) : c.held ≥ 1 := by
    have w := W c hc
    have r := R c hc
    cases hcw : c.write with
    | true => simp [hcw] at w; omega
    | false => simpa [hcw] using r
  refine ⟨held_of a ha, held_of b hb, ?_⟩
  rcases hw with h | h
  · have w := W a ha; simp [h] at w; exact Or.inl ⟨h, w⟩
  · have w := W b hb; simp [h] at w; exact Or.inr ⟨h, w⟩

/-- The ordering lemma the discipline rests on, restated here (for every execution of the mutex). -/
theorem mutex_orders_conflicting_accesses {s1 s2 : LockSem.LS} {g1 g2 : Nat} (inv : LockSem.Inv s1) (mid : List LockSem.Ev)
    (hrun : LockSem.run s1 mid = some s2) (h1 : LockSem.holds s1 g1) (h2 : LockSem.holds s2 g2) (hne : g1 ≠ g2)
    (hex : LockSem.holdsW s1 g1 ∨ LockSem.holdsW s2 g2) :
    ∃ a r b q c, mid = a ++ r :: (b ++ q :: c) ∧ LockSem.isRelBy g1 r ∧ LockSem.isAcqBy g2 q :=
  LockSem.conflicting_accesses_ordered inv mid hrun h1 h2 hne hex

/-- Shared memory that is not a field of the three structs: no goroutine started by a `go` statement assigns a variable
    of the function that started it (results come back over channels).  Regenerated from the source on every run. -/
theorem no_closure_writes_to_outer_variables : Gen.goClosureOuterWrites = [] := by decide +kernel

/-- The election's WaitGroup: `Add` must be ordered with the `Wait` of a stop call (an `Add` from zero that races a `Wait`
    is a misuse the race detector reports).  Every `Add` is made with the election's mutex held exclusively - the stop
    call's critical section, which ends the run, comes before its `Wait` - except in the two functions that run on the
    watch loop's goroutine, which the WaitGroup already counts.  Regenerated from the source on every run. -/
theorem waitgroup_adds_ordered_with_stop :
    (Gen.wgAdds.all fun a => a.2.2.1 == 2 || a.2.1 == "kvElection.checkKeyAndReelect" || a.2.1 == "kvElection.handleWatchEvent") = true ∧
    (Gen.wgAdds.map (·.2.1)).contains "kvElection.handleReconnect" = true := by decide +kernel

/-! Non-vacuity of the ordering lemma: writer 1, then reader 2. -/
example : LockSem.run {} [.acqW 1, .acc 1 true, .relW 1, .acqR 2, .acc 2 false] = some { writer := none, readers := [2] } := by decide
/-- Without the release the second goroutine cannot get in. -/
example : LockSem.run {} [.acqW 1, .acc 1 true, .acqR 2] = none := by decide

end NLE.Theorems.C20
