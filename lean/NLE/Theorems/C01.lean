import NLE.Proofs.OwnInv
import NLE.Gen.Shape
/-!
# C01 — the leadership record is changed only by its owner or a legitimate successor

Model: `NLE/Model/Own.lean` (tied to the code by trace acceptance on every run).  The theorems
quantify over every event sequence the model accepts: any number of instances and groups, any
interleaving of issue / application / answer of store operations, lost acknowledgements, faults,
outside writers, expiry, stops and restarts.
-/
namespace NLE.Theorems.C01
open NLE NLE.Own

/-- Every successful creation or update of a record by an instance is legitimate: creation while no
    live record exists; a refresh by the writer of the previous version, against exactly that revision,
    republishing the same identity and fencing token; or a revision-checked replacement by an instance
    with takeover enabled whose priority is strictly greater than the one stored in the replaced record.
    And it is on the instance's own group's key. -/
theorem writes_legit {evs : List TEv} {s : State} (h : run {} evs = .ok s) :
    ∀ m ∈ s.hist, m.who ≠ 0 → ∃ x, s.insts m.who = some x ∧ Legit x.cfg m :=
  (reachable_inv h).histLegit

/-- Elections for different groups in one bucket never touch each other's records (any kind of change,
    deletions included). -/
theorem own_group_only {evs : List TEv} {s : State} (h : run {} evs = .ok s) :
    ∀ m ∈ s.hist, m.who ≠ 0 → ∃ x, s.insts m.who = some x ∧ m.key = x.cfg.key := by
  intro m hm hw
  obtain ⟨x, hx, hl⟩ := writes_legit h m hm hw
  exact ⟨x, hx, hl.1⟩

/-- No instance overwrites or refreshes a record that another instance owns, other than by legitimate
    preemption: if the replaced version was written by somebody else, the change is a takeover by an
    instance with takeover enabled and strictly higher priority (this is also C10's safety clause). -/
theorem foreign_record_only_by_takeover {evs : List TEv} {s : State} (h : run {} evs = .ok s)
    (m : Mut) (hm : m ∈ s.hist) (hw : m.who ≠ 0) (old : Rec) (hb : m.before = some old) (hforeign : old.writer ≠ m.who)
    (hk : m.kind = .create ∨ m.kind = .refresh ∨ m.kind = .takeover) :
    ∃ x, s.insts m.who = some x ∧ x.cfg.takeover = true ∧ outranks x.cfg.prio old.val = true ∧ old.rev = m.exp := by
  obtain ⟨x, hx, _, hl⟩ := writes_legit h m hm hw
  have hid := (reachable_inv h).idOK m.who x hx
  rcases hk with hk | hk | hk <;> rw [hk] at hl <;> dsimp only at hl
  · rw [hl.1] at hb; cases hb
  · obtain ⟨old', _, _, _, hb', _, hwr, _⟩ := hl
    rw [hb'] at hb; cases hb
    exact absurd (hwr.trans hid) hforeign
  · obtain ⟨old', _, _, hb', hexp, htk, hout, _⟩ := hl
    rw [hb'] at hb; cases hb
    exact ⟨x, hx, htk, hout, hexp⟩

/-- A refresh presents exactly the revision of the version it replaces, which the refreshing instance
    wrote itself with the same token. -/
theorem refresh_same_token {evs : List TEv} {s : State} (h : run {} evs = .ok s)
    (m : Mut) (hm : m ∈ s.hist) (hw : m.who ≠ 0) (hk : m.kind = .refresh) :
    ∃ old r tok p p', m.before = some old ∧ m.after = some r ∧ old.rev = m.exp ∧ old.writer = m.who ∧
      old.val = .own m.who tok p ∧ r.val = .own m.who tok p' := by
  obtain ⟨x, hx, _, hl⟩ := writes_legit h m hm hw
  have hid := (reachable_inv h).idOK m.who x hx
  rw [hk] at hl; dsimp only at hl
  obtain ⟨old, tok, p, r, hb, hexp, hwr, hov, ha, hrv⟩ := hl
  exact ⟨old, r, tok, p, x.cfg.prio, hb, ha, hexp, hwr.trans hid, by rw [hov, hid], by rw [hrv, hid]⟩

/-! ### Deletion (known finding F10)

The model — like the code — lets `StopWithContext{DeleteKey}` delete the key unconditionally.  The
following execution of the model deletes the live record of another instance: instance 1 (priority 1)
leads, instance 2 (priority 2, takeover) preempts it, and instance 1's graceful shutdown, begun before it
noticed, deletes instance 2's record. -/

def cfg1 : InstCfg := { id := 1, key := "g", prio := 1, takeover := false, hb := 1000000000, ttl := 3000000000, val := 0,
                        grace := 0, maxFail := 0, hasHealth := false, connMon := false, storeTTL := 3000000000, callbacks := true }
def cfg2 : InstCfg := { cfg1 with id := 2, prio := 2, takeover := true }

def f10Trace : List TEv := [
  ⟨0, .inst cfg1⟩, ⟨0, .inst cfg2⟩,
  ⟨1, .call 1 1 .create "g" 0 (.own 1 1 1)⟩, ⟨2, .apply 1 (.ok 1)⟩, ⟨3, .ret 1 (.ok 1 none)⟩, ⟨3, .flag 1 true true 1 1⟩,
  ⟨10, .call 2 2 .create "g" 0 (.own 2 2 2)⟩, ⟨11, .apply 2 (.fail .exists_)⟩, ⟨12, .ret 2 (.err .exists_)⟩,
  ⟨13, .call 3 2 .get "g" 0 .empty⟩, ⟨14, .apply 3 (.ok 1)⟩, ⟨15, .ret 3 (.ok 1 (some (.own 1 1 1)))⟩,
  ⟨16, .call 4 2 .update "g" 1 (.own 2 3 2)⟩, ⟨17, .apply 4 (.ok 2)⟩,
  ⟨18, .api 1 1 (.stopctx true false 0 0)⟩, ⟨18, .flag 1 false false 1 1⟩,
  ⟨19, .call 5 1 .delete "g" 0 .empty⟩, ⟨20, .apply 5 (.ok 3)⟩ ]

/-- The model accepts the trace, and its last mutation is a deletion by instance 1 of a record written by instance 2. -/
theorem delete_counterexample :
    (match run {} f10Trace with
     | .ok s => (match s.hist.head? with
        | some m => m.who == 1 && m.kind == .delete && (match m.before with | some r => r.writer == 2 | none => false)
        | none => false)
     | .error _ => false) = true := by decide

/-- The part of the deletion clause that does hold: an instance issues a Delete only inside its own
    `StopWithContext{DeleteKey}`, and only if that call found it leading or an acquiring write of it was acknowledged
    after its run had ended (a stop call had begun or the context passed to Start was cancelled: the promotion is
    refused and the record is an orphan) — never as a follower that owned nothing (the seeded changes C01-2 / C02-1 break this guard and
    are rejected by the acceptor at the Delete's call). -/
theorem delete_only_in_owner_shutdown {s s' : State} {t op i exp : Nat} {key : String} {val : Val}
    (h : stepCall s t op i .delete key exp val = .ok s') :
    ∃ x, s.insts i = some x ∧ x.stopDel.isSome = true ∧ (x.stopOwner = true ∨ x.awd = true) ∧ key = x.cfg.key := by
  unfold stepCall at h
  split at h
  · cases h
  · rename_i x hx
    split at h
    · cases h
    · split at h
      · cases h
      · rename_i hkey
        simp only at h
        split at h
        · rename_i hg
          exact ⟨x, hx, hg.1, hg.2, by simpa using hkey⟩
        · cases h

/-- What the model assumes about the code, as facts regenerated from the AST: the revision field is written only by
    `becomeLeader`, the heartbeat loop, `observeLeader` (which drops observations while leading) and the constructor;
    the heartbeat presents that field and re-checks the term after the health check; `Delete` is issued only by
    `StopWithContext`; the takeover path needs the flag, a positive priority and a strictly lower stored priority. -/
theorem shape :
    Gen.revisionWriters = ["kvElection.becomeLeader", "kvElection.heartbeatLoop", "kvElection.observeLeader", "newKVElection"] ∧
    Gen.observeLeaderGuarded = true ∧ Gen.heartbeatPresentsRevisionField = true ∧ Gen.heartbeatRechecksTerm = true ∧
    Gen.kvDeleteCallers = ["kvElection.StopWithContext"] ∧ Gen.takeoverStrictPriority = true ∧
    Gen.takeoverNeedsFlagAndPositivePriority = true ∧
    Gen.kvUpdateCallers = ["kvElection.attemptPriorityTakeover", "kvElection.heartbeatLoop"] := by decide


end NLE.Theorems.C01
