import NLE.Model.Validate
/-!
# C04 — fencing-token validation is sound and fail-safe (decision logic)

These are the table theorems about the verdict.  The history part of the property ("at some
moment during the call the record was live and contained …") is `NLE/Theorems/C04Sys.lean`.
-/
namespace NLE.Theorems.C04
open NLE.Validate

/-- The verdict is `true` exactly when: a non-empty local token, the context not done, the read
    returned an entry whose JSON object has a string `token` equal to the local token and a string
    `id` equal to the caller's instance id. -/
theorem validate_iff (c : Call) :
    validateToken c = true ↔
      c.localTok ≠ 0 ∧ c.ctxDoneAtEntry = false ∧ c.ctxWins = false ∧
      ∃ v, c.get = .entry v ∧ v.ok = true ∧ v.token = .str c.localTok ∧ v.id = .str c.me := by
  unfold validateToken
  constructor
  · intro h
    repeat' split at h
    all_goals simp_all
  · rintro ⟨h1, h2, h3, v, hg, hok, ht, hi⟩
    simp [h1, h2, h3, hg, hok, ht, hi]

/-- Fail-safe: each of the listed situations alone forces `false`. -/
theorem failsafe (c : Call)
    (h : c.localTok = 0 ∨ c.ctxDoneAtEntry = true ∨ c.ctxWins = true ∨ c.get = .err ∨ c.get = .nilEntry ∨
      (∃ v, c.get = .entry v ∧ (v.ok = false ∨ v.token ≠ .str c.localTok ∨ v.id ≠ .str c.me))) :
    validateToken c = false := by
  cases hv : validateToken c with
  | false => rfl
  | true =>
    obtain ⟨h1, h2, h3, v, hg, hok, ht, hi⟩ := (validate_iff c).mp hv
    rcases h with h | h | h | h | h | ⟨w, hw, h⟩
    · exact absurd h h1
    · simp [h2] at h
    · simp [h3] at h
    · simp [hg] at h
    · simp [hg] at h
    · rw [hg] at hw; cases hw
      rcases h with h | h | h
      · simp [hok] at h
      · exact absurd ht h
      · exact absurd hi h

/-- `ValidateToken` is `false` whenever the instance does not claim leadership at the call. -/
theorem api_not_leader (c : Call) : validateTokenAPI false c = false := by simp [validateTokenAPI]

theorem api_leader (c : Call) : validateTokenAPI true c = validateToken c := by simp [validateTokenAPI]

/-- `ValidateTokenOrDemote` returns the same verdict, and enters the demotion path exactly when the
    verdict is negative and the instance (still) claims leadership. -/
theorem orDemote_same_verdict (l : Bool) (c : Call) (l2 : Bool) :
    (validateOrDemote l c l2).1 = validateTokenAPI l c ∧
    ((validateOrDemote l c l2).2 = true ↔ (validateTokenAPI l c = false ∧ l2 = true)) := by
  simp [validateOrDemote]

/-- Non-vacuity: a call that validates. -/
example : validateToken ⟨7, 1, false, false, .entry ⟨true, .str 7, .str 1⟩⟩ = true := by decide

end NLE.Theorems.C04
