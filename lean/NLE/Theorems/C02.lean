import NLE.Proofs.LeaseInv
import NLE.Proofs.OwnInv
import NLE.Theorems.C03
import NLE.Gen.Shape
/-!
# C02 — at most one leader at a time, and every claim is backed by the record

The theorems are about the timed model `NLE.Lease` of one group under the hypotheses of the property
(answers within H/2, no outside writer, no preemption).  Every fault-free implementation trace is replayed through
the acceptor `Lease.step`; a trace on which the store or an instance leaves the model (a Create applied over a live
record, a flag raised without an own applied Create or later than H/2 after it, a record of a claimant not refreshed
within 2·H, a Delete applied while claiming, an expiry before the TTL) is rejected, and reported as a correspondence
difference.  The token half of "backed" is `Own`'s invariant `leadOwn` (`claim_carries_own_token`).
-/
namespace NLE.Theorems.C02
open NLE NLE.Lease

/-- At every instant of every accepted execution, at most one instance claims leadership. -/
theorem at_most_one_leader {evs : List TEv} {s : State} (h : run {} evs = .ok s)
    (c d : Claim) (hc : c ∈ s.claims) (hd : d ∈ s.claims) : c.inst = d.inst := by
  have inv := run_inv inv_init evs h
  obtain ⟨a, h1, _⟩ := inv.backed c hc
  obtain ⟨b, h2, _⟩ := inv.backed d hd
  rw [h1] at h2
  have := congrArg (fun o => o.map (·.1)) h2
  simpa using this

/-- Whenever an instance claims, the live record names it, and the record has not reached its TTL. -/
theorem claim_backed {evs : List TEv} {s : State} (h : run {} evs = .ok s) (c : Claim) (hc : c ∈ s.claims) :
    ∃ a, s.record = some (c.inst, a) ∧ s.now < a + s.ttl := by
  have inv := run_inv inv_init evs h
  obtain ⟨a, h1, h2, h3, hpos, httl⟩ := inv.backed c hc
  exact ⟨a, h1, by omega⟩

/-- The record of a claimant cannot expire: an expiry event in an accepted execution finds no claimant. -/
theorem no_expiry_under_claim {evs : List TEv} {s s' : State} (h : run {} evs = .ok s) (he : expire s = .ok s') :
    s.claims = [] := by
  have inv := run_inv inv_init evs h
  cases hc : s.claims with
  | nil => rfl
  | cons c cs =>
    obtain ⟨a, h1, h2⟩ := claim_backed h c (by rw [hc]; exact List.mem_cons_self ..)
    unfold expire at he
    rw [h1] at he
    simp only at he
    split at he
    · cases he
    · omega

/-- A Create is applied only when nobody claims. -/
theorem no_create_under_claim {evs : List TEv} {s s' : State} {j : Nat} (h : run {} evs = .ok s)
    (hcr : applyCreate s j = .ok s') : s.claims = [] := by
  cases hc : s.claims with
  | nil => rfl
  | cons c cs =>
    obtain ⟨a, h1, _⟩ := claim_backed h c (by rw [hc]; exact List.mem_cons_self ..)
    unfold applyCreate at hcr
    rw [h1] at hcr
    cases hcr

/-- The heartbeat schedule delivers the urgency the model assumes: the flag is raised within H/2 of the Create
    (`a0 ≤ t0 ≤ a0 + H/2`), the first refresh starts within one interval of that (`s1 ≤ t0 + H`) and is applied within
    H/2 of its start: within 2·H of the Create. -/
theorem first_refresh_in_time (H a0 t0 s1 a1 : Nat) (h2 : t0 ≤ a0 + H / 2) (h3 : s1 ≤ t0 + H)
    (h4 : a1 ≤ s1 + H / 2) : a1 ≤ a0 + 2 * H := by omega

/-- Between refreshes: the previous attempt started at `s0`, was applied at `a0 ≥ s0` and answered by `s0 + H/2`; the next
    one starts at `max finish (s0 + H)` at the latest (the loop's `Chain` of `Theorems/C03.lean`). -/
theorem next_refresh_in_time (H s0 a0 f0 s1 a1 : Nat) (h1 : s0 ≤ a0) (h2 : f0 ≤ s0 + H / 2)
    (h3 : s1 ≤ max f0 (s0 + H)) (h4 : a1 ≤ s1 + H / 2) : a1 ≤ a0 + 2 * H := by
  have : max f0 (s0 + H) = s0 + H := by omega
  omega

/-- The same from the loop's schedule as stated for C03: consecutive attempts of a `Chain` whose first is answered
    within H/2. -/
theorem chain_refresh_in_time (H T : Nat) (a b : C03.Att) (h : C03.Chain H T [a, b]) (a0 a1 : Nat)
    (hap : a.start ≤ a0) (hresp : a.finish ≤ a.start + H / 2) (hb : a1 ≤ b.start + H / 2) :
    a1 ≤ a0 + 2 * H := by
  have := C03.next_attempt_after_change_bound H T a.start a b h (Nat.le_refl _)
  have h' := h
  simp only [C03.Chain] at h'
  omega

/-- The token half: an instance that reports leadership with token `tok` has itself written a record carrying `tok`
    at the revision its next heartbeat presents (`Own`'s invariant), and by `claim_backed` that record is the live one. -/
theorem claim_carries_own_token {evs : List TEv} {s : Own.State} (h : Own.run {} evs = .ok s)
    (i : Nat) (x : Own.Inst) (tok : Nat) (hx : s.insts i = some x) (hl : x.lead = some tok) :
    Own.OwnWrite s i x.cfg.key x.hbRev tok :=
  (Own.reachable_inv h).leadOwn i x tok hx hl

/-! Non-vacuity: an accepted run with a claimant. -/
def cfg : InstCfg := { id := 1, key := "g", prio := 1, takeover := false, hb := 1000, ttl := 3000, val := 0, grace := 0, maxFail := 0, hasHealth := false, connMon := false, storeTTL := 3000, callbacks := true }

def demo : List TEv := [
  ⟨0, .inst cfg⟩,
  ⟨0, .inst { cfg with id := 2 }⟩,
  ⟨10, .call 1 1 .create "g" 0 (.own 1 7 1)⟩,
  ⟨20, .apply 1 (.ok 1)⟩,
  ⟨30, .ret 1 (.ok 1 none)⟩,
  ⟨30, .flag 1 true true 7 1⟩,
  ⟨1030, .call 2 1 .update "g" 1 (.own 1 7 1)⟩,
  ⟨1040, .apply 2 (.ok 2)⟩,
  ⟨1050, .ret 2 (.ok 2 none)⟩ ]

example : (match run {} demo with | .ok s => s.claims.map (·.inst) == [1] && s.record == some (1, 1040) | .error _ => false) = true := by
  decide

/-- The model rejects a second claimant (the guard the implementation is checked against). -/
example : (match run {} (demo ++ [⟨1060, .flag 2 true true 9 2⟩]) with | .ok _ => false | .error _ => true) = true := by decide

/-- Every way a run ends lowers the flag (AST facts): the stop calls do it themselves (C09); when it is the caller's
    context that ends the run — the heartbeat loop exits, nobody refreshes the record — a goroutine of the run steps
    down, and `Start` refuses to begin a new run while that step-down is still under way, so a run never inherits
    a raised flag. -/
theorem run_end_shape : Gen.ctxCancelStepsDown = true ∧ Gen.startRefusedWhileLeading = true := by decide

end NLE.Theorems.C02
