import NLE.Proofs.LifeInv
import NLE.Gen.Shape
import NLE.Gen.Locks
/-!
# C18 — Status and metrics tell the truth (coherence, documented states, STOPPED after a stop, transition chain)

`status` lines are observations taken by the harness at quiescent points; the model accepts one only if it
shows the model's own state and flag.  The clauses about `LeaderID`, token and revision of a leader and about a
follower's convergence are evaluated by the monitors on every trace (`C18/leader-*`, `C18/follower-leaderid-not-converged`)
and by the ownership model (`Own`: the token of a claiming instance is its own record's token), not re-proved here.
-/
namespace NLE.Theorems.C18
open NLE NLE.Life

/-- An accepted status snapshot is self-consistent: IsLeader is true exactly when State is LEADER, the state is
    one of the documented values, and the is-leader gauge (the flag) equals both `Status().IsLeader` and `IsLeader()`. -/
theorem snapshot_coherent {x : Inst} (inv : LInv x) {st : Nat} {il il2 : Bool} {tok : Nat}
    (hok : statusOk x st il tok il2 = none) :
    (il = true ↔ st = 2) ∧ (st = 0 ∨ st = 1 ∨ st = 2 ∨ st = 3 ∨ st = 5) ∧ il = x.flag ∧ il2 = x.flag := by
  unfold statusOk at hok
  split at hok; · cases hok
  rename_i hp
  split at hok; · cases hok
  rename_i hs
  split at hok; · cases hok
  rename_i hobs
  simp only [not_or, ne_eq, Decidable.not_not] at hobs
  have hpn : x.pendingFlag = none := by
    cases h : x.pendingFlag with
    | none => rfl
    | some _ => simp [h] at hp
  have hc := inv.coherent hpn (by simpa using hs)
  rw [hobs.1, hobs.2.1, hobs.2.2]
  exact ⟨hc, inv.states, rfl, rfl⟩

/-- After a stop call (until the next Start) every accepted snapshot shows STOPPED and not leader. -/
theorem stopped_after_stop {x : Inst} (inv : LInv x) (hstop : x.everStopped = true) {st : Nat} {il il2 : Bool} {tok : Nat}
    (hok : statusOk x st il tok il2 = none) : st = 5 ∧ il = false ∧ il2 = false := by
  unfold statusOk at hok
  split at hok; · cases hok
  rename_i hp
  split at hok; · cases hok
  rename_i hs
  split at hok; · cases hok
  rename_i hobs
  simp only [not_or, ne_eq, Decidable.not_not] at hobs
  have hpn : x.pendingFlag = none := by
    cases h : x.pendingFlag with
    | none => rfl
    | some _ => simp [h] at hp
  have := inv.stopped hstop (by simpa using hs) hpn
  rw [hobs.1, hobs.2.1, hobs.2.2]
  exact ⟨this.1, this.2, this.2⟩

/-- The recorded transitions form a chain: each accepted transition starts from the state the previous one
    (or Start: CANDIDATE) left, and leads to a documented state. -/
theorem transition_chain {x x' : Inst} {f t : Nat} (h : stepTrans x f t = .ok x') :
    f = x.state ∧ x'.state = t ∧ (t = 2 ∨ t = 3 ∨ t = 5) := by
  unfold stepTrans at h
  split at h; · cases h
  split at h; · cases h
  rename_i hf
  simp only [ne_eq, Decidable.not_not] at hf
  split at h
  · rename_i ht
    split at h; · cases h
    split at h; · cases h
    cases h; exact ⟨hf, ht.symm, Or.inl ht⟩
  · split at h
    · rename_i ht
      split at h
      · cases h; exact ⟨hf, ht.symm, Or.inr (Or.inl ht)⟩
      · split at h; · cases h
        cases h; exact ⟨hf, ht.symm, Or.inr (Or.inl ht)⟩
    · split at h
      · rename_i ht
        split at h; · cases h
        cases h; exact ⟨hf, ht.symm, Or.inr (Or.inr ht)⟩
      · cases h

/-- AST fact: `Status()` assembles its snapshot under the election's read lock; every transition writes the flag, the
    state, the token and the leader id inside one critical section under the write lock (C20's lock table), so a
    snapshot never mixes the two sides of a transition — also when it is taken while one is under way (checked by
    `snap` samples issued from inside the library's critical sections, clause `C18/snapshot-incoherent`). -/
theorem status_locked_shape : Gen.statusUnderReadLock = true := by decide

/-- … and every write to the fields a snapshot is made of — the flag, the state, the token, the leader id — outside the
    constructor is made with the election's mutex held exclusively (regenerated table: must-hold lockset at every
    `Store` / `Swap` / `CompareAndSwap`), by the functions that perform the transitions and by `observeLeader`. -/
theorem snapshot_fields_written_under_lock :
    Gen.atomicWrites.all (fun a => decide (a.2.2.1 = 2)) = true ∧
    (Gen.atomicWrites.map fun a => a.2.1).eraseDups =
      ["kvElection.Start", "kvElection.becomeLeader", "kvElection.becomeFollower", "kvElection.Stop",
       "kvElection.StopWithContext", "kvElection.observeLeader"] := by decide +kernel

end NLE.Theorems.C18
