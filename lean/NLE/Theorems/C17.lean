import NLE.Model.Backoff
/-!
# C17 — retry, backoff, jitter and circuit breaker keep their contracts

The arithmetic is exact (`Rat`); Go's float64 evaluation is compared with these bounds by the
correspondence check (rounding slack stated there), never proved.  The loop and the breaker are
exact state machines.  The election round's shape (jitter window, attempt count) is tied to the
regenerated constants in `NLE/Theorems/C17Round.lean`.
-/
namespace NLE.Theorems.C17
open NLE.Backoff

theorem base_nonneg (c : BackoffCfg) (h : c.WF) (n : Nat) : 0 ≤ base c n := by
  obtain ⟨h1, h2, h3, _, _⟩ := h
  have hp : (0 : Rat) ≤ c.mult ^ n := Rat.pow_nonneg h3
  have hi : (0 : Rat) ≤ (c.init : Rat) := by exact_mod_cast h1
  have hm : (0 : Rat) ≤ (c.max : Rat) := by exact_mod_cast h2
  have := Rat.mul_nonneg hi hp
  unfold base; grind

/-- `CalculateBackoff` lies within ±Jitter of `min(MaxBackoff, InitialBackoff × Multiplier^n)` and is
    never negative — for every attempt number and every draw `r ∈ [0,1)`. -/
theorem backoff_bounds (c : BackoffCfg) (h : c.WF) (n : Nat) (r : Rat) (hr0 : 0 ≤ r) (hr1 : r < 1) :
    base c n * (1 - c.jitter) ≤ backoffQ c n r ∧ backoffQ c n r ≤ base c n * (1 + c.jitter) ∧
    0 ≤ backoffQ c n r := by
  have hb := base_nonneg c h n
  obtain ⟨_, _, _, hj0, hj1⟩ := h
  have hx : 0 ≤ base c n * c.jitter := Rat.mul_nonneg hb hj0
  have hxb : base c n * c.jitter ≤ base c n := by
    have := Rat.mul_le_mul_of_nonneg_left hj1 hb; grind
  have ht1 : (-1 : Rat) ≤ r * 2 - 1 := by grind
  have ht2 : r * 2 - 1 ≤ (1 : Rat) := by grind
  have hl := Rat.mul_le_mul_of_nonneg_left ht1 hx
  have hu := Rat.mul_le_mul_of_nonneg_left ht2 hx
  unfold backoffQ
  simp only
  split <;> grind

/-- The truncated result is non-negative and within the integer envelope the check compares with. -/
theorem backoff_int_bounds (c : BackoffCfg) (h : c.WF) (n : Nat) (r : Rat) (hr0 : 0 ≤ r) (hr1 : r < 1) :
    0 ≤ backoff c n r ∧ backoffLo c n ≤ backoff c n r ∧ backoff c n r ≤ backoffHi c n := by
  obtain ⟨h1, h2, h3⟩ := backoff_bounds c h n r hr0 hr1
  unfold backoff backoffLo backoffHi
  refine ⟨?_, ?_, ?_⟩
  · exact Rat.le_floor_iff.mpr (by simpa using h3)
  · have := Rat.floor_le (base c n * (1 - c.jitter))
    exact Rat.le_floor_iff.mpr (by grind)
  · have h5 := Rat.floor_le (backoffQ c n r)
    have h4 := @Rat.le_ceil (base c n * (1 + c.jitter))
    have : ((backoffQ c n r).floor : Rat) ≤ ((base c n * (1 + c.jitter)).ceil : Rat) := by grind
    exact_mod_cast this

/-- Non-vacuity: the default configuration is well-formed. -/
def defaultCfg : BackoffCfg := { init := 50000000, max := 5000000000, mult := 2, jitter := (1 : Rat) / 10 }
example : defaultCfg.WF := by
  unfold BackoffCfg.WF defaultCfg
  refine ⟨by decide, by decide, by grind, by grind, by grind⟩

/-! ### RetryWithBackoff -/

/-- At most `MaxAttempts` invocations when `MaxAttempts > 0` (generalised over the attempt counter). -/
theorem retryLoop_calls_bound (m : Int) (hm : 0 < m) (tc : Option Nat) (script : List (Outcome × Nat × Bool))
    (a now : Nat) (calls : List Nat) (ha : (a : Int) ≤ m - 1) :
      ((retryLoop m tc a now script calls).calls.length : Int) ≤ calls.length + (m - a) := by
  fun_induction retryLoop m tc a now script calls with
  | case1 => simp; omega
  | case2 => simp; omega
  | case3 => simp; omega
  | case4 => simp; omega
  | case5 => simp; omega
  | case6 => simp; omega
  | case7 => simp; omega
  | case8 => simp; omega
  | case9 a now o d tie rest calls h1 h2 h3 h4 h5 h6 h7 ih =>
    have := ih (by omega)
    simp at this ⊢; omega

/-- `RetryWithBackoff` invokes the operation at most `MaxAttempts` times (when positive). -/
theorem retry_calls_le_max (m : Int) (hm : 0 < m) (tc : Option Nat) (start : Nat)
    (script : List (Outcome × Nat × Bool)) :
    ((retry m tc start script).calls.length : Int) ≤ m := by
  have := retryLoop_calls_bound m hm tc script 0 start [] (by omega)
  simpa [retry] using this

theorem lt_of_not_cancelled {c now : Nat} (h : ¬ isCancelled (some c) now = true) : now < c := by
  simp [isCancelled] at h; omega

/-- Every recorded invocation happens strictly before the cancellation instant. -/
theorem retryLoop_no_call_after_cancel (m : Int) (c : Nat) (script : List (Outcome × Nat × Bool))
    (a now : Nat) (calls : List Nat) (h : ∀ t ∈ calls, t < c) :
      ∀ t ∈ (retryLoop m (some c) a now script calls).calls, t < c := by
  fun_induction retryLoop m (some c) a now script calls with
  | case1 => simpa using h
  | case2 => simpa using h
  | case3 => simpa using h
  | case4 =>
    have : _ < c := lt_of_not_cancelled (by assumption)
    intro t ht; simp at ht; rcases ht with ht | rfl
    · exact h t ht
    · exact this
  | case5 =>
    have : _ < c := lt_of_not_cancelled (by assumption)
    intro t ht; simp at ht; rcases ht with ht | rfl
    · exact h t ht
    · exact this
  | case6 =>
    have : _ < c := lt_of_not_cancelled (by assumption)
    intro t ht; simp at ht; rcases ht with ht | rfl
    · exact h t ht
    · exact this
  | case7 =>
    have : _ < c := lt_of_not_cancelled (by assumption)
    intro t ht; simp at ht; rcases ht with ht | rfl
    · exact h t ht
    · exact this
  | case8 =>
    have : _ < c := lt_of_not_cancelled (by assumption)
    intro t ht; simp at ht; rcases ht with ht | rfl
    · exact h t ht
    · exact this
  | case9 a now o d tie rest calls h1 h2 h3 h4 h5 h6 h7 ih =>
    have : now < c := lt_of_not_cancelled h1
    apply ih
    intro t ht; simp at ht; rcases ht with rfl | ht
    · exact this
    · exact h t ht

/-- `RetryWithBackoff` never invokes the operation at or after the instant its context is cancelled. -/
theorem retry_no_call_after_cancel (m : Int) (c start : Nat) (script : List (Outcome × Nat × Bool)) :
    ∀ t ∈ (retry m (some c) start script).calls, t < c :=
  retryLoop_no_call_after_cancel m c script 0 start [] (by simp)

/-- The loop stops at the first success, permanent error, breaker refusal or invocation that cancelled the context itself:
    whatever the script holds after that element is never used (no invocation "after success / a permanent error /
    cancellation"). -/
theorem retry_stops_on_final (m : Int) (tc : Option Nat) (pre post : List (Outcome × Nat × Bool))
    (x : Outcome × Nat × Bool) (hx : x.1 = .ok ∨ x.1 = .perm ∨ x.1 = .breakerOpen ∨ x.1 = .transCancel)
    (a now : Nat) (calls : List Nat) :
      retryLoop m tc a now (pre ++ x :: post) calls = retryLoop m tc a now (pre ++ [x]) calls := by
  induction pre generalizing a now calls with
  | nil =>
    obtain ⟨o, d, tie⟩ := x
    simp only [List.nil_append]
    simp only [retryLoop]
    simp at hx
    rcases hx with hx | hx | hx | hx <;> subst hx <;> simp
  | cons y rest ih =>
    obtain ⟨o, d, tie⟩ := y
    simp only [List.cons_append, retryLoop]
    rw [ih]

/-- One invocation per script element at most. -/
theorem retryLoop_calls_le_script (m : Int) (tc : Option Nat) (script : List (Outcome × Nat × Bool))
    (a now : Nat) (calls : List Nat) :
      (retryLoop m tc a now script calls).calls.length ≤ calls.length + script.length := by
  fun_induction retryLoop m tc a now script calls with
  | case1 => simp
  | case2 => simp
  | case3 => simp
  | case4 => simp
  | case5 => simp
  | case6 => simp
  | case7 => simp
  | case8 => simp
  | case9 a now o d tie rest calls h1 h2 h3 h4 h5 h6 h7 ih => simp at ih ⊢; omega

/-- An invocation that cancels the context itself is the last one, whatever backoff is drawn afterwards (a zero backoff
    makes the `select` a tie between the timer and `Done`: the check at the top of the loop then ends it). -/
theorem retry_cancelling_call_is_last (m : Int) (tc : Option Nat) (pre post : List (Outcome × Nat × Bool))
    (d : Nat) (tie : Bool) (a now : Nat) (calls : List Nat) :
      (retryLoop m tc a now (pre ++ (.transCancel, d, tie) :: post) calls).calls.length ≤ calls.length + pre.length + 1 := by
  rw [retry_stops_on_final m tc pre post (.transCancel, d, tie) (by simp)]
  have := retryLoop_calls_le_script m tc (pre ++ [(.transCancel, d, tie)]) a now calls
  simp at this
  omega

/-- Sum of the waits drawn in a script. -/
def waitSum : List (Outcome × Nat × Bool) → Nat
  | [] => 0
  | (_, d, _) :: r => d + waitSum r

/-- Consecutive invocations are separated by exactly the drawn backoffs: with transient outcomes in
    `pre`, no cancellation and no attempt limit, the final call happens at `start + Σ backoffs`, and
    the number of invocations is `|pre| + 1`. -/
theorem retry_waits_backoff (pre : List (Outcome × Nat × Bool)) (hpre : ∀ x ∈ pre, x.1 = .trans)
    (d : Nat) (tie : Bool) (a now : Nat) (calls : List Nat) :
      (retryLoop 0 none a now (pre ++ [(.ok, d, tie)]) calls).result = .ok ∧
      (retryLoop 0 none a now (pre ++ [(.ok, d, tie)]) calls).calls.getLast? = some (now + waitSum pre) ∧
      (retryLoop 0 none a now (pre ++ [(.ok, d, tie)]) calls).calls.length = calls.length + pre.length + 1 := by
  induction pre generalizing a now calls with
  | nil => simp [retryLoop, waitSum, isCancelled]
  | cons y rest ih =>
    obtain ⟨o, dy, ty⟩ := y
    have ho : o = .trans := hpre (o, dy, ty) (by simp)
    subst ho
    have hrest : ∀ x ∈ rest, x.1 = .trans := fun x hx => hpre x (by simp [hx])
    have := ih hrest (a + 1) (now + dy) (now :: calls)
    simp only [List.cons_append, retryLoop, isCancelled, cancelInWait, waitSum]
    simp
    simp at this
    refine ⟨this.1, ?_, ?_⟩
    · rw [this.2.1]; simp; omega
    · rw [this.2.2]; omega

/-! ### CircuitBreaker -/

/-- While open and inside the cooldown the operation is never invoked and nothing changes. -/
theorem breaker_no_call_while_open (b : Breaker) (now : Int) (s : Bool)
    (ho : b.state = .opened) (hc : now - b.lastFailure < b.cooldown) :
    b.call now s = (b, false) := by
  simp [Breaker.call, Breaker.callD, ho, hc]

/-- Any invocation that succeeds closes the breaker and resets the count. -/
theorem breaker_closes_on_success (b : Breaker) (now : Int)
    (h : ¬ (b.state = .opened ∧ now - b.lastFailure < b.cooldown)) :
    (b.call now true).2 = true ∧ (b.call now true).1.state = .closed ∧ (b.call now true).1.failures = 0 := by
  simp [Breaker.call, Breaker.callD, h]

/-- `k` consecutive failures applied to a breaker (times given by `ts`). -/
def failRun (b : Breaker) : List Int → Breaker
  | [] => b
  | t :: ts => failRun (b.call t false).1 ts

/-- Below the threshold the breaker stays closed, counts every failure, and keeps invoking. -/
theorem breaker_closed_below_threshold (b : Breaker) (ts : List Int)
    (hs : b.state = .closed) (hf : 0 ≤ b.failures) (hlt : b.failures + ts.length < b.threshold) :
    (failRun b ts).state = .closed ∧ (failRun b ts).failures = b.failures + ts.length := by
  induction ts generalizing b with
  | nil => simp [failRun, hs]
  | cons t ts ih =>
    simp only [List.length_cons] at hlt
    have hlt' : b.failures + 1 < b.threshold := by omega
    have hstep : (b.call t false).1 = { b with failures := b.failures + 1, lastFailure := t } := by
      simp [Breaker.call, Breaker.callD, hs]
      omega
    have := ih (b.call t false).1 (by rw [hstep]; exact hs) (by rw [hstep]; simp; omega)
      (by rw [hstep]; simp; omega)
    simp only [failRun]
    rw [hstep] at this ⊢
    simp at this ⊢
    constructor
    · exact this.1
    · rw [this.2]; omega

theorem failRun_threshold (b : Breaker) (ts : List Int) :
    (failRun b ts).threshold = b.threshold ∧ (failRun b ts).cooldown = b.cooldown := by
  induction ts generalizing b with
  | nil => simp [failRun]
  | cons t ts ih =>
    simp only [failRun]
    have := ih (b.call t false).1
    rw [this.1, this.2]
    simp only [Breaker.call, Breaker.callD]
    split <;> simp <;> split <;> simp

/-- It opens at exactly `failureThreshold` consecutive failures counted from a closed, reset breaker:
    still closed after `threshold - 1` of them, each of the `threshold` calls invoked the operation,
    and the `threshold`-th leaves it open. -/
theorem breaker_opens_at_threshold (th cd : Int) (ts : List Int) (t : Int)
    (hlen : (ts.length : Int) = th - 1) :
    let b0 : Breaker := { threshold := th, cooldown := cd }
    (failRun b0 ts).state = .closed ∧
    ((failRun b0 ts).call t false).2 = true ∧
    ((failRun b0 ts).call t false).1.state = .opened := by
  intro b0
  have h := breaker_closed_below_threshold b0 ts rfl (by simp [b0]) (by simp [b0]; omega)
  obtain ⟨hs, hf⟩ := h
  have hthr := (failRun_threshold b0 ts).1
  refine ⟨hs, ?_, ?_⟩
  · simp [Breaker.call, Breaker.callD, hs]
  · simp only [Breaker.call, Breaker.callD, hs]
    simp [hf, hthr, b0]
    omega

/-- The cooldown runs from the moment the failing operation *returned*: after a failed invocation that lasted from `now`
    to `fin` and left the breaker open, every call entered less than a cooldown after `fin` is refused — however long the
    operation took. -/
theorem breaker_cooldown_from_completion (b : Breaker) (now fin now' fin' : Int) (s : Bool)
    (hopen : (b.callD now fin false).1.state = .opened) (hinv : (b.callD now fin false).2 = true)
    (hc : now' - fin < b.cooldown) :
    ((b.callD now fin false).1.callD now' fin' s).2 = false := by
  have hl : (b.callD now fin false).1.lastFailure = fin ∧ (b.callD now fin false).1.cooldown = b.cooldown := by
    by_cases hg : b.state = .opened ∧ now - b.lastFailure < b.cooldown
    · simp [Breaker.callD, hg] at hinv
    · by_cases ho : b.state = .opened
      · have hn : ¬ (now - b.lastFailure < b.cooldown) := fun h => hg ⟨ho, h⟩
        simp [Breaker.callD, ho, hn]
      · simp [Breaker.callD, ho]
  generalize hb' : (b.callD now fin false).1 = b' at hopen hl
  simp [Breaker.callD, hopen, hl.1, hl.2, hc]

/-- Non-vacuity / sanity: threshold 3, three failures at t = 1,2,3 open it; a call inside the cooldown
    is refused; after the cooldown a success closes it. -/
example :
    let b := failRun { threshold := 3, cooldown := 100 } [1, 2, 3]
    b.state = .opened ∧ (b.call 50 true).2 = false ∧ (b.call 103 true).2 = true ∧
    (b.call 103 true).1.state = .closed := by decide

/-- … and a slow failure: threshold 1, cooldown 400, an operation that runs from 0 to 400 and fails; a call at 500 is
    refused (100 after the failure), one at 800 goes through. -/
example :
    let b := ({ threshold := 1, cooldown := 400 } : Breaker).callD 0 400 false
    b.1.state = .opened ∧ (b.1.callD 500 500 true).2 = false ∧ (b.1.callD 800 800 true).2 = true := by decide

end NLE.Theorems.C17
