import NLE.Theorems.C02
import NLE.Theorems.C12
import NLE.Gen.Shape
/-!
# C07 — leadership is stable in fault-free operation

In the timed model `NLE.Lease` (answers within H/2, no outside writer, no preemption), once an instance claims:
its record stays the live one, keeps naming it, and the claim stands until the instance itself lowers its flag.
The mechanisms that lower the flag are those of `HB` (refresh failures, unhealthy checks), `Conn` (grace expiry, failed
verification), `Life` (stop) and the watcher seeing another owner; in fault-free operation none of them fires:
`no_refresh_demotion_without_failure`, `no_health_demotion_when_healthy`.  The implementation is held to that by the
acceptors on every fault-free trace, and by the trace monitor clause `C07/leader-demoted-fault-free`.
-/
namespace NLE.Theorems.C07
open NLE NLE.Lease

def lowers (e : TEv) (i : Nat) : Prop := ∃ b tok lid, e.ev = .flag i b false tok lid

theorem lower_mem {s : State} {i : Nat} {c : Claim} (hc : c ∈ s.claims) (hne : c.inst ≠ i) : c ∈ (lower s i).claims := by
  simp [lower, hc, hne]

/-- One step of an accepted execution keeps every claim whose owner does not itself lower its flag; and the refreshed
    claimant keeps its identity. -/
theorem claim_survives_step {s s' : State} {e : TEv} (inv : LInv s) (h : step s e = .ok s') (hend : s.ended = false)
    (c : Claim) (hc : c ∈ s.claims) (hl : ¬ lowers e c.inst) : ∃ c' ∈ s'.claims, c'.inst = c.inst := by
  unfold step at h
  rw [hend] at h
  simp only [Bool.false_eq_true, if_false] at h
  split at h
  · cases h; exact ⟨c, hc, rfl⟩
  · split at h
    · split at h
      · cases h; exact ⟨c, hc, rfl⟩
      · cases h
    · split at h
      · cases h; exact ⟨c, hc, rfl⟩
      · split at h
        · cases h; exact ⟨c, hc, rfl⟩
        · cases h
  · cases h; exact ⟨c, hc, rfl⟩
  · simp only [bind, Except.bind] at h
    split at h; · cases h
    split at h; · cases h
    rename_i s1 hadv
    have hc1 : c ∈ s1.claims := by
      unfold advance at hadv
      split at hadv; · cases hadv
      split at hadv; · cases hadv
      cases hadv; exact hc
    have inv1 := advance_inv inv hadv
    split at h
    · split at h
      · cases h; exact ⟨c, hc1, rfl⟩
      · cases h; exact ⟨c, hc1, rfl⟩
    · split at h
      · -- a Create cannot be applied: the claimant's record is live
        rename_i j _ _
        exfalso
        obtain ⟨a, h1, _⟩ := inv1.backed c hc1
        unfold applyCreate at h
        rw [h1] at h
        cases h
      · rename_i j _ _
        unfold applyRefresh at h
        split at h
        · split at h; · cases h
          cases h
          refine ⟨_, List.mem_map.mpr ⟨c, hc1, rfl⟩, ?_⟩
          split <;> rfl
        · cases h
      · rename_i j _ _
        unfold applyDelete at h
        split at h; · cases h
        split at h
        · split at h; · cases h
          cases h; exact ⟨c, hc1, rfl⟩
        · cases h; exact ⟨c, hc1, rfl⟩
      · cases h; exact ⟨c, hc1, rfl⟩
    · cases h; exact ⟨c, hc1, rfl⟩
    · split at h
      · -- an expiry cannot happen
        exfalso
        obtain ⟨a, h1, h2, h3, hpos, httl⟩ := inv1.backed c hc1
        unfold expire at h
        rw [h1] at h
        simp only at h
        split at h
        · cases h
        · omega
      · cases h; exact ⟨c, hc1, rfl⟩
    · rename_i i b il tok lid hev
      split at h
      · cases h; exact ⟨c, hc1, rfl⟩
      split at h
      · split at h
        · cases h; exact ⟨c, hc1, rfl⟩
        · -- somebody raises: it is the owner of the live record, hence the claimant itself
          unfold raise at h
          split at h; · cases h
          split at h; · cases h
          split at h; · cases h
          cases h
          by_cases hci : c.inst = i
          · exact ⟨_, List.mem_cons_self .., hci.symm⟩
          · exact ⟨c, List.mem_cons_of_mem _ (List.mem_filter.mpr ⟨hc1, by simpa using hci⟩), rfl⟩
      · cases h
        have hne : c.inst ≠ i := by
          intro heq
          apply hl
          rename_i hil
          refine ⟨b, tok, lid, ?_⟩
          have : il = false := by simpa using hil
          subst this; subst heq
          assumption
        exact ⟨c, lower_mem hc1 hne, rfl⟩
    · cases h
    · cases h
    · cases h; exact ⟨c, hc1, rfl⟩

/-- While an instance claims, every step leaves a live record naming it: the record never lapses or changes owner. -/
theorem record_keeps_owner {evs : List TEv} {s s' : State} {e : TEv} (h : run {} evs = .ok s) (hs : step s e = .ok s')
    (hend : s.ended = false) (c : Claim) (hc : c ∈ s.claims) (hl : ¬ lowers e c.inst) :
    ∃ a', s'.record = some (c.inst, a') := by
  have inv := run_inv inv_init evs h
  obtain ⟨c', hc', hi⟩ := claim_survives_step inv hs hend c hc hl
  obtain ⟨a', h1, _⟩ := (step_inv inv hs).backed c' hc'
  exact ⟨a', by rw [← hi]; exact h1⟩

/-- The refresh mechanism does not demote while every refresh succeeds. -/
theorem no_refresh_demotion_without_failure (os : List HB.Outcome) (hall : ∀ o ∈ os, o = .ok) (f idx : Nat) :
    HB.refreshDemoteAt f idx os = none := by
  induction os generalizing f idx with
  | nil => rfl
  | cons o os ih =>
    have := hall o (List.mem_cons_self ..)
    subst this
    simp only [HB.refreshDemoteAt, HB.onOutcome]
    exact ih (fun o ho => hall o (List.mem_cons_of_mem _ ho)) 0 (idx + 1)

/-- The health mechanism does not demote while every check is healthy. -/
theorem no_health_demotion_when_healthy (m : Nat) (rs : List Bool) (hall : ∀ r ∈ rs, r = true) (run idx : Nat) :
    HB.healthDemoteAt m run idx rs = none := by
  induction rs generalizing run idx with
  | nil => rfl
  | cons r rs ih =>
    have := hall r (List.mem_cons_self ..)
    subst this
    simp only [HB.healthDemoteAt, HB.onHealth]
    exact ih (fun r hr => hall r (List.mem_cons_of_mem _ hr)) 0 (idx + 1)

/-- The leader-side decision of the watcher (leader/watcher.go `handleWatchEvent`): step down iff the notified record
    names somebody else and is newer than the leader's own latest write. -/
def watcherStepsDown (self ownRev evId evRev : Nat) : Bool := evId != self && decide (evRev > ownRev)

/-- Late, duplicated or reordered notifications — any notification of a record version that is not newer than the
    leader's own latest write, whoever it names — never demote the leader; neither does any notification of its own
    record. -/
theorem stale_or_own_notification_ignored (self ownRev evId evRev : Nat) (h : evRev ≤ ownRev ∨ evId = self) :
    watcherStepsDown self ownRev evId evRev = false := by
  unfold watcherStepsDown
  rcases h with h | h
  · have : ¬ evRev > ownRev := by omega
    simp [this]
  · simp [h]

/-- That decision is the one in the source (regenerated fact), the follower-side observations are dropped while
    leading, and exhausted acquisition rounds and failed attempts leave a leader alone. -/
theorem watcher_shape : Gen.watcherComparesRevision = true ∧ Gen.observeLeaderGuarded = true ∧ Gen.roundChecksLeader = true := by decide

/-- A refresh answered `ok` is classified as a success. -/
theorem ok_answer_is_success (rev : Nat) (v : Option Val) : HB.outcomeOf (.ok rev v) = .ok := rfl

/-! Non-vacuity: the claimant of `C02.demo` survives a further refresh and a losing Create of another instance. -/
example : (match run {} (C02.demo ++ [⟨1500, .call 3 2 .create "g" 0 (.own 2 9 1)⟩, ⟨1510, .apply 3 (.fail .exists_)⟩,
      ⟨1520, .ret 3 (.err .exists_)⟩, ⟨2050, .call 4 1 .update "g" 2 (.own 1 7 1)⟩, ⟨2060, .apply 4 (.ok 3)⟩]) with
    | .ok s => s.claims.map (·.inst) == [1] && s.record == some (1, 2060) | .error _ => false) = true := by decide

end NLE.Theorems.C07
