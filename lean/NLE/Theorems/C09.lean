import NLE.Proofs.LifeInv
import NLE.Gen.Shape
import NLE.Theorems.C11
/-!
# C09 — Stop is final (lifecycle clauses)

Proved here, over the lifecycle model: once a stop call has begun, and until the next successful Start, the
instance is never promoted again and no promotion callback is dispatched; after the stop call's critical section it
reports STOPPED and not leader.  The clauses about store operations after the stop returned, return-time bounds
(5 s / time-out), the absence of panics, goroutine clean-up and DeleteKey are evaluated on every
trace by the monitors (`C09/store-op-after-stop`, `C09/leader-when-stop-returns`, `C09/record-survives-deletekey`,
`C09/goroutines-left`, harness watchdog) — see DESIGN.md §6 C09 for what is proved and what is validated.  That a stop
call cannot deadlock on the library's mutexes is the ranked lock order (`stop_no_mutex_deadlock`).
-/
namespace NLE.Theorems.C09
open NLE NLE.Life

/-- While the election is not running (a stop call has begun, no Start since) no event raises the flag or
    begins a promotion: the instance never again reports leadership and no promotion callback is dispatched. -/
theorem no_promotion_while_stopped {x x' : Inst} {e : Ev} (_inv : LInv x) (hnr : x.running = false) (hnf : x.flag = false)
    (hnp : x.pendingFlag ≠ some true) (h : stepInst x e = .ok x') :
    x'.flag = false ∧ x'.pendingFlag ≠ some true ∧ x'.running = false ∧ x'.promoOwed = x.promoOwed ∨
    x'.flag = false ∧ x'.pendingFlag ≠ some true ∧ x'.running = false ∧ x'.promoOwed = none := by
  unfold stepInst at h
  split at h
  · -- transition
    unfold stepTrans at h
    repeat' split at h
    all_goals first
      | (cases h; done)
      | (cases h; simp_all)
  · -- flag
    unfold stepFlag at h
    split at h; · cases h
    split at h
    · rename_i want hw
      split at h; · cases h
      split at h
      · -- flag raised: needs pendingFlag = some true
        rename_i hne hil
        simp_all
      · cases h; left; simp [clearFlag, hnr]
    · split at h; · cases h
      split at h; · cases h
      cases h; left; simp [clearFlag, hnr]
  · unfold stepPromote at h
    repeat' split at h
    all_goals first
      | (cases h; done)
      | (cases h; right; simp_all)
  · cases h; left; simp_all
  · unfold stepCtxDone at h
    repeat' split at h
    all_goals first
      | (cases h; done)
      | (cases h; left; simp_all)
  · unfold stepDemote at h
    repeat' split at h
    all_goals first
      | (cases h; done)
      | (cases h; left; simp_all)
  · cases h; left; simp_all
  · split at h
    · cases h
    · cases h; left; simp_all
  · cases h; left; simp_all

/-- A stop call that proceeds makes the election not running, and (by `LifeInv`) after its critical section the
    state is STOPPED with the flag down until the next Start. -/
theorem stopped_state {x : Inst} (inv : LInv x) (hs : x.everStopped = true) (hp : x.pendingFlag = none)
    (hc : x.stopPendingTrans = false) : x.state = 5 ∧ x.flag = false ∧ x.running = false :=
  ⟨(inv.stopped hs hc hp).1, (inv.stopped hs hc hp).2, inv.stopNotRunning hs⟩

/-- AST facts: `becomeLeader` refuses when the election is stopped; `becomeFollower` keeps STOPPED after a stop;
    `StopWithContext` deletes only for an owner (or a record acquired while stopping); the only `go` statements not
    tracked by the WaitGroup are the stop calls' own helpers, the heartbeat's Update and the validation's Get
    sub-goroutines (which only finish an operation already in flight), the diagnostic read after a refused refresh
    (issued at the demotion, skipped when a stop call has already ended the term) and the adapters' forwarders. -/
theorem shape :
    Gen.becomeLeaderRefusesWhenStopped = true ∧ Gen.becomeFollowerKeepsStopped = true ∧
    Gen.deleteOnlyForOwnerOrAcquired = true ∧
    Gen.untrackedGo = ["MockWatcherAdapter.Updates", "StartEmbeddedNATSServer", "StartEmbeddedNATSServer", "kvElection.Stop",
      "kvElection.StopWithContext", "kvElection.StopWithContext", "kvElection.StopWithContext", "kvElection.StopWithContext",
      "kvElection.StopWithContext", "kvElection.heartbeatLoop", "kvElection.logTakeoverAfterRefusedRefresh", "kvElection.validateToken",
      "natsWatcherAdapter.Updates"] := by decide

/-! ### Time budget of the stop calls

`StopWithContext` runs its phases (wait for the background goroutines, key deletion, wait for OnDemote) under one
deadline: a phase that would pass the deadline is abandoned there.  `Stop` waits at most 5 s for the goroutines and
then runs OnDemote. -/

/-- Return time (relative to the call) of a stop call whose phases would take `ds`, with `el` already elapsed. -/
def stopReturn (budget : Nat) : List Nat → Nat → Nat
  | [], el => el
  | d :: ds, el => if el + d ≤ budget then stopReturn budget ds (el + d) else budget

/-- Whatever the phases take — a hung store, a callback that never returns — the call returns within its budget. -/
theorem stop_within_budget (budget : Nat) (ds : List Nat) (el : Nat) (h : el ≤ budget) : stopReturn budget ds el ≤ budget := by
  induction ds generalizing el with
  | nil => exact h
  | cons d ds ih =>
    simp only [stopReturn]
    split
    · rename_i hle; exact ih _ hle
    · exact Nat.le_refl _

/-- … and when every phase fits, at the sum of the phases (nothing is cut short). -/
theorem stop_returns_when_done (budget : Nat) (ds : List Nat) (el : Nat) (h : el + ds.sum ≤ budget) :
    stopReturn budget ds el = el + ds.sum := by
  induction ds generalizing el with
  | nil => simp [stopReturn]
  | cons d ds ih =>
    simp only [stopReturn, List.sum_cons] at h ⊢
    have h1 : el + d ≤ budget := by omega
    simp only [h1, if_true]
    rw [ih (el + d) (by omega)]
    omega

/-- A run never overlaps the wind-down of the previous one (regenerated fact): `Start` is refused while a stop call is in
    progress and while the goroutines of a run that a stop call gave up waiting for have not all returned — so the
    WaitGroup is never reused under a pending `Wait` (the data race the race detector reported once restarts ran in race
    mode), and store operations of an abandoned run cannot interleave with a new one. -/
theorem runs_do_not_overlap_shape : Gen.startRefusedWhileWindingDown = true := by decide

/-- The stop calls end the run atomically (regenerated fact): the context is cancelled, the flag lowered and STOPPED
    recorded inside one critical section, in that order — the model's single `api stop` step.  An acquisition whose
    answer arrives after that section finds the run over (`becomeLeaderRefusesWhenStopped`). -/
theorem stop_is_atomic_shape : Gen.stopCancelsInsideItsCriticalSection = true := by decide

/-- The source has that structure (regenerated facts): one deadline, every wait under it, the deletion issued from a
    goroutine; 5 s for `Stop` and as the default of `StopWithContext`. -/
theorem stop_budget_shape : Gen.stopWaitsShareDeadline = true ∧ Gen.stopDeleteAsync = true ∧
    Gen.stopWaitsFiveSeconds = true ∧ Gen.stopctxDefaultFiveSeconds = true := by decide

example : stopReturn 50 [40, 60, 10] 0 = 50 ∧ stopReturn 50 [10, 20, 5] 0 = 35 := by decide

/-- A stop call cannot be part of a deadlock among the library's mutexes (ranked lock order over the regenerated table of
    nested acquisitions, see C11), and the only things it waits for while holding one are the promotion goroutine's
    start signal and nothing else (`C11.waits_under_lock`). -/
theorem stop_no_mutex_deadlock (s : LockOrder.Snap) (name : Nat → String)
    (htable : ∀ g m, s.wants g = some m → ∀ h, h ∈ s.holds g → ∃ e ∈ Gen.lockOrder, e.1 = name h ∧ e.2.1 = name m) :
    ¬ ∃ g, LockOrder.Chain s g g := C11.no_mutex_deadlock s name htable

end NLE.Theorems.C09
