import NLE.Proofs.VacInv
import NLE.Model.Cand
import NLE.Gen.Shape
/-!
# C06 — a vacancy is filled within a bounded time while a healthy candidate exists

The theorems are about the timed model `NLE.Vac` of one healthy candidate (periodic check every 500 ms, acquisition
round with at most 100 ms jitter, operations applied and answered within `L`; all three constants regenerated from the
source).  The model has no watch notification at all: the bound rests on the periodic check alone.  The implementation
is held to the model by the acceptor `NLE.Cand` on every fault-free trace with a promised latency bound (a periodic
check that is overdue, a Create that does not follow a miss within the maximum jitter, an operation slower than
promised, a check on a vacant key that returns a record: rejected), and the end-to-end bound is evaluated on
every trace, including those with transient faults, by the monitor clause `C06/vacancy-not-filled`.
-/
namespace NLE.Theorems.C06
open NLE NLE.Vac

/-- The constants of the mechanism as they stand in the source. -/
theorem constants : Gen.checkInterval = 500000000 ∧ Gen.jitterMin = 10000000 ∧ Gen.jitterMax = 100000000 := by decide

/-- The bound: one periodic-check interval (500 ms) + the maximum acquisition jitter (100 ms) + operation latencies:
    four of them, six when the instance may also attempt takeovers (a running attempt is then up to three operations long). -/
theorem bound_documented (L : Nat) : bound (Par.ofLat L false) = 500000000 + 100000000 + 4 * L ∧
    bound (Par.ofLat L true) = 500000000 + 100000000 + 6 * L := by
  simp [bound, Par.ofLat, constants.1, constants.2.2]; omega

/-- Main theorem: in every execution of a healthy candidate — whatever the interleaving of its periodic checks, its
    acquisition rounds, other instances' writes, deletions and expiries, and with no watch notification at all — the key
    is never vacant for longer than the bound (counted from the later of: the vacancy's beginning, the moment the
    candidate became a healthy follower).  A vacancy ends only by an applied write: the candidate's own Create (it is
    then the owner, and claims on the acknowledgement, ≤ L later) or somebody else's. -/
theorem vacancy_filled_within_bound (p : Par) (t0 : Nat) (vacant0 : Bool) (acts : List Act) (s : St)
    (h : run p (init t0 vacant0) acts = some s) (v : Nat) (hv : s.vacant = some v) : s.now ≤ v + bound p :=
  vacancy_young (run_inv (inv_init p t0 vacant0) acts h) v hv

/-- Candidates never give up: in every reachable state the check mechanism has a pending deadline — a check in
    flight that must be answered, or the next check that must be issued within P + L of the previous one. -/
theorem check_always_due (p : Par) (t0 : Nat) (vacant0 : Bool) (acts : List Act) (s : St)
    (h : run p (init t0 vacant0) acts = some s) : s.now ≤ chkDue p s := by
  have inv := run_inv (inv_init p t0 vacant0) acts h
  have hk := inv.chkOK
  unfold chkDue
  cases hc : s.chk with
  | idle => rw [hc] at hk; exact hk
  | flying c => rw [hc] at hk; exact hk.2
  | seen c b => rw [hc] at hk; exact hk.2

/-- A check that reads no record is always followed by a Create within the maximum jitter: the obligation stays until
    a Create of the candidate discharges it, and the clock cannot pass its deadline. -/
theorem miss_is_followed_by_create (p : Par) (t0 : Nat) (vacant0 : Bool) (acts : List Act) (s : St)
    (h : run p (init t0 vacant0) acts = some s) (r : Nat) (hr : r ∈ s.owed) : s.now ≤ r + p.J + p.B :=
  ((run_inv (inv_init p t0 vacant0) acts h).owedLe r hr).2

/-- Leaderless time after the owner crashes or is cut off at `x`: its record was last refreshed at `a ≤ x` and expires
    at `a + TTL` at the latest; the vacancy is filled within the bound and the new owner claims on the acknowledgement. -/
theorem leaderless_bound (x a ttl e v fillAt claimAt B L : Nat) (ha : a ≤ x) (he : e ≤ a + ttl) (hv : v = e)
    (hfill : fillAt ≤ v + B) (hclaim : claimAt ≤ fillAt + L) : claimAt ≤ x + ttl + B + L := by omega

/-! Non-vacuity: a run that takes the whole bound (P = 500, J = 100, L = 10; times in ms for readability). -/
def p0 : Par := { P := 500, Jmin := 10, J := 100, L := 10, B := 10 }

def worst : List Act := [
  .advance 1000, .checkCall, .checkApply, .vacate,           -- the check at 1000 still reads the record; it disappears right after
  .advance 1010, .checkRet false,
  .advance 1510, .checkCall, .advance 1520, .checkApply, .checkRet true,   -- next check: P + L later, applied late
  .advance 1630, .createCall, .advance 1640 ]                -- maximum jitter, a running attempt in the way, slow Create

example : (match run p0 (init 500 false) worst with
    | some s => s.vacant == some 1000 && s.now == 1640 && decide (s.now = 1000 + bound p0) | none => false) = true := by decide

example : (match run p0 (init 500 false) (worst ++ [.createApply 1630]) with
    | some s => s.vacant == none | none => false) = true := by decide

/-- The clock cannot pass the deadline: the model refuses. -/
example : run p0 (init 500 false) (worst ++ [.advance 1641]) = none := by decide

/-- The acceptor rejects a follower that stops checking. -/
def cfgA : InstCfg := { id := 1, key := "g", prio := 0, takeover := false, hb := 200000000, ttl := 600000000, val := 0, grace := 0, maxFail := 0, hasHealth := false, connMon := false, storeTTL := 600000000, callbacks := true }

def lazyFollower : List TEv := [
  ⟨0, .inst cfgA⟩, ⟨0, .hyp true true true true false 10000000 0⟩,
  ⟨5, .api 1 1 .start⟩, ⟨5, .apiRet 1 1 .ok⟩,
  ⟨6, .extPut "g" 1 (.own 9 9 0)⟩,
  ⟨20000000, .trans 1 1 3⟩, ⟨20000000, .flag 1 false false 0 0⟩,
  ⟨700000000, .extDelete "g" 2⟩ ]

example : (match Cand.run {} lazyFollower with | .ok _ => false | .error _ => true) = true := by decide

/-- AST fact: every run gets its own watch loop — `Start` clears the "watcher running" flag, as the stop calls do (a loop
    of the previous run may still be inside a slow store call when the next run begins). -/
theorem watcher_per_run_shape : Gen.startResetsWatcherFlag = true := by decide

end NLE.Theorems.C06
