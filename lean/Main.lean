import NLE.Driver.Pure
import NLE.Driver.TraceOps
open NLE.Driver

partial def readTrace (hin : IO.FS.Stream) (acc : TraceAcc) : IO TraceAcc := do
  let line ← hin.getLine
  if line.isEmpty then return acc
  let l := line.trimAscii.toString
  if l == "trace-end" then return acc
  readTrace hin (acc.add l)

partial def loop (hin : IO.FS.Stream) (hout : IO.FS.Stream) : IO Unit := do
  let line ← hin.getLine
  if line.isEmpty then return ()
  let ws := words (line.trimAscii.toString)
  if ws.isEmpty then
    loop hin hout
  else if ws == ["trace-begin"] then
    let acc ← readTrace hin {}
    hout.putStrLn acc.finish
    loop hin hout
  else
    match handlePure ws with
    | some out => hout.putStrLn out
    | none => hout.putStrLn "bad-op"
    loop hin hout

def main : IO Unit := do
  let hin ← IO.getStdin
  let hout ← IO.getStdout
  loop hin hout
  hout.flush
