import NLE.Driver.Pure
open NLE.Driver

partial def loop (hin : IO.FS.Stream) (hout : IO.FS.Stream) : IO Unit := do
  let line ← hin.getLine
  if line.isEmpty then return ()
  let ws := words (line.trimAscii.toString)
  if ws.isEmpty then
    loop hin hout
  else
    match handlePure ws with
    | some out => hout.putStrLn out
    | none => hout.putStrLn "bad-op"
    loop hin hout

def main : IO Unit := do
  let hin ← IO.getStdin
  let hout ← IO.getStdout
  loop hin hout
  hout.flush
