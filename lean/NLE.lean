-- Root of the `NLE` library: everything `lake build NLE` must check.
import NLE.Model.Text
import NLE.Model.Config
import NLE.Model.Classify
import NLE.Model.Backoff
import NLE.Model.Validate
import NLE.Driver.Pure
import NLE.Theorems.C01
import NLE.Theorems.C04
import NLE.Theorems.C05
import NLE.Theorems.C10
import NLE.Theorems.C15
import NLE.Theorems.C16
import NLE.Theorems.C17
import NLE.Theorems.C17Round
import NLE.Model.Round
