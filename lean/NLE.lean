-- This module serves as the root of the `NLE` library.
-- Import modules here that should be built as part of the library.
import NLE.Basic
